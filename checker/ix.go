package main

// IX — constant-position indexing needs a dominating length guard.

import (
	"os"
	"fmt"
	"regexp"
	"go/token"
	"go/types"
	"sort"
	"strings"

	"golang.org/x/tools/go/ssa"
)

const ixInf = 1 << 20

var placeholderRe = regexp.MustCompile(`§\d+§`)

type ixCtx struct {
	w        *World
	pure     map[*ssa.Function]int8
	predSumm map[*ssa.Function]map[string]int // predicate true => exprKey(with P<i>) -> min len
	inProg   map[*ssa.Function]bool
	retLenMemo map[*ssa.Function]retLenSumm
	sitesMemo  map[*ssa.Function][]ixSite
	joinMemo   map[*ssa.BasicBlock]map[string]int
	joinBusy   map[*ssa.BasicBlock]bool
}

// isPure: no stores, map updates, or calls to impure functions (depth-bounded).
func (c *ixCtx) isPure(fn *ssa.Function, depth int) bool {
	if fn == nil || len(fn.Blocks) == 0 {
		return false
	}
	if v, ok := c.pure[fn]; ok {
		return v == 1
	}
	if depth > 3 {
		return false
	}
	c.pure[fn] = 1 // optimistic for recursion
	ok := true
	for _, b := range fn.Blocks {
		for _, ins := range b.Instrs {
			switch x := ins.(type) {
			case *ssa.Store:
				if _, local := x.Addr.(*ssa.Alloc); !local {
					if fa, isFA := x.Addr.(*ssa.FieldAddr); isFA {
						if _, local := fa.X.(*ssa.Alloc); local {
							continue
						}
					}
					if ia, isIA := x.Addr.(*ssa.IndexAddr); isIA {
						if _, local := ia.X.(*ssa.Alloc); local {
							continue
						}
					}
					ok = false
				}
			case *ssa.MapUpdate, *ssa.Send, *ssa.Go, *ssa.Defer:
				ok = false
			case *ssa.Call:
				if _, isB := x.Call.Value.(*ssa.Builtin); isB {
					continue
				}
				cal := x.Call.StaticCallee()
				if cal == nil {
					ok = false
					continue
				}
				if cal.Pkg != nil && !inModule(cal.Pkg.Pkg.Path()) {
					switch cal.Pkg.Pkg.Path() {
					case "strings", "unicode", "slices", "strconv", "fmt", "unicode/utf8":
						if strings.HasPrefix(cal.Name(), "Print") || strings.HasPrefix(cal.Name(), "Fprint") {
							ok = false
						}
						continue
					}
					ok = false
					continue
				}
				if !c.isPure(cal, depth+1) {
					ok = false
				}
			}
		}
	}
	if ok {
		c.pure[fn] = 1
	} else {
		c.pure[fn] = 2
	}
	return ok
}

// exprKey gives a canonical, function-local name for the storage a value denotes.
// params maps parameters to replacement keys (for summaries).
func (c *ixCtx) exprKey(v ssa.Value, params map[ssa.Value]string, depth int) string {
	if k, ok := params[v]; ok {
		return k
	}
	if depth > 6 {
		return "v:" + v.Name()
	}
	switch x := v.(type) {
	case *ssa.Const:
		if x.Value != nil {
			return "c:" + x.Value.ExactString()
		}
		return "c:nil"
	case *ssa.Parameter:
		return "p:" + x.Name()
	case *ssa.FreeVar:
		return "fv:" + x.Name()
	case *ssa.Global:
		return "g:" + x.Name()
	case *ssa.Call:
		if bi, ok := x.Call.Value.(*ssa.Builtin); ok && (bi.Name() == "len") && len(x.Call.Args) == 1 {
			return "len(" + c.exprKey(x.Call.Args[0], params, depth+1) + ")"
		}
		cal := x.Call.StaticCallee()
		if cal != nil && c.isPure(cal, 0) {
			var as []string
			for _, a := range x.Call.Args {
				as = append(as, c.exprKey(a, params, depth+1))
			}
			return fnKey(cal) + "(" + strings.Join(as, ",") + ")"
		}
	case *ssa.UnOp:
		if x.Op == token.MUL {
			return "*" + c.exprKey(x.X, params, depth+1)
		}
	case *ssa.FieldAddr:
		fld := fmt.Sprint(x.Field)
		if pt, ok := x.X.Type().Underlying().(*types.Pointer); ok {
			if st, ok := pt.Elem().Underlying().(*types.Struct); ok {
				fld = st.Field(x.Field).Name()
			}
		}
		return c.exprKey(x.X, params, depth+1) + "." + fld
	case *ssa.Field:
		fld := fmt.Sprint(x.Field)
		if st, ok := x.X.Type().Underlying().(*types.Struct); ok {
			fld = st.Field(x.Field).Name()
		}
		return c.exprKey(x.X, params, depth+1) + "." + fld
	case *ssa.ChangeType:
		return c.exprKey(x.X, params, depth+1)
	case *ssa.Convert:
		return c.exprKey(x.X, params, depth+1)
	case *ssa.Extract:
		return c.exprKey(x.Tuple, params, depth+1) + "#" + fmt.Sprint(x.Index)
	case *ssa.IndexAddr:
		return c.exprKey(x.X, params, depth+1) + "[" + c.exprKey(x.Index, params, depth+1) + "]"
	case *ssa.Alloc:
		// a local variable cell: name by its declared name when unique
		return "a:" + x.Name()
	}
	return "v:" + v.Name()
}

// lenFact: cond (with polarity) gives lower bounds on lengths: key -> min.
func (c *ixCtx) lenFacts(cond ssa.Value, truth bool, params map[ssa.Value]string, out map[string]int, depth int) {
	if depth > 4 {
		return
	}
	set := func(k string, n int) {
		if n > out[k] {
			out[k] = n
		}
	}
	switch x := cond.(type) {
	case *ssa.UnOp:
		if x.Op == token.NOT {
			c.lenFacts(x.X, !truth, params, out, depth+1)
		}
	case *ssa.BinOp:
		// normalise to  L op R  with polarity applied
		op := x.Op
		if !truth {
			switch op {
			case token.EQL:
				op = token.NEQ
			case token.NEQ:
				op = token.EQL
			case token.LSS:
				op = token.GEQ
			case token.GEQ:
				op = token.LSS
			case token.GTR:
				op = token.LEQ
			case token.LEQ:
				op = token.GTR
			default:
				return
			}
		}
		lenOf := func(v ssa.Value) (string, bool) {
			if call, ok := v.(*ssa.Call); ok {
				if bi, ok := call.Call.Value.(*ssa.Builtin); ok && bi.Name() == "len" && len(call.Call.Args) == 1 {
					return c.exprKey(call.Call.Args[0], params, 0), true
				}
			}
			return "", false
		}
		cint := func(v ssa.Value) (int, bool) {
			if k, ok := v.(*ssa.Const); ok {
				if cv := constVal(k); cv.k == kInt {
					return int(cv.i), true
				}
			}
			return 0, false
		}
		// len(x) op c
		if k, ok := lenOf(x.X); ok {
			if n, ok := cint(x.Y); ok {
				switch op {
				case token.GTR:
					set(k, n+1)
				case token.GEQ:
					set(k, n)
				case token.EQL:
					set(k, n)
				case token.NEQ:
					if n == 0 {
						set(k, 1)
					} else {
						out[fmt.Sprintf("≠%d≠%s", n, k)] = 1
					}
				}
			}
		}
		// c op len(x)
		if k, ok := lenOf(x.Y); ok {
			if n, ok := cint(x.X); ok {
				switch op {
				case token.LSS:
					set(k, n+1)
				case token.LEQ:
					set(k, n)
				case token.EQL:
					set(k, n)
				case token.NEQ:
					if n == 0 {
						set(k, 1)
					}
				}
			}
		}
		// s != ""  /  s == "abc"
		for _, pr := range [][2]ssa.Value{{x.X, x.Y}, {x.Y, x.X}} {
			if k, ok := pr[1].(*ssa.Const); ok {
				if cv := constVal(k); cv.k == kStr {
					if b, ok := pr[0].Type().Underlying().(*types.Basic); ok && b.Info()&types.IsString != 0 {
						if op == token.NEQ && cv.s == "" {
							set(c.exprKey(pr[0], params, 0), 1)
						}
						if op == token.EQL {
							set(c.exprKey(pr[0], params, 0), len(cv.s))
						}
					}
				}
			}
		}
	case *ssa.Call:
		if !truth {
			// predicates with a "false => non-empty" summary are rare: IsEmpty-like; skip
			return
		}
		cal := x.Call.StaticCallee()
		if cal == nil {
			return
		}
		if cal.Pkg != nil && cal.Pkg.Pkg.Path() == "strings" && (cal.Name() == "HasPrefix" || cal.Name() == "HasSuffix" || cal.Name() == "Contains") && len(x.Call.Args) == 2 {
			if k, ok := x.Call.Args[1].(*ssa.Const); ok {
				if cv := constVal(k); cv.k == kStr {
					set(c.exprKey(x.Call.Args[0], params, 0), len(cv.s))
				}
			}
			return
		}
		summ := c.predicateSummary(cal)
		if len(summ) == 0 {
			return
		}
		// substitute actual arguments
		for k, n := range summ {
			okSub := true
			kk := placeholderRe.ReplaceAllStringFunc(k, func(m string) string {
				var i int
				fmt.Sscanf(m, "§%d§", &i)
				if i >= len(x.Call.Args) {
					okSub = false
					return m
				}
				return c.exprKey(x.Call.Args[i], params, 1)
			})
			if okSub {
				set(kk, n)
			}
		}
	}
}

// factsAt collects the length facts established by the branch edges that dominate block b.
// ixAssumed: reviewed facts about storage, per function: "in this function len(<storage>) is
// at least n". They are used like dominating facts, so a site that moves into a helper
// called from the same function (or back) keeps its justification. Every use is reported in
// the evidence as a reviewed exception.
var ixAssumed = map[string]map[string]struct {
	n   int
	why string
}{
	"base.(*T).GetRemoveSuffixKey": {"*p:t.key": {1, "only called on keyword-argument values: call-site keys are key-identifier token texts (IsKeyIdentifier ⇒ len > 1) and configured keys are non-empty (the loader builds a KEYVALUE only for a non-empty key)"}},
}

var ixAssumedUsed = map[string]string{}

func (c *ixCtx) factsAt(b *ssa.BasicBlock, params map[ssa.Value]string) map[string]int {
	out := c.factsAtDom(b, params)
	// a join block: what holds on every incoming edge holds here (`if a(x) || b(x) { … }`
	// enters its body from two edges; the weaker of the two bounds survives)
	if params == nil {
		for k, v := range c.joinFacts(b) {
			if v > out[k] {
				out[k] = v
			}
		}
	}
	return out
}

// joinFacts: the meet (minimum per key, missing = 0) of the facts of all incoming edges of a
// block with several predecessors, and of the blocks it is dominated through. Blocks in
// progress (loops) contribute nothing, which is the sound answer.
func (c *ixCtx) joinFacts(b *ssa.BasicBlock) map[string]int {
	if c.joinMemo == nil {
		c.joinMemo = map[*ssa.BasicBlock]map[string]int{}
		c.joinBusy = map[*ssa.BasicBlock]bool{}
	}
	if m, ok := c.joinMemo[b]; ok {
		return m
	}
	if c.joinBusy[b] {
		return nil
	}
	c.joinBusy[b] = true
	defer delete(c.joinBusy, b)
	var res map[string]int
	if len(b.Preds) >= 2 {
		for i, p := range b.Preds {
			f := c.edgeFacts(p, b, nil)
			if i == 0 {
				res = f
				continue
			}
			for k, v := range res {
				if f[k] < v {
					if f[k] == 0 {
						delete(res, k)
					} else {
						res[k] = f[k]
					}
				}
			}
		}
	} else if len(b.Preds) == 1 {
		// facts that reached the single predecessor through a join carry on
		res = map[string]int{}
		for k, v := range c.joinFacts(b.Preds[0]) {
			res[k] = v
		}
	}
	// storage that is rewritten on the way is not tracked here: the keys are the same
	// canonical expressions the dominator walk uses, under the same assumption
	c.joinMemo[b] = res
	return res
}

func (c *ixCtx) factsAtDom(b *ssa.BasicBlock, params map[ssa.Value]string) map[string]int {
	out := map[string]int{}
	if params == nil && b.Parent() != nil {
		for k, a := range ixAssumed[fnKey(b.Parent())] {
			out[k] = a.n
			ixAssumedUsed["IX-assume|"+fnKey(b.Parent())+"|len("+k+") ≥ "+fmt.Sprint(a.n)] = a.why
		}
	}
	for cur := b; cur != nil; cur = cur.Idom() {
		d := cur.Idom()
		if d == nil {
			break
		}
		iff, ok := d.Instrs[len(d.Instrs)-1].(*ssa.If)
		if !ok {
			continue
		}
		// cur must be entered only through one edge of d (edge dominance)
		if len(cur.Preds) != 1 || cur.Preds[0] != d {
			// a join block: facts of the idom's own dominators still hold; skip this edge
			continue
		}
		before := map[string]int{}
		if ixAudit {
			for k, v := range out {
				before[k] = v
			}
		}
		if d.Succs[0] == cur && d.Succs[1] != cur {
			c.lenFacts(iff.Cond, true, params, out, 0)
		} else if d.Succs[1] == cur && d.Succs[0] != cur {
			c.lenFacts(iff.Cond, false, params, out, 0)
		}
		if ixAudit && params == nil {
			for k, v := range out {
				if before[k] >= v || !mutableKey(k) {
					continue
				}
				if why := impureBetween(c, cur, b); why != "" {
					ixAuditLog[fmt.Sprintf("%s: fact len(%s) ≥ %d from the test at %s used in block %d after %s", fnKey(b.Parent()), k, v, c.w.pos(instrPos(iff)), b.Index, why)] = true
				}
			}
		}
	}
	return out
}

var ixAudit = os.Getenv("VERIF_DEBUG") == "ixaudit"
var ixAuditLog = map[string]bool{}

// mutableKey: the storage is reached through memory or an accessor (not an SSA value).
func mutableKey(k string) bool {
	return strings.Contains(k, "*") || strings.Contains(k, "g:") || strings.Contains(k, ").") || (strings.Contains(k, "(") && !strings.HasPrefix(k, "len(p:") && !strings.HasPrefix(k, "len(v:"))
}

// impureBetween: an impure call or a store on some path from the start of block from to the
// start of block to (exclusive of to's own instructions).
func impureBetween(c *ixCtx, from, to *ssa.BasicBlock) string {
	fwd := map[*ssa.BasicBlock]bool{}
	var f func(b *ssa.BasicBlock)
	f = func(b *ssa.BasicBlock) {
		if fwd[b] {
			return
		}
		fwd[b] = true
		if b == to {
			return
		}
		for _, s := range b.Succs {
			f(s)
		}
	}
	f(from)
	bwd := map[*ssa.BasicBlock]bool{}
	var g func(b *ssa.BasicBlock)
	g = func(b *ssa.BasicBlock) {
		if bwd[b] {
			return
		}
		bwd[b] = true
		if b == from {
			return
		}
		for _, p := range b.Preds {
			g(p)
		}
	}
	g(to)
	for b := range fwd {
		if !bwd[b] {
			continue
		}
		for _, ins := range b.Instrs {
			switch x := ins.(type) {
			case *ssa.Store:
				if _, local := x.Addr.(*ssa.Alloc); !local {
					return "a store at " + c.w.pos(instrPos(x))
				}
			case *ssa.MapUpdate:
				return "a map update at " + c.w.pos(instrPos(x))
			case *ssa.Call:
				cal := x.Call.StaticCallee()
				if cal == nil {
					if _, bi := x.Call.Value.(*ssa.Builtin); bi {
						continue
					}
					return "a dynamic call at " + c.w.pos(instrPos(x))
				}
				if cal.Pkg != nil && !inModule(cal.Pkg.Pkg.Path()) {
					continue
				}
				if !c.isPure(cal, 0) {
					return "the call of " + fnKey(cal) + " at " + c.w.pos(instrPos(x))
				}
			}
		}
	}
	return ""
}

// edgeFacts: facts at the end of block p, plus the branch fact of the edge p → to.
func (c *ixCtx) edgeFacts(p, to *ssa.BasicBlock, params map[ssa.Value]string) map[string]int {
	out := c.factsAt(p, params)
	if iff, ok := p.Instrs[len(p.Instrs)-1].(*ssa.If); ok && len(p.Succs) == 2 && p.Succs[0] != p.Succs[1] {
		if p.Succs[0] == to {
			c.lenFacts(iff.Cond, true, params, out, 0)
		} else if p.Succs[1] == to {
			c.lenFacts(iff.Cond, false, params, out, 0)
		}
	}
	return out
}

// predicateSummary: facts that hold whenever the bool function returns true, expressed
// over its parameters (§i§ placeholders).
func (c *ixCtx) predicateSummary(fn *ssa.Function) map[string]int {
	if s, ok := c.predSumm[fn]; ok {
		return s
	}
	res := map[string]int{}
	c.predSumm[fn] = res
	if fn == nil || len(fn.Blocks) == 0 || fn.Signature.Results().Len() != 1 {
		return res
	}
	if b, ok := fn.Signature.Results().At(0).Type().Underlying().(*types.Basic); !ok || b.Kind() != types.Bool {
		return res
	}
	if c.inProg[fn] {
		return res
	}
	c.inProg[fn] = true
	defer delete(c.inProg, fn)
	params := map[ssa.Value]string{}
	for i, p := range fn.Params {
		params[p] = fmt.Sprintf("§%d§", i)
	}
	var all []map[string]int
	var walkRet func(v ssa.Value, blk *ssa.BasicBlock, extra map[string]int, depth int)
	walkRet = func(v ssa.Value, blk *ssa.BasicBlock, extra map[string]int, depth int) {
		if k, ok := v.(*ssa.Const); ok {
			if cv := constVal(k); cv.k == kBool && !cv.b {
				return // returns false: irrelevant
			}
		}
		if ph, ok := v.(*ssa.Phi); ok && depth < 4 {
			for i, e := range ph.Edges {
				walkRet(e, ph.Block().Preds[i], nil, depth+1)
			}
			return
		}
		f := c.factsAt(blk, params)
		// the block's own terminating condition is not a fact; but if v itself is a condition it holds
		c.lenFacts(v, true, params, f, 0)
		for k, n := range extra {
			if n > f[k] {
				f[k] = n
			}
		}
		all = append(all, f)
	}
	for _, b := range fn.Blocks {
		if ret, ok := b.Instrs[len(b.Instrs)-1].(*ssa.Return); ok && len(ret.Results) == 1 {
			walkRet(ret.Results[0], b, nil, 0)
		}
	}
	if len(all) == 0 {
		return res
	}
	// intersection (min over all true-returns)
	for k, n := range all[0] {
		m := n
		okAll := true
		for _, f := range all[1:] {
			if v, ok := f[k]; ok {
				if v < m {
					m = v
				}
			} else {
				okAll = false
			}
		}
		if okAll && m > 0 && strings.Contains(k, "§") {
			res[k] = m
		}
	}
	return res
}

// minLen: structural lower bound of len(v).
func (c *ixCtx) minLen(v ssa.Value, facts map[string]int, params map[ssa.Value]string, seen map[ssa.Value]bool, mono bool, depth int) int {
	best := 0
	key := c.exprKey(v, params, 0)
	if n, ok := facts[key]; ok {
		best = n
	}
	defer func() {}()
	if depth > 8 {
		return best
	}
	if depth == 0 {
		// len != n facts bump the lower bound past excluded values
		r := c.minLen(v, facts, params, seen, mono, 1)
		for r < ixInf && facts[fmt.Sprintf("≠%d≠%s", r, key)] == 1 {
			r++
		}
		return r
	}
	up := func(n int) {
		if n > best {
			best = n
		}
	}
	switch x := v.(type) {
	case *ssa.Const:
		if cv := constVal(x); cv.k == kStr {
			up(len(cv.s))
		}
	case *ssa.BinOp:
		if x.Op == token.ADD {
			if b, ok := x.Type().Underlying().(*types.Basic); ok && b.Info()&types.IsString != 0 {
				a := c.minLen(x.X, facts, params, seen, mono, depth+1)
				bb := c.minLen(x.Y, facts, params, seen, mono, depth+1)
				if a >= ixInf || bb >= ixInf {
					up(ixInf)
				} else {
					up(a + bb)
				}
			}
		}
	case *ssa.Phi:
		if seen[x] {
			if mono {
				return ixInf
			}
			return best
		}
		seen[x] = true
		m := ixInf
		for i, e := range x.Edges {
			// what is known on the edge: the facts at the end of the predecessor plus the
			// branch edge into the join (`if len(x) == 0 { x = append(x, y) }`)
			ef := facts
			if preds := x.Block().Preds; i < len(preds) && depth < 5 {
				ef = c.edgeFacts(preds[i], x.Block(), params)
				for k, v := range facts {
					if v > ef[k] {
						ef[k] = v
					}
				}
			}
			n := c.minLen(e, ef, params, seen, mono, depth+1)
			ek := c.exprKey(e, params, 0)
			for n < ixInf && ef[fmt.Sprintf("≠%d≠%s", n, ek)] == 1 {
				n++
			}
			if n < m {
				m = n
			}
		}
		delete(seen, x)
		if m < ixInf {
			up(m)
		}
	case *ssa.Call:
		if bi, ok := x.Call.Value.(*ssa.Builtin); ok && bi.Name() == "append" && len(x.Call.Args) == 2 {
			a := c.minLen(x.Call.Args[0], facts, params, seen, mono, depth+1)
			b := c.minLen(x.Call.Args[1], facts, params, seen, true, depth+1)
			if a >= ixInf {
				up(ixInf)
			} else {
				up(a + b)
			}
		}
		if cal := x.Call.StaticCallee(); cal != nil && cal.String() == "strings.Split" {
			up(1)
		}
		if cal := x.Call.StaticCallee(); cal != nil && cal.Pkg != nil && inModule(cal.Pkg.Pkg.Path()) {
			if rl := c.retLen(cal, 0); rl.ok {
				okSub := true
				k := placeholderRe.ReplaceAllStringFunc(rl.tmpl, func(m string) string {
					var i int
					fmt.Sscanf(m, "§%d§", &i)
					if i >= len(x.Call.Args) {
						okSub = false
						return m
					}
					return c.exprKey(x.Call.Args[i], params, 1)
				})
				if okSub {
					if n, has := facts[k]; has && n+rl.delta > 0 {
						up(n + rl.delta)
					}
					// a plain parameter template: structural bound of the argument
					for i, a := range x.Call.Args {
						if rl.tmpl == fmt.Sprintf("§%d§", i) {
							if n := c.minLen(a, facts, params, seen, mono, depth+1); n < ixInf && n+rl.delta > 0 {
								up(n + rl.delta)
							}
						}
					}
				}
			}
		}
		if cal := x.Call.StaticCallee(); cal != nil && cal.Pkg != nil && inModule(cal.Pkg.Pkg.Path()) && !seen[x] && depth < 4 {
			// structural bound of what a module function returns (no facts of the caller apply)
			seen[x] = true
			m := ixInf
			n := 0
			for _, b := range cal.Blocks {
				if ret, ok := b.Instrs[len(b.Instrs)-1].(*ssa.Return); ok && len(ret.Results) == 1 {
					n++
					if l := c.minLen(ret.Results[0], c.factsAt(b, nil), nil, map[ssa.Value]bool{}, true, depth+2); l < m {
						m = l
					}
				}
			}
			delete(seen, x)
			if n > 0 && m < ixInf {
				up(m)
			}
		}
	case *ssa.Slice:
		// x[lo:hi] of an array allocation: whole array length when lo/hi absent
		if al, ok := x.X.(*ssa.Alloc); ok {
			if at, ok := al.Type().Underlying().(*types.Pointer).Elem().Underlying().(*types.Array); ok && x.Low == nil && x.High == nil {
				up(int(at.Len()))
			}
		}
		if x.Low == nil && x.High != nil {
			if bo, ok := x.High.(*ssa.BinOp); ok && bo.Op == token.SUB {
				if k, ok := bo.Y.(*ssa.Const); ok {
					if call, ok := bo.X.(*ssa.Call); ok {
						if bi, ok := call.Call.Value.(*ssa.Builtin); ok && bi.Name() == "len" && c.exprKey(call.Call.Args[0], params, 0) == c.exprKey(x.X, params, 0) {
							if cv := constVal(k); cv.k == kInt {
								n := c.minLen(x.X, facts, params, seen, false, depth+1)
								if n < ixInf && n-int(cv.i) > best {
									up(n - int(cv.i))
								}
							}
						}
					}
				}
			}
		}
		if x.High == nil && x.Low != nil {
			if bo, ok := x.Low.(*ssa.BinOp); ok && bo.Op == token.SUB {
				if k, ok := bo.Y.(*ssa.Const); ok {
					if call, ok := bo.X.(*ssa.Call); ok {
						if bi, ok := call.Call.Value.(*ssa.Builtin); ok && bi.Name() == "len" && c.exprKey(call.Call.Args[0], params, 0) == c.exprKey(x.X, params, 0) {
							if cv := constVal(k); cv.k == kInt {
								up(int(cv.i)) // x[len(x)-k:] has exactly k elements (the slice itself is a checked site)
							}
						}
					}
				}
			}
			if k, ok := x.Low.(*ssa.Const); ok {
				if cv := constVal(k); cv.k == kInt {
					n := c.minLen(x.X, facts, params, seen, false, depth+1)
					if n < ixInf && n-int(cv.i) > best {
						up(n - int(cv.i))
					}
				}
			}
		}
	case *ssa.Convert:
		// string(rune) has at least one byte
		if b, ok := x.Type().Underlying().(*types.Basic); ok && b.Kind() == types.String {
			if xb, ok := x.X.Type().Underlying().(*types.Basic); ok && xb.Info()&types.IsInteger != 0 {
				up(1)
			}
		}
	case *ssa.MakeSlice:
		if k, ok := x.Len.(*ssa.Const); ok {
			if cv := constVal(k); cv.k == kInt {
				up(int(cv.i))
			}
		}
	case *ssa.UnOp:
		// load of a local cell: min over the stores into it (only if the cell never escapes)
		if al, ok := x.X.(*ssa.Alloc); ok && x.Op == token.MUL && !seen[al] {
			seen[al] = true
			m := ixInf
			n := 0
			escapes := false
			for _, ref := range *al.Referrers() {
				switch r := ref.(type) {
				case *ssa.Store:
					if r.Addr == ssa.Value(al) {
						n++
						if l := c.minLen(r.Val, facts, params, seen, mono, depth+1); l < m {
							m = l
						}
					}
				case *ssa.UnOp, *ssa.DebugRef:
				default:
					escapes = true
				}
			}
			delete(seen, al)
			if n > 0 && !escapes && m < ixInf {
				up(m)
			}
		}
	}
	return best
}

// retLen: "len(result) ≥ len(template) + delta" summaries of module functions whose every
// return is a constant-offset slice of an expression over the parameters
// (RemoveSuffix: (§0§, -1)); template uses §i§ placeholders.
type retLenSumm struct {
	tmpl  string
	delta int
	ok    bool
}

func (c *ixCtx) retLen(fn *ssa.Function, depth int) retLenSumm {
	if c.retLenMemo == nil {
		c.retLenMemo = map[*ssa.Function]retLenSumm{}
	}
	if s, ok := c.retLenMemo[fn]; ok {
		return s
	}
	c.retLenMemo[fn] = retLenSumm{}
	if fn == nil || len(fn.Blocks) == 0 || depth > 3 || fn.Signature.Results().Len() != 1 {
		return retLenSumm{}
	}
	params := map[ssa.Value]string{}
	for i, p := range fn.Params {
		params[p] = fmt.Sprintf("§%d§", i)
	}
	cint := func(v ssa.Value) (int, bool) {
		if k, ok := v.(*ssa.Const); ok {
			if cv := constVal(k); cv.k == kInt {
				return int(cv.i), true
			}
		}
		return 0, false
	}
	var one func(v ssa.Value, d int) retLenSumm
	one = func(v ssa.Value, d int) retLenSumm {
		if d > 4 {
			return retLenSumm{}
		}
		switch x := v.(type) {
		case *ssa.Slice:
			base := c.exprKey(x.X, params, 0)
			if !strings.Contains(base, "§") || strings.Contains(base, "v:") {
				return retLenSumm{}
			}
			delta := 0
			if x.Low != nil {
				k, ok := cint(x.Low)
				if !ok {
					return retLenSumm{}
				}
				delta -= k
			}
			if x.High != nil {
				bo, ok := x.High.(*ssa.BinOp)
				if !ok || bo.Op != token.SUB {
					return retLenSumm{}
				}
				k, ok := cint(bo.Y)
				if !ok {
					return retLenSumm{}
				}
				call, ok := bo.X.(*ssa.Call)
				if !ok {
					return retLenSumm{}
				}
				if bi, ok := call.Call.Value.(*ssa.Builtin); !ok || bi.Name() != "len" || c.exprKey(call.Call.Args[0], params, 0) != base {
					return retLenSumm{}
				}
				delta -= k
			}
			return retLenSumm{base, delta, true}
		case *ssa.Call:
			cal := x.Call.StaticCallee()
			if cal == nil || cal.Pkg == nil || !inModule(cal.Pkg.Pkg.Path()) {
				return retLenSumm{}
			}
			inner := c.retLen(cal, depth+1)
			if !inner.ok {
				return retLenSumm{}
			}
			okSub := true
			t := placeholderRe.ReplaceAllStringFunc(inner.tmpl, func(m string) string {
				var i int
				fmt.Sscanf(m, "§%d§", &i)
				if i >= len(x.Call.Args) {
					okSub = false
					return m
				}
				return c.exprKey(x.Call.Args[i], params, 1)
			})
			if !okSub || strings.Contains(t, "v:") || strings.Contains(t, "a:") {
				return retLenSumm{}
			}
			return retLenSumm{t, inner.delta, true}
		}
		return retLenSumm{}
	}
	var res retLenSumm
	n := 0
	for _, b := range fn.Blocks {
		ret, ok := b.Instrs[len(b.Instrs)-1].(*ssa.Return)
		if !ok {
			continue
		}
		s := one(ret.Results[0], 0)
		if !s.ok {
			return retLenSumm{}
		}
		if n > 0 && (s.tmpl != res.tmpl || s.delta != res.delta) {
			return retLenSumm{}
		}
		res = s
		n++
	}
	c.retLenMemo[fn] = res
	return res
}

type ixSite struct {
	ins   ssa.Instruction
	base  ssa.Value
	need  int    // len(base) must be >= need
	desc  string // position-free construct
	array bool
}

func (c *ixCtx) sitesOf(fn *ssa.Function) (out []ixSite) {
	cint := func(v ssa.Value) (int, bool) {
		if k, ok := v.(*ssa.Const); ok {
			if cv := constVal(k); cv.k == kInt {
				return int(cv.i), true
			}
		}
		return 0, false
	}
	// len(base)-k pattern
	lenMinus := func(v ssa.Value, base ssa.Value) (int, bool) {
		bo, ok := v.(*ssa.BinOp)
		if !ok || bo.Op != token.SUB {
			return 0, false
		}
		k, ok := cint(bo.Y)
		if !ok {
			return 0, false
		}
		call, ok := bo.X.(*ssa.Call)
		if !ok {
			return 0, false
		}
		if bi, ok := call.Call.Value.(*ssa.Builtin); !ok || bi.Name() != "len" {
			return 0, false
		}
		if c.exprKey(call.Call.Args[0], nil, 0) != c.exprKey(base, nil, 0) {
			return 0, false
		}
		return k, true
	}
	name := func(v ssa.Value) string {
		s := c.exprKey(v, nil, 0)
		s = strings.NewReplacer("p:", "", "*a:", "", "a:", "", "v:", "", "g:", "").Replace(s)
		return s
	}
	_ = name
	srcName := func(ins ssa.Instruction, fallback string) string {
		if e := c.w.bracketExprAt(ins.Pos()); e != "" {
			return e
		}
		return fallback
	}
	defer func() {
		for i := range out {
			kind := strings.SplitN(out[i].desc, " ", 2)[0]
			if e := srcName(out[i].ins, ""); e != "" {
				out[i].desc = kind + " " + e
			}
		}
	}()
	for _, b := range fn.Blocks {
		for _, ins := range b.Instrs {
			switch x := ins.(type) {
			case *ssa.IndexAddr:
				bt := x.X.Type().Underlying()
				if pt, ok := bt.(*types.Pointer); ok {
					if at, ok := pt.Elem().Underlying().(*types.Array); ok {
						if _, isConst := cint(x.Index); !isConst {
							// variable index into a fixed array, unless it is a range index over that array
							if !isRangeIndexOf(x.Index, x.X) {
								out = append(out, ixSite{ins: ins, base: x.X, need: int(at.Len()), desc: "array " + name(x.X) + "[" + name(x.Index) + "]", array: true})
							}
						}
						continue
					}
				}
				if k, ok := cint(x.Index); ok {
					out = append(out, ixSite{ins: ins, base: x.X, need: k + 1, desc: fmt.Sprintf("index %s[%d]", name(x.X), k)})
				} else if k, ok := lenMinus(x.Index, x.X); ok {
					out = append(out, ixSite{ins: ins, base: x.X, need: k, desc: fmt.Sprintf("index %s[len-%d]", name(x.X), k)})
				}
			case *ssa.Index:
				if b, ok := x.X.Type().Underlying().(*types.Basic); ok && b.Info()&types.IsString != 0 {
					if k, ok := cint(x.Index); ok {
						out = append(out, ixSite{ins: ins, base: x.X, need: k + 1, desc: fmt.Sprintf("index %s[%d]", name(x.X), k)})
					} else if k, ok := lenMinus(x.Index, x.X); ok {
						out = append(out, ixSite{ins: ins, base: x.X, need: k, desc: fmt.Sprintf("index %s[len-%d]", name(x.X), k)})
					}
				}
			case *ssa.Lookup:
				if b, ok := x.X.Type().Underlying().(*types.Basic); ok && b.Info()&types.IsString != 0 {
					if k, ok := cint(x.Index); ok {
						out = append(out, ixSite{ins: ins, base: x.X, need: k + 1, desc: fmt.Sprintf("index %s[%d]", name(x.X), k)})
					} else if k, ok := lenMinus(x.Index, x.X); ok {
						out = append(out, ixSite{ins: ins, base: x.X, need: k, desc: fmt.Sprintf("index %s[len-%d]", name(x.X), k)})
					}
				}
			case *ssa.Call:
				// text handed to the identifier factory must be non-empty: the evaluator indexes
				// the first character of every identifier-kind value it is asked to evaluate
				if cal := x.Call.StaticCallee(); cal != nil && c.isIdentifierFactory(cal) && len(x.Call.Args) == 1 {
					if _, isConst := x.Call.Args[0].(*ssa.Const); !isConst && pkgShort(fn) != "base" && pkgShort(fn) != "builtin" {
						out = append(out, ixSite{ins: ins, base: x.Call.Args[0], need: 1, desc: "nonempty " + cal.Name() + "(" + name(x.Call.Args[0]) + ")"})
					}
				}
			case *ssa.Slice:
				bt := x.X.Type().Underlying()
				if pt, ok := bt.(*types.Pointer); ok {
					if _, ok := pt.Elem().Underlying().(*types.Array); ok {
						continue // slicing a fixed array with constants is checked by the compiler
					}
				}
				need := 0
				var parts []string
				for _, pr := range []struct {
					v ssa.Value
					n string
				}{{x.Low, "lo"}, {x.High, "hi"}} {
					if pr.v == nil {
						continue
					}
					if k, ok := cint(pr.v); ok {
						if k > need {
							need = k
						}
						parts = append(parts, fmt.Sprintf("%s=%d", pr.n, k))
					} else if k, ok := lenMinus(pr.v, x.X); ok {
						if k > need {
							need = k
						}
						parts = append(parts, fmt.Sprintf("%s=len-%d", pr.n, k))
					}
				}
				if need > 0 {
					out = append(out, ixSite{ins: ins, base: x.X, need: need, desc: "slice " + name(x.X) + "[" + strings.Join(parts, ",") + "]"})
				}
			}
		}
	}
	return out
}

// isIdentifierFactory: function of base with one string parameter that builds a T of the
// identifier kind (the kind constant the lexer stores for identifiers) from it.
func (c *ixCtx) isIdentifierFactory(fn *ssa.Function) bool {
	if fn == nil || pkgShort(fn) != "base" || fn.Signature.Params().Len() != 1 || fn.Signature.Results().Len() != 1 || !isTPtr(fn.Signature.Results().At(0).Type()) || len(fn.Blocks) != 1 {
		return false
	}
	if b, ok := fn.Signature.Params().At(0).Type().Underlying().(*types.Basic); !ok || b.Kind() != types.String {
		return false
	}
	for _, ins := range fn.Blocks[0].Instrs {
		call, ok := ins.(*ssa.Call)
		if !ok || len(call.Call.Args) != 3 {
			continue
		}
		k, ok := call.Call.Args[1].(*ssa.Const)
		if !ok {
			continue
		}
		if cv := constVal(k); cv.k == kInt && cv.i == 258 { // base.UNKNOWN: the identifier kind
			if mi, ok := call.Call.Args[2].(*ssa.MakeInterface); ok && mi.X == ssa.Value(fn.Params[0]) {
				return true
			}
		}
	}
	return false
}

func isRangeIndexOf(idx ssa.Value, base ssa.Value) bool {
	// rangeindex loops: idx = phi+1 in the block "rangeindex.loop", compared there with the
	// length of the ranged collection; accept only when that collection is base itself (for
	// arrays the bound is the constant array length).
	ins, ok := idx.(ssa.Instruction)
	if !ok || ins.Block() == nil || !strings.HasPrefix(ins.Block().Comment, "rangeindex") {
		return false
	}
	var n int64 = -1
	if pt, ok := base.Type().Underlying().(*types.Pointer); ok {
		if at, ok := pt.Elem().Underlying().(*types.Array); ok {
			n = at.Len()
		}
	}
	for _, bi := range ins.Block().Instrs {
		bo, ok := bi.(*ssa.BinOp)
		if !ok || bo.Op != token.LSS || bo.X != idx {
			continue
		}
		if k, ok := bo.Y.(*ssa.Const); ok {
			if cv := constVal(k); cv.k == kInt && cv.i == n {
				return true
			}
		}
		if call, ok := bo.Y.(*ssa.Call); ok {
			if b, ok := call.Call.Value.(*ssa.Builtin); ok && b.Name() == "len" && len(call.Call.Args) == 1 {
				a := call.Call.Args[0]
				if a == base {
					return true
				}
				// len(*arr) of the same array pointer
				if u, ok := a.(*ssa.UnOp); ok && u.X == base {
					return true
				}
			}
		}
	}
	return false
}

// ixReviewed: sites protected by an invariant that was read and confirmed (one line each).
var ixReviewed = map[string]string{
	"IX|base.(*T).IsClassIdentifier|index t.ToString()[0]":                                     "reached only from Parser.Read on MakeIdentifier(id.GetName()) where the name is the lexer's identifier text; every lexer path that stores UNKNOWN writes at least one rune into it",
	"IX|cmd.GetTargetFile|index os.Args[1]":                                                    "ValidateArgs exits when len(os.Args) == 1 unless one of the stand-alone flags is present, and a present flag is itself an element os.Args[i ≥ 1]",
	"IX|cmd.PrintSuggestionsForLsp|index targetT.ToString()[0]":                                "guarded by IsIdentifierType(): identifier-kind values carry lexer identifier text or non-empty slices of it (splat `*x` needs len > 1, key `a:` needs len > 1); the zero-value target has kind NIL",
	"IX|eval.(*Bind).handleMultipleToScalarAsigntment|index leftTs[0]":                         "leftTs is the slice built by Comma.Evaluation, whose first statement appends the left operand: never empty",
	"IX|eval.(*Bind).handleMultipleToScalarAsigntment|index leftTs[0].GetBeforeEvaluateCode()[0]":   "evaluated only when IsReadOnly(): read-only values are instance values reached through a lookup that labels them (SetBeforeEvaluateCode(\"@name\" / \"Class.name\")) — read, not decided by the engine",
	"IX|eval.(*Bind).handleMultipleToScalarAsigntment|index leftTs[idx].GetBeforeEvaluateCode()[0]": "evaluated only when IsReadOnly(): read-only values are instance values reached through a lookup that labels them — read, not decided by the engine",
	"IX|eval.(*Case).Evaluation|slice resultTs[1:]":                                            "resultTs starts with one element and every re-slice [1:] is immediately followed by an append, so its length never drops below 1 at this statement",
	"IX|eval.(*Evaluator).handleIdentifier|index t.ToString()[0]":                                        "id is the text of an identifier-kind token or a non-empty derivation of one (splat/key stripping require len > 1); empty strings only occur in STRING-kind tokens, which Eval handles before this function",
	"IX|eval.(*Hash).Evaluation|slice nextT.ToString()[:len(nextT.ToString()) - 1]":            "nextT is a token just delivered by Parser.Read with kind UNKNOWN: lexer identifier text, non-empty",
	"IX|eval.(*Evaluator).handleConstEvaluation|nonempty base.MakeIdentifier(t.ToString())": "t has the CONST kind: such values are built by Parser.Read from lexer identifier text that passed IsConstIdentifier (len ≥ 2)",
	"IX|eval.nameSpaceEvaluation|nonempty base.MakeIdentifier(class)": "the last component of `A::` is empty, but the shipped configuration declares the class \"\" (object.json), so IsClassIdentifier answers from the registry before indexing the text — configuration-gated, outside C01's quantifier (source files under the shipped configuration)",
	"IX|eval/method_evaluator.(*objectAttrReaderStrategy).evaluate|nonempty base.MakeIdentifier(identifier)": "the argument passed IsSymbolType(): SYMBOL-kind values are built from identifier text that passed IsSymbolIdentifier (len > 1 and a leading colon), so trimming the colon leaves at least one character",
	"IX|parser.(*Parser).Read|nonempty base.MakeIdentifier(id.GetName())": "the name is the lexer's identifier text: every lexer path that stores the identifier kind writes at least the first rune into it",
}

func engineIX(w *World, tier string) *EngineResult {
	ixSiteKeysMemo = nil
	r := newResult("IX", "every index or slice expression with a constant position (x[c], x[len(x)-k], x[c:], x[:len(x)-k]) on a slice or string, and every variable index into a fixed-size array, must be dominated by branch edges that imply the bound for the same storage (len comparisons, != \"\", switch on len, predicate summaries such as IsKeySuffix(s) ⇒ len(s) > 1 derived from the predicate's body, strings.Split ⇒ ≥1, constant prefixes), or the bound follows structurally (constant strings, appends), or the function's unique caller establishes it; anything else must be a reviewed exception")
	c := &ixCtx{w: w, pure: map[*ssa.Function]int8{}, predSumm: map[*ssa.Function]map[string]int{}, inProg: map[*ssa.Function]bool{}}
	cg := w.CallGraph()
	nSites, nGuarded := 0, 0
	for _, fn := range w.Funcs {
		ps := pkgShort(fn)
		if ps == "cmd/rbs2json" || ps == "cmd/c2json" {
			continue
		}
		if strings.HasPrefix(fn.Name(), "init") && fn.Synthetic != "" {
			continue
		}
		sites := c.sitesOf(fn)
		for _, s := range sites {
			nSites++
			pos := w.pos(instrPos(s.ins))
			facts := c.factsBefore(fn, s.ins)
			have := c.minLen(s.base, facts, nil, map[ssa.Value]bool{}, true, 0)
			if s.array {
				// variable index into [N]T: need a dominating idx < N guard
				if arrayIndexGuarded(c, s) {
					nGuarded++
					r.holds("IX", fnKey(fn), s.desc, "index compared with the array length on the dominating path", pos)
				} else {
					key := "IX|" + fnKey(fn) + "|" + s.desc
					if why, ok := ixReviewed[key]; ok {
						r.Reviewed[key] = why
						r.add(Obligation{Rule: "IX", Func: fnKey(fn), Construct: s.desc, Verdict: Holds, Detail: "reviewed exception", Pos: pos, Reviewed: why})
					} else {
						r.violated("IX", fnKey(fn), s.desc, fmt.Sprintf("variable index into a fixed array of %d elements without a dominating bound check: element count above %d panics", s.need, s.need), pos)
					}
				}
				continue
			}
			if have < s.need {
				// the same requirement expressed on the text the value is cut from
				if k, n := c.normaliseReq(s.base, s.need, nil, 0); facts[k] >= n {
					have = s.need
				}
			}
			if have >= s.need {
				nGuarded++
				r.holds("IX", fnKey(fn), s.desc, fmt.Sprintf("len ≥ %d established on every path to the access", s.need), pos)
				continue
			}
			// unique caller establishes the bound for a parameter
			if ok, why := c.callerGuards(cg.Nodes[fn], fn, s); ok {
				nGuarded++
				r.holds("IX", fnKey(fn), s.desc, why, pos)
				continue
			}
			key := "IX|" + fnKey(fn) + "|" + s.desc
			if why, ok := ixReviewed[key]; ok {
				r.Reviewed[key] = why
				r.add(Obligation{Rule: "IX", Func: fnKey(fn), Construct: s.desc, Verdict: Holds, Detail: "reviewed exception", Pos: pos, Reviewed: why})
				continue
			}
			// a reviewed entry that lost its site (locals or the function renamed, statement
			// extracted) takes precedence over pushing the obligation to the callers
			{
				full := map[string]string{}
				for k, v := range ixReviewed {
					full[k] = v
				}
				o := Obligation{Rule: "IX", Func: fnKey(fn), Construct: s.desc}
				if k, how := pairOrphan(w, o, full, func(k string) bool { return r.Reviewed[k] != "" || ixSiteKeys(c, w)[k] }, nil); k != "" {
					r.Reviewed[k] = full[k]
					r.add(Obligation{Rule: "IX", Func: fnKey(fn), Construct: s.desc, Verdict: Holds, Detail: fmt.Sprintf("reviewed exception %q (%s)", k, how), Pos: pos, Reviewed: full[k]})
					continue
				}
			}
			// the indexed text is a parameter (a helper with a precondition): the obligation
			// belongs to the call sites; those that establish it are fine, the others are
			// reported — or reviewed — in the caller, named after the argument they pass
			if blamed, ok := c.blameCallers(fn, s); ok {
				nGuarded++
				r.holds("IX", fnKey(fn), s.desc, fmt.Sprintf("precondition on a parameter: %d call site(s) carry the obligation", len(blamed)), pos)
				for _, bl := range blamed {
					bkey := "IX|" + fnKey(bl.caller) + "|" + bl.construct
					if why, ok := ixReviewed[bkey]; ok {
						r.Reviewed[bkey] = why
						r.add(Obligation{Rule: "IX", Func: fnKey(bl.caller), Construct: bl.construct, Verdict: Holds, Detail: "reviewed exception", Pos: bl.pos, Reviewed: why})
						continue
					}
					r.violated("IX", fnKey(bl.caller), bl.construct, fmt.Sprintf("passes a text to %s, which needs len ≥ %d (%s), but only len ≥ %d is established at the call", fnKey(fn), s.need, s.desc, bl.have), bl.pos)
				}
				continue
			}
			r.violated("IX", fnKey(fn), s.desc, fmt.Sprintf("needs len ≥ %d but only len ≥ %d is established on the paths reaching it", s.need, have), pos)
		}
	}
	r.Stats["index_sites"] = nSites
	r.Stats["index_sites_guarded"] = nGuarded
	r.floor("index_sites", 90)
	for k := range ixReviewed {
		if _, used := r.Reviewed[k]; !used {
			r.Notes = append(r.Notes, "reviewed entry without a matching site (stale): "+k)
		}
	}
	for k, why := range ixAssumedUsed {
		r.Reviewed[k] = why
	}
	if ixAudit {
		var ls []string
		for k := range ixAuditLog {
			ls = append(ls, k)
		}
		sort.Strings(ls)
		for _, l := range ls {
			fmt.Fprintln(os.Stderr, "AUDIT", l)
		}
	}
	r.finish()
	return r
}

// factsBefore: the branch facts that dominate instruction at, plus the bounds proved by the
// accesses that already succeeded on every path to it (an index x[0] that did not panic
// shows len(x) ≥ 1 for everything after it).
func (c *ixCtx) factsBefore(fn *ssa.Function, at ssa.Instruction) map[string]int {
	facts := c.factsAt(at.Block(), nil)
	if c.sitesMemo == nil {
		c.sitesMemo = map[*ssa.Function][]ixSite{}
	}
	sites, ok := c.sitesMemo[fn]
	if !ok {
		sites = c.sitesOf(fn)
		c.sitesMemo[fn] = sites
	}
	for _, o := range sites {
		if o.ins == at || o.array {
			continue
		}
		dom := false
		if o.ins.Block() == at.Block() {
			for _, bi := range at.Block().Instrs {
				if bi == o.ins {
					dom = true
					break
				}
				if bi == at {
					break
				}
			}
		} else if o.ins.Block().Dominates(at.Block()) {
			dom = true
		}
		if dom {
			k := c.exprKey(o.base, nil, 0)
			if o.need > facts[k] {
				facts[k] = o.need
			}
		}
	}
	return facts
}

func arrayIndexGuarded(c *ixCtx, s ixSite) bool {
	ia := s.ins.(*ssa.IndexAddr)
	for cur := s.ins.Block(); cur != nil; cur = cur.Idom() {
		d := cur.Idom()
		if d == nil {
			break
		}
		iff, ok := d.Instrs[len(d.Instrs)-1].(*ssa.If)
		if !ok || len(cur.Preds) != 1 {
			continue
		}
		bo, ok := iff.Cond.(*ssa.BinOp)
		if !ok {
			continue
		}
		truth := d.Succs[0] == cur
		k, isC := bo.Y.(*ssa.Const)
		if bo.X == ia.Index && isC {
			if cv := constVal(k); cv.k == kInt {
				if truth && (bo.Op == token.LSS && int(cv.i) <= s.need || bo.Op == token.LEQ && int(cv.i) < s.need) {
					return true
				}
				if !truth && (bo.Op == token.GEQ && int(cv.i) <= s.need || bo.Op == token.GTR && int(cv.i) < s.need) {
					return true
				}
			}
		}
	}
	return false
}

// callerGuards: the indexed storage is rooted in parameters of fn (a parameter, or a pure
// accessor chain over parameters); every caller must establish the needed length for the
// corresponding expression at the call site — directly, or (recursively, depth ≤ 3)
// because the expression is again rooted in the caller's parameters and all of *its*
// callers establish it.
// normaliseReq rewrites "len(base) ≥ need" into a requirement on the text it is cut from:
// x[k:] ≥ n ⇒ x ≥ n+k; f(args) with summary len(f) ≥ len(t)+d ⇒ t ≥ n-d.
func (c *ixCtx) normaliseReq(base ssa.Value, need int, params map[ssa.Value]string, depth int) (string, int) {
	if depth < 4 {
		switch x := base.(type) {
		case *ssa.Slice:
			if x.High == nil && x.Low != nil {
				if k, ok := x.Low.(*ssa.Const); ok {
					if cv := constVal(k); cv.k == kInt {
						return c.normaliseReq(x.X, need+int(cv.i), params, depth+1)
					}
				}
			}
			// x[:len(x)-k] ≥ n  ⇒  x ≥ n+k   (the high bound is the length of the same text
			// minus a constant)
			if x.Low == nil && x.High != nil {
				if bo, ok := x.High.(*ssa.BinOp); ok && bo.Op == token.SUB {
					if k, ok := bo.Y.(*ssa.Const); ok {
						if cv := constVal(k); cv.k == kInt && cv.i >= 0 {
							if lc, ok := bo.X.(*ssa.Call); ok {
								if bi, ok := lc.Call.Value.(*ssa.Builtin); ok && bi.Name() == "len" && len(lc.Call.Args) == 1 &&
									c.exprKey(lc.Call.Args[0], params, 0) == c.exprKey(x.X, params, 0) {
									return c.normaliseReq(x.X, need+int(cv.i), params, depth+1)
								}
							}
						}
					}
				}
			}
		case *ssa.Call:
			if cal := x.Call.StaticCallee(); cal != nil && cal.Pkg != nil && inModule(cal.Pkg.Pkg.Path()) {
				if rl := c.retLen(cal, 0); rl.ok {
					okSub := true
					t := placeholderRe.ReplaceAllStringFunc(rl.tmpl, func(m string) string {
						var i int
						fmt.Sscanf(m, "§%d§", &i)
						if i >= len(x.Call.Args) {
							okSub = false
							return m
						}
						return c.exprKey(x.Call.Args[i], params, 1)
					})
					if okSub {
						return t, need - rl.delta
					}
				}
			}
		}
	}
	return c.exprKey(base, params, 0), need
}

func (c *ixCtx) callerGuards(node interface{}, fn *ssa.Function, s ixSite) (bool, string) {
	params := map[ssa.Value]string{}
	for i, p := range fn.Params {
		params[p] = fmt.Sprintf("§%d§", i)
	}
	tmpl, need := c.normaliseReq(s.base, s.need, params, 0)
	s.need = need
	if !strings.Contains(tmpl, "§") || strings.Contains(tmpl, "v:") || strings.Contains(tmpl, "a:") {
		return false, ""
	}
	var chain []string
	ok := c.requireAtCallers(fn, tmpl, s.need, 0, map[*ssa.Function]bool{}, &chain)
	if !ok {
		return false, ""
	}
	sort.Strings(chain)
	return true, fmt.Sprintf("established by every caller: %s", strings.Join(dedupe(chain), "; "))
}

// ixSiteKeys: the keys of all sites of the tree (an entry whose own site still exists is
// never handed to another site).
var ixSiteKeysMemo map[string]bool

func ixSiteKeys(c *ixCtx, w *World) map[string]bool {
	if ixSiteKeysMemo != nil {
		return ixSiteKeysMemo
	}
	ixSiteKeysMemo = map[string]bool{}
	for _, fn := range w.Funcs {
		for _, s := range c.sitesOf(fn) {
			ixSiteKeysMemo["IX|"+fnKey(fn)+"|"+s.desc] = true
		}
	}
	return ixSiteKeysMemo
}

type ixBlame struct {
	caller    *ssa.Function
	construct string
	pos       string
	have      int
}

// blameCallers: the base of site s is a parameter of fn and every caller is a static call.
// Returns the call sites that do not establish the bound, each with a construct that names
// the access the way it would read had the helper been inlined there.
func (c *ixCtx) blameCallers(fn *ssa.Function, s ixSite) ([]ixBlame, bool) {
	pi := -1
	for i, p := range fn.Params {
		if s.base == ssa.Value(p) {
			pi = i
		}
	}
	if pi < 0 {
		return nil, false
	}
	n := c.w.CallGraph().Nodes[fn]
	if n == nil || len(n.In) == 0 {
		return nil, false
	}
	kind := strings.SplitN(s.desc, " ", 2)[0]
	rest := ""
	if parts := strings.SplitN(s.desc, " ", 2); len(parts) == 2 {
		rest = parts[1]
	}
	pname := fn.Params[pi].Name()
	var out []ixBlame
	for _, in := range n.In {
		site, ok := in.Site.(*ssa.Call)
		if !ok || site.Call.StaticCallee() != fn || pi >= len(site.Call.Args) {
			return nil, false
		}
		caller := in.Caller.Func
		facts := c.factsBefore(caller, site)
		arg := site.Call.Args[pi]
		have := c.minLen(arg, facts, nil, map[ssa.Value]bool{}, true, 0)
		if k := c.exprKey(arg, nil, 1); facts[k] > have {
			have = facts[k]
		}
		if have < s.need {
			if k, nn := c.normaliseReq(arg, s.need, nil, 0); facts[k] >= nn {
				have = s.need
			}
		}
		if have >= s.need {
			continue
		}
		// name the access after the argument expression
		argText := "?"
		ai := pi
		if fn.Signature.Recv() != nil {
			ai = pi - 1 // the receiver is not among the syntactic arguments
		}
		if as := c.w.callArgsAt(site.Call.Pos()); ai >= 0 && ai < len(as) {
			argText = as[ai]
		}
		text := identWordRe(pname).ReplaceAllString(rest, argText)
		top := caller
		for top.Parent() != nil {
			top = top.Parent()
		}
		out = append(out, ixBlame{caller: top, construct: kind + " " + text, pos: c.w.pos(instrPos(site)), have: have})
	}
	return out, true
}

func identWordRe(name string) *regexp.Regexp {
	return regexp.MustCompile(`\b` + regexp.QuoteMeta(name) + `\b`)
}

func (c *ixCtx) requireAtCallers(fn *ssa.Function, tmpl string, need int, depth int, seen map[*ssa.Function]bool, chain *[]string) bool {
	if depth > 3 || seen[fn] {
		return false
	}
	seen[fn] = true
	defer delete(seen, fn)
	cg := c.w.CallGraph()
	n := cg.Nodes[fn]
	if n == nil || len(n.In) == 0 {
		return false
	}
	for _, in := range n.In {
		site, ok := in.Site.(*ssa.Call)
		if !ok {
			return false
		}
		caller := in.Caller.Func
		args := site.Call.Args
		// concrete key in the caller
		okSub := true
		key := placeholderRe.ReplaceAllStringFunc(tmpl, func(m string) string {
			var i int
			fmt.Sscanf(m, "§%d§", &i)
			if i >= len(args) {
				okSub = false
				return m
			}
			return c.exprKey(args[i], nil, 1)
		})
		if !okSub {
			return false
		}
		facts := c.factsBefore(caller, site)
		if facts[key] >= need {
			*chain = append(*chain, fmt.Sprintf("%s guards len ≥ %d", fnKey(caller), need))
			continue
		}
		// structural bound for a plain argument
		plain := -1
		for i := range args {
			if tmpl == fmt.Sprintf("§%d§", i) {
				plain = i
			}
		}
		if plain >= 0 && c.minLen(args[plain], facts, nil, map[ssa.Value]bool{}, true, 0) >= need {
			*chain = append(*chain, fmt.Sprintf("%s passes a value of len ≥ %d", fnKey(caller), need))
			continue
		}
		// lift to the caller's parameters
		cparams := map[ssa.Value]string{}
		for i, p := range caller.Params {
			cparams[p] = fmt.Sprintf("§%d§", i)
		}
		lifted := placeholderRe.ReplaceAllStringFunc(tmpl, func(m string) string {
			var i int
			fmt.Sscanf(m, "§%d§", &i)
			if i >= len(args) {
				return "v:?"
			}
			return c.exprKey(args[i], cparams, 1)
		})
		if !strings.Contains(lifted, "§") || strings.Contains(lifted, "v:") || strings.Contains(lifted, "a:") || strings.Contains(lifted, "p:") {
			return false
		}
		if !c.requireAtCallers(caller, lifted, need, depth+1, seen, chain) {
			return false
		}
	}
	return true
}
