package main

func thoroughExtras(w *World, prop string, spec PropertySpec) ([]Obligation, []string) { return nil, nil }
func cmdSelftest(args []string) int { return 0 }
