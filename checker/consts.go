package main

import "go/constant"

// Kind-checked constant accessors: go/constant panics when a value of another kind is
// handed to Int64Val / BoolVal, and the analysed tree may introduce constants of any kind
// anywhere (a new string constant in a package whose constants used to be integers).

func cInt64(v constant.Value) (int64, bool) {
	if v == nil || v.Kind() != constant.Int {
		return 0, false
	}
	return constant.Int64Val(v)
}

func cBool(v constant.Value) bool {
	return v != nil && v.Kind() == constant.Bool && constant.BoolVal(v)
}
