package main

import (
	"fmt"
	"go/types"

	"golang.org/x/tools/go/ssa"
)

// LA — a pointer that is retained once per loop iteration points to a variable of that
// iteration.
//
// Site: inside a natural loop, the address of a heap variable (or of a field / element of
// it) is retained — stored into memory, captured, or passed to a module function that keeps
// its parameter (stores it, returns it inside a value, hands it to another keeper through
// static calls; dynamic dispatch is not followed: retention must be definite to be reported). If the
// variable is allocated outside the loop and written inside it, every iteration retains the
// same cell and all retained pointers end up showing the last iteration's value.
func init() { engines["LA"] = engineLA }

func engineLA(w *World, tier string) *EngineResult {
	r := newResult("LA", "for every place where a loop body retains the address of a heap variable (store of the pointer, closure capture, argument of a module function that keeps its parameter): the variable is allocated inside the loop (one cell per iteration), or it is never written inside the loop")
	kp := newKeeper(w)
	keepsParam := func(f *ssa.Function, i int, depth int) bool { return kp.keeps(f, i, depth) }
	keepWhy := kp.why
	// root alloc of an address expression
	var rootAlloc func(v ssa.Value) *ssa.Alloc
	rootAlloc = func(v ssa.Value) *ssa.Alloc {
		switch x := v.(type) {
		case *ssa.Alloc:
			return x
		case *ssa.FieldAddr:
			return rootAlloc(x.X)
		case *ssa.IndexAddr:
			if _, ok := x.X.Type().Underlying().(*types.Pointer); ok { // pointer to array
				return rootAlloc(x.X)
			}
		}
		return nil
	}
	n := 0
	for _, fn := range w.Funcs {
		loops := findLoops(fn)
		if len(loops) == 0 {
			continue
		}
		ord := map[string]int{}
		for _, b := range fn.Blocks {
			for _, ins := range b.Instrs {
				// retention sites in this block
				var kept []ssa.Value
				how := "stored"
				switch x := ins.(type) {
				case *ssa.Store:
					if _, ok := x.Val.Type().Underlying().(*types.Pointer); ok {
						kept = append(kept, x.Val)
					}
				case *ssa.Call:
					if cal := x.Call.StaticCallee(); cal != nil && cal.Pkg != nil && inModule(cal.Pkg.Pkg.Path()) && len(cal.Blocks) > 0 {
						for ai, a := range x.Call.Args {
							if _, ok := a.Type().Underlying().(*types.Pointer); ok && keepsParam(cal, ai, 0) {
								kept = append(kept, a)
								how = fnKey(cal) + " keeps it: " + keepWhy[cal][ai]
							}
						}
					}
				case *ssa.MakeClosure:
					for _, bnd := range x.Bindings {
						kept = append(kept, bnd)
					}
				}
				for _, kv := range kept {
					al := rootAlloc(kv)
					if al == nil || !al.Heap {
						continue
					}
					// innermost..outermost loops containing the retention site
					for _, l := range loops {
						if !l.body[b] {
							continue
						}
						name := al.Comment
						if name == "" {
							name = "variable"
						}
						construct := fmt.Sprintf("address of %s retained in loop", name)
						ord[construct]++
						if ord[construct] > 1 {
							construct = fmt.Sprintf("%s#%d", construct, ord[construct])
						}
						n++
						pos := w.pos(instrPos(ins))
						if l.body[al.Block()] {
							r.holds("LA", fnKey(fn), construct, "the variable is allocated inside the loop: one cell per iteration", pos)
							continue
						}
						written := false
						var scan func(v ssa.Value, d int)
						scan = func(v ssa.Value, d int) {
							if v.Referrers() == nil || d > 3 {
								return
							}
							for _, ref := range *v.Referrers() {
								switch y := ref.(type) {
								case *ssa.Store:
									if y.Addr == v && l.body[y.Block()] {
										written = true
									}
								case *ssa.FieldAddr:
									scan(y, d+1)
								case *ssa.IndexAddr:
									scan(y, d+1)
								}
							}
						}
						scan(al, 0)
						if !written {
							r.holds("LA", fnKey(fn), construct, "the variable is allocated outside the loop but never written inside it", pos)
							continue
						}
						r.violated("LA", fnKey(fn), construct, "the variable is allocated once, outside the loop, written in every iteration and its address is retained in every iteration: all retained pointers alias one cell and show the last iteration's value ("+how+")", pos)
					}
				}
			}
		}
	}
	r.Stats["retained_addresses_in_loops"] = n
	r.floor("retained_addresses_in_loops", 3)
	laMaps(w, r)
	laCopy(w, r)
	r.finish()
	return r
}

// keeper decides whether a module function definitely retains one of its parameters: the
// parameter (through phis and conversions) is stored, returned, captured, put into a map or
// appended, or handed to a static module callee that does so (one more level).
type keeper struct {
	w       *World
	memo    map[*ssa.Function]map[int]int8
	why     map[*ssa.Function]map[int]string
	lastWhy string
}

func newKeeper(w *World) *keeper {
	return &keeper{w: w, memo: map[*ssa.Function]map[int]int8{}, why: map[*ssa.Function]map[int]string{}}
}

func (k *keeper) flows(v ssa.Value, depth int, seen map[ssa.Value]bool) bool {
	w := k.w
	if seen[v] || v.Referrers() == nil {
		return false
	}
	seen[v] = true
	for _, ref := range *v.Referrers() {
		switch x := ref.(type) {
		case *ssa.Store:
			if x.Val == v {
				k.lastWhy = "stored at " + w.pos(instrPos(x))
				return true
			}
		case *ssa.Return:
			k.lastWhy = "returned at " + w.pos(instrPos(x))
			return true
		case *ssa.MakeClosure:
			k.lastWhy = "captured at " + w.pos(instrPos(x))
			return true
		case *ssa.MapUpdate:
			if x.Value == v || x.Key == v {
				k.lastWhy = "put into a map at " + w.pos(instrPos(x))
				return true
			}
		case *ssa.Send:
			return true
		case *ssa.Phi, *ssa.ChangeType, *ssa.MakeInterface, *ssa.ChangeInterface, *ssa.Convert:
			if k.flows(x.(ssa.Value), depth, seen) {
				return true
			}
		case *ssa.Call:
			if cal := x.Call.StaticCallee(); cal != nil && cal.Pkg != nil && inModule(cal.Pkg.Pkg.Path()) && len(cal.Blocks) > 0 {
				for ai, a := range x.Call.Args {
					if a == v && depth < 1 && k.keeps(cal, ai, depth+1) {
						k.lastWhy = fnKey(cal) + " ← " + k.why[cal][ai]
						return true
					}
				}
			} else if bi, ok := x.Call.Value.(*ssa.Builtin); ok && bi.Name() == "append" {
				k.lastWhy = "appended at " + w.pos(instrPos(x))
				return true
			}
		}
	}
	return false
}

func (k *keeper) keeps(f *ssa.Function, i int, depth int) bool {
	if m := k.memo[f]; m != nil {
		if v, ok := m[i]; ok {
			return v == 1
		}
	} else {
		k.memo[f] = map[int]int8{}
	}
	k.memo[f][i] = 0
	res := false
	if i < len(f.Params) {
		res = k.flows(f.Params[i], depth, map[ssa.Value]bool{})
	}
	if res {
		k.memo[f][i] = 1
		if k.why[f] == nil {
			k.why[f] = map[int]string{}
		}
		k.why[f][i] = k.lastWhy
	}
	return res
}

// laMaps (rule LA-map): inside a loop, a map that is written must not be the same map the
// iteration's callees read as a look-up table, unless it was made inside the loop: a map
// assigned from a longer-lived one (`m := shared`) is that very map, so what one iteration
// writes is visible to the look-ups of all later ones.
func laMaps(w *World, r *EngineResult) {
	readsParam := map[*ssa.Function]map[int]bool{}
	var reads func(f *ssa.Function, i int, depth int) bool
	reads = func(f *ssa.Function, i int, depth int) bool {
		if m := readsParam[f]; m != nil {
			if v, ok := m[i]; ok {
				return v
			}
		} else {
			readsParam[f] = map[int]bool{}
		}
		readsParam[f][i] = false
		if i >= len(f.Params) || f.Params[i].Referrers() == nil {
			return false
		}
		res := false
		for _, ref := range *f.Params[i].Referrers() {
			switch x := ref.(type) {
			case *ssa.Lookup:
				if x.X == ssa.Value(f.Params[i]) {
					res = true
				}
			case *ssa.Range:
				res = true
			case *ssa.Call:
				if cal := x.Call.StaticCallee(); cal != nil && len(cal.Blocks) > 0 && depth < 3 {
					for ai, a := range x.Call.Args {
						if a == ssa.Value(f.Params[i]) && reads(cal, ai, depth+1) {
							res = true
						}
					}
				}
			}
		}
		readsParam[f][i] = res
		return res
	}
	n := 0
	for _, fn := range w.Funcs {
		ord := 0
		for _, l := range findLoops(fn) {
			// maps updated inside the loop
			updated := map[ssa.Value]*ssa.MapUpdate{}
			for b := range l.body {
				for _, ins := range b.Instrs {
					if mu, ok := ins.(*ssa.MapUpdate); ok {
						if _, isMap := mu.Map.Type().Underlying().(*types.Map); isMap {
							updated[mu.Map] = mu
						}
					}
				}
			}
			for m, mu := range updated {
				if _, isGlobal := m.(*ssa.Global); isGlobal {
					continue
				}
				if rootGlobal(m) != nil {
					continue // process-wide tables are what the loops fill
				}
				// handed to a callee that reads it, inside the same loop
				var reader *ssa.Call
				for b := range l.body {
					for _, ins := range b.Instrs {
						c, ok := ins.(*ssa.Call)
						if !ok {
							continue
						}
						cal := c.Call.StaticCallee()
						if cal == nil || len(cal.Blocks) == 0 || cal.Pkg == nil || !inModule(cal.Pkg.Pkg.Path()) {
							continue
						}
						for ai, a := range c.Call.Args {
							if a == m && reads(cal, ai, 0) {
								reader = c
							}
						}
					}
				}
				if reader == nil {
					continue
				}
				n++
				ord++
				construct := fmt.Sprintf("look-up table written in loop#%d", ord)
				pos := w.pos(instrPos(mu))
				def, ok := m.(ssa.Instruction)
				if ok && l.body[def.Block()] {
					if _, isPhi := m.(*ssa.Phi); !isPhi {
						r.holds("LA-map", fnKey(fn), construct, "the table is made inside the loop: one table per iteration", pos)
						continue
					}
				}
				// a table that nothing outside this loop looks at is the loop's own
				// accumulator (definitions first, aliases that look them up later): entries
				// of earlier iterations are meant to be seen. What the rule is about is a
				// table that also serves a wider scope.
				if mk, isMake := m.(*ssa.MakeMap); isMake && mk.Referrers() != nil {
					outside := false
					for _, ref := range *mk.Referrers() {
						if _, dbg := ref.(*ssa.DebugRef); dbg {
							continue
						}
						if !l.body[ref.Block()] {
							outside = true
						}
					}
					if !outside {
						r.holds("LA-map", fnKey(fn), construct, "the table is made right before the loop and used nowhere else: it is the loop's own accumulator", pos)
						continue
					}
				}
				r.violated("LA-map", fnKey(fn), construct, "the table handed to "+fnKey(reader.Call.StaticCallee())+" is written inside the loop but made outside it (a map assigned from another variable is the same map): what one iteration enters is seen by the look-ups of every later iteration", pos)
			}
		}
	}
	r.Stats["lookup_tables_written_in_loops"] = n
}
