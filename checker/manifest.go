package main

import (
	"fmt"
	"os"
	"path/filepath"
	"sort"
)

func init() {
	extraCommands["manifest"] = cmdManifest
}

var extraCommands = map[string]func([]string) int{}

func cmdManifest(args []string) int {
	type check struct {
		PropertyID   string         `json:"property_id"`
		QuickCmd     string         `json:"quick_cmd"`
		ThoroughCmd  string         `json:"thorough_cmd"`
		EvidenceFile string         `json:"evidence_file"`
		ReplayTpl    string         `json:"replay_cmd_template"`
		Engine       string         `json:"engine"`
		Level        map[string]any `json:"level_claimed"`
		LevelNote    string         `json:"level_note"`
		Technique    string         `json:"technique"`
	}
	var checks []check
	serves := map[string][]string{}
	for _, id := range propertyIDs() {
		m := propMetas[id]
		spec := properties[id]
		names := specNames(spec.Engines)
		for _, n := range names {
			serves[n] = append(serves[n], id)
		}
		checks = append(checks, check{
			PropertyID:   id,
			QuickCmd:     "bin/tiverif check -property " + id + " -tier quick",
			ThoroughCmd:  "bin/tiverif check -property " + id + " -tier thorough",
			EvidenceFile: "/verif/evidence/" + id + ".json",
			ReplayTpl:    "bin/tiverif replay {path}",
			Engine:       fmt.Sprint(names),
			Level:        map[string]any{"category": "other", "text": m.LevelText + " Clause decided: " + spec.Clause + " Not covered: " + spec.NotCovered, "design_ref": "DESIGN.md section " + m.DesignRef},
			LevelNote:    m.LevelNote,
			Technique:    "static analysis: " + m.Technique,
		})
	}
	var engs []map[string]any
	var en []string
	for n := range serves {
		en = append(en, n)
	}
	sort.Strings(en)
	for _, n := range en {
		ps := dedupe(serves[n])
		sort.Strings(ps)
		engs = append(engs, map[string]any{"name": n, "path": "checker/", "serves_properties": ps, "kind_free_text": "rule engine of the static analyser tiverif (go/packages + go/ssa + VTA call graph)"})
	}
	var na []map[string]string
	var naIDs []string
	for id := range notApplicable {
		if _, claimed := properties[id]; !claimed {
			naIDs = append(naIDs, id)
		}
	}
	// anything neither claimed nor listed is "not built"
	for i := 1; i <= 27; i++ {
		id := fmt.Sprintf("C%02d", i)
		if _, ok := properties[id]; ok {
			continue
		}
		if _, ok := notApplicable[id]; ok {
			continue
		}
		naIDs = append(naIDs, id)
	}
	sort.Strings(naIDs)
	for _, id := range naIDs {
		reason := notApplicable[id]
		if reason == "" {
			reason = "no sound structural clause has been built for this property in this revision of the analyser; not claimed"
		}
		na = append(na, map[string]string{"property_id": id, "reason": reason})
	}
	man := map[string]any{
		"version":   1,
		"setup_cmd": "./build.sh",
		"hooks": map[string]any{
			"guard":            "verif",
			"enable":           "no hooks: the analyser reads /repo's working tree; nothing in /repo is built with a tag",
			"baseline_off_cmd": "cd /repo/test && go test -vet=off -count=1 -timeout 25m ./...",
			"source_commits":   []string{},
			"add_only":         true,
		},
		"engines":        engs,
		"checks":         checks,
		"not_applicable": na,
		"notes":          "Every check is `bin/tiverif check -property <id>`: it loads /repo's current working tree with go/packages (type errors fail the check), builds SSA and the VTA call graph, runs the rule engines of the property, compares violated/undecided obligations with known_findings.jsonl, writes evidence/<id>.json and replay files under evidence/replay/. ti is never executed. See DESIGN.md.",
	}
	p := filepath.Join(verifDir(), "MANIFEST.json")
	if err := writeJSON(p, man); err != nil {
		fmt.Fprintln(os.Stderr, err)
		return 1
	}
	fmt.Println("wrote", p, "checks:", len(checks), "not_applicable:", len(na))
	return 0
}
