package main

// REG-json / REG-names — the converter tools and the configuration loader agree.

import (
	"encoding/json"
	"fmt"
	"go/ast"
	"go/constant"
	"go/types"
	"os"
	"path/filepath"
	"sort"
	"strings"

	"golang.org/x/tools/go/packages"
	"golang.org/x/tools/go/ssa"
	"golang.org/x/tools/go/types/typeutil"
)

func init() {
	engines["REGJ"] = engineREGJ
}

func engineREGJ(w *World, tier string) *EngineResult {
	r := newResult("REGJ", "(REG-json) for the struct each converter tool marshals, every emitted JSON key exists, at the same nesting and with a compatible Go type, in the struct the configuration loader unmarshals; (REG-names) every type-name constant a tool can emit (elements of its []string literals, after the loader's ? * [ ] | notation rules) is a case label of the loader's type-name switch or the name of a class the shipped configuration declares")
	bp := w.Pkg("builtin")
	if bp == nil {
		r.undecided("REG-json", "builtin", "anchors", "unresolved anchor: package builtin", "-")
		r.finish()
		return r
	}
	// loader root: the type of the variable passed to json.Unmarshal in package builtin (a struct)
	var loaderRoot *types.Struct
	var loaderName string
	for _, f := range bp.Syntax {
		ast.Inspect(f, func(n ast.Node) bool {
			call, ok := n.(*ast.CallExpr)
			if !ok || len(call.Args) != 2 {
				return true
			}
			if fn, ok := typeutil.Callee(bp.TypesInfo, call).(*types.Func); ok && fn.Pkg() != nil && fn.Pkg().Path() == "encoding/json" && fn.Name() == "Unmarshal" {
				t := bp.TypesInfo.TypeOf(call.Args[1])
				if pt, ok := t.(*types.Pointer); ok {
					if st, ok := pt.Elem().Underlying().(*types.Struct); ok && st.NumFields() > 3 {
						loaderRoot = st
						loaderName = types.TypeString(pt.Elem(), func(p *types.Package) string { return p.Name() })
					}
				}
			}
			return true
		})
	}
	if loaderRoot == nil {
		r.undecided("REG-json", "builtin", "loader root", "unresolved anchor: struct passed to json.Unmarshal", "-")
		r.finish()
		return r
	}
	// type-name labels of the loader's switch: case labels of the switch over a string
	// parameter in the function of builtin returning base.T with most cases
	labels := map[string]bool{}
	for _, f := range bp.Syntax {
		for _, d := range f.Decls {
			fd, ok := d.(*ast.FuncDecl)
			if !ok || fd.Body == nil {
				continue
			}
			ast.Inspect(fd.Body, func(n ast.Node) bool {
				sw, ok := n.(*ast.SwitchStmt)
				if !ok || sw.Tag == nil {
					return true
				}
				if b, ok := bp.TypesInfo.TypeOf(sw.Tag).Underlying().(*types.Basic); !ok || b.Kind() != types.String {
					return true
				}
				if len(sw.Body.List) < 20 {
					return true
				}
				for _, c := range sw.Body.List {
					for _, e := range c.(*ast.CaseClause).List {
						if tv := bp.TypesInfo.Types[e]; tv.Value != nil && tv.Value.Kind() == constant.String {
							labels[constant.StringVal(tv.Value)] = true
						}
					}
				}
				return true
			})
		}
	}
	if len(labels) == 0 {
		// the vocabulary as a table literal instead of a switch
		if tab, _ := typeNameTableLiteral(bp); tab != nil {
			for k := range tab {
				labels[k] = true
			}
		}
	}
	// classes of the shipped configuration (static files of the tree)
	classes := map[string]bool{}
	for _, dir := range []string{".ti-config", "test/.ti-config"} {
		files, _ := filepath.Glob(filepath.Join(w.Dir, dir, "*.json"))
		for _, fpath := range files {
			b, err := os.ReadFile(fpath)
			if err != nil {
				continue
			}
			var d struct {
				Class string `json:"class"`
			}
			if json.Unmarshal(b, &d) == nil && d.Class != "" {
				classes[d.Class] = true
			}
		}
	}
	r.Stats["loader_type_labels"] = len(labels)
	r.Stats["configured_classes_in_tree"] = len(classes)
	r.floor("loader_type_labels", 30)

	for _, short := range []string{"cmd/rbs2json", "cmd/c2json"} {
		p := w.Pkg(short)
		if p == nil {
			r.undecided("REG-json", short, "package", "unresolved anchor: tool package", "-")
			continue
		}
		// marshalled root
		var root types.Type
		for _, f := range p.Syntax {
			ast.Inspect(f, func(n ast.Node) bool {
				call, ok := n.(*ast.CallExpr)
				if !ok || len(call.Args) == 0 {
					return true
				}
				if fn, ok := typeutil.Callee(p.TypesInfo, call).(*types.Func); ok && fn.Pkg() != nil && fn.Pkg().Path() == "encoding/json" && strings.HasPrefix(fn.Name(), "Marshal") {
					root = p.TypesInfo.TypeOf(call.Args[0])
				}
				return true
			})
		}
		if root == nil {
			// written through an encoder behind an `any` parameter: the root is the struct of the
			// package whose tags carry both the frame and the class of a configuration file
			sc := p.Types.Scope()
			for _, nm := range sc.Names() {
				if tn, ok := sc.Lookup(nm).(*types.TypeName); ok {
					if st, ok := tn.Type().Underlying().(*types.Struct); ok {
						tags := map[string]bool{}
						for i := 0; i < st.NumFields(); i++ {
							tags[jsonTag(st, i)] = true
						}
						if tags["frame"] && tags["class"] && tags["instance_methods"] {
							root = tn.Type()
						}
					}
				}
			}
		}
		if root == nil {
			r.undecided("REG-json", short, "marshalled root", "unresolved anchor: value passed to json.Marshal* / struct with frame, class, instance_methods tags", "-")
			continue
		}
		if sl, ok := root.Underlying().(*types.Slice); ok {
			root = sl.Elem()
		}
		st, ok := root.Underlying().(*types.Struct)
		if !ok {
			r.undecided("REG-json", short, "marshalled root", "the marshalled value is not a struct (or slice of structs)", "-")
			continue
		}
		n := 0
		compareJSON(w, r, short, "", st, loaderRoot, loaderName, &n, 0)
		r.Stats["json_keys_"+strings.ReplaceAll(short, "/", "_")] = n
		r.floor("json_keys_"+strings.ReplaceAll(short, "/", "_"), 10)

		// REG-names
		nNames := 0
		w.eachFuncDecl(func(pk *packages.Package, d *ast.FuncDecl) {
			if pk != p {
				return
			}
			ast.Inspect(d.Body, func(nd ast.Node) bool {
				cl, ok := nd.(*ast.CompositeLit)
				if !ok {
					return true
				}
				sl, ok := pk.TypesInfo.TypeOf(cl).Underlying().(*types.Slice)
				if !ok {
					return true
				}
				if b, ok := sl.Elem().Underlying().(*types.Basic); !ok || b.Kind() != types.String {
					return true
				}
				for _, el := range cl.Elts {
					var consts []string
					collectStringConsts(pk.TypesInfo, el, &consts)
					for _, s := range consts {
						for _, name := range typeNameParts(s) {
							if name == "" {
								continue
							}
							nNames++
							construct := fmt.Sprintf("type name %q", name)
							if labels[name] {
								r.holds("REG-names", declKey(w, pk, d), construct, "a case label of the loader's type-name switch", w.pos(el.Pos()))
							} else if classes[name] {
								r.holds("REG-names", declKey(w, pk, d), construct, "a class declared by the shipped configuration", w.pos(el.Pos()))
							} else {
								r.violated("REG-names", declKey(w, pk, d), construct, "the tool can emit this type name, which is neither a type keyword of the loader nor a configured class: ti loads it as an object of an undeclared class", w.pos(el.Pos()))
							}
						}
					}
				}
				return true
			})
		})
		r.Stats["type_name_constants_"+strings.ReplaceAll(short, "/", "_")] = nNames
		r.floor("type_name_constants_"+strings.ReplaceAll(short, "/", "_"), 4)
	}
	regPrefix(w, r)
	r.finish()
	return r
}

func collectStringConsts(info *types.Info, e ast.Expr, out *[]string) {
	if tv := info.Types[e]; tv.Value != nil && tv.Value.Kind() == constant.String {
		*out = append(*out, constant.StringVal(tv.Value))
		return
	}
	if be, ok := e.(*ast.BinaryExpr); ok {
		// "?" + x : keep the constant parts as notation markers only
		var parts []string
		collectStringConsts(info, be.X, &parts)
		collectStringConsts(info, be.Y, &parts)
		for _, p := range parts {
			if strings.Trim(p, "?*[]|") != "" {
				*out = append(*out, p)
			}
		}
	}
}

// typeNameParts applies the loader's compact-notation rules to a constant.
func typeNameParts(s string) []string {
	s = strings.TrimLeft(s, "?*")
	s = strings.TrimPrefix(s, "[")
	s = strings.TrimSuffix(s, "]")
	var out []string
	for _, p := range strings.Split(s, "|") {
		out = append(out, strings.TrimSpace(p))
	}
	return out
}

func compareJSON(w *World, r *EngineResult, tool, path string, out, in *types.Struct, inName string, n *int, depth int) {
	if depth > 5 {
		return
	}
	inTags := map[string]*types.Var{}
	for i := 0; i < in.NumFields(); i++ {
		if t := jsonTag(in, i); t != "" && t != "-" {
			inTags[t] = in.Field(i)
		}
	}
	for i := 0; i < out.NumFields(); i++ {
		tag := jsonTag(out, i)
		if tag == "" || tag == "-" {
			continue
		}
		*n++
		key := path + tag
		construct := "json key " + key
		pos := w.pos(out.Field(i).Pos())
		f, ok := inTags[tag]
		if !ok {
			var have []string
			for k := range inTags {
				have = append(have, k)
			}
			sort.Strings(have)
			r.violated("REG-json", tool, construct, "the tool emits this key but "+inName+" has no field with that tag (it has "+strings.Join(have, ",")+"): the loader silently ignores what the tool wrote", pos)
			continue
		}
		ot, it := out.Field(i).Type(), f.Type()
		if ok, why := jsonCompatible(ot, it); !ok {
			r.violated("REG-json", tool, construct, "emitted as "+ot.String()+" but loaded as "+it.String()+": "+why, pos)
			continue
		}
		r.holds("REG-json", tool, construct, "read by "+inName+"."+f.Name(), pos)
		// recurse into structs / slices of structs
		os, is := elemStruct(ot), elemStruct(it)
		if os != nil && is != nil {
			compareJSON(w, r, tool, key+".", os, is, types.TypeString(elemNamed(it), func(p *types.Package) string { return p.Name() }), n, depth+1)
		}
	}
}

func elemNamed(t types.Type) types.Type {
	if sl, ok := t.Underlying().(*types.Slice); ok {
		return sl.Elem()
	}
	return t
}

func elemStruct(t types.Type) *types.Struct {
	t = elemNamed(t)
	st, _ := t.Underlying().(*types.Struct)
	return st
}

func jsonCompatible(out, in types.Type) (bool, string) {
	ou, iu := out.Underlying(), in.Underlying()
	switch o := ou.(type) {
	case *types.Basic:
		if i, ok := iu.(*types.Basic); ok && i.Info()&(types.IsString|types.IsBoolean|types.IsNumeric) == o.Info()&(types.IsString|types.IsBoolean|types.IsNumeric) {
			return true, ""
		}
		return false, "different JSON value kinds"
	case *types.Slice:
		i, ok := iu.(*types.Slice)
		if !ok {
			return false, "array versus non-array"
		}
		if _, os := o.Elem().Underlying().(*types.Struct); os {
			if _, is := i.Elem().Underlying().(*types.Struct); is {
				return true, ""
			}
			return false, "array of objects versus array of scalars"
		}
		return jsonCompatible(o.Elem(), i.Elem())
	case *types.Struct:
		if _, ok := iu.(*types.Struct); ok {
			return true, ""
		}
		return false, "object versus non-object"
	}
	return true, ""
}

var _ = ssa.Value(nil)
