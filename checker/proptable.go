package main

import (
	"fmt"
	"sort"
	"strings"

	"golang.org/x/tools/go/ssa"
)

// reachableFromPrinters: functions reachable (VTA call graph) from the three editor-query
// printers of package cmd (role: exported functions of cmd that take a parser.Parser by
// value — they run after analysis with the finished parser).
var printerReachCache map[string]bool

func printerReach(w *World) map[string]bool {
	if printerReachCache != nil {
		return printerReachCache
	}
	out := map[string]bool{}
	cg := w.CallGraph()
	var roots []*ssa.Function
	for _, fn := range w.Funcs {
		if pkgShort(fn) != "cmd" || fn.Parent() != nil || fn.Signature.Recv() != nil {
			continue
		}
		ps := fn.Signature.Params()
		if ps.Len() == 1 && isNamed(ps.At(0).Type(), modulePath+"/parser", "Parser") {
			if _, ptr := ps.At(0).Type().Underlying().(interface{ Elem() }); !ptr {
				roots = append(roots, fn)
			}
		}
	}
	var visit func(f *ssa.Function)
	visit = func(f *ssa.Function) {
		if out[fnKey(f)] {
			return
		}
		out[fnKey(f)] = true
		if n := cg.Nodes[f]; n != nil {
			for _, e := range n.Out {
				if c := e.Callee.Func; c.Pkg != nil && inModule(c.Pkg.Pkg.Path()) {
					visit(c)
				}
			}
		}
	}
	for _, r := range roots {
		visit(r)
	}
	printerReachCache = out
	return out
}

func fromPrinters(name string) EngineSpec {
	return EngineSpec{Name: name, Filter: func(w *World, o Obligation) bool { return printerReach(w)[o.Func] }}
}

// printerOnly: functions of package cmd reachable from the editor-query printers.
func printerOnly(name string) EngineSpec {
	return EngineSpec{Name: name, Filter: func(w *World, o Obligation) bool {
		return printerReach(w)[o.Func] && strings.HasPrefix(o.Func, "cmd.")
	}}
}

func notPrinterOnly(name string) EngineSpec {
	return EngineSpec{Name: name, Filter: func(w *World, o Obligation) bool {
		return !(printerReach(w)[o.Func] && strings.HasPrefix(o.Func, "cmd."))
	}}
}

// notQueryMode drops obligations that only matter when a row was requested (C04's space).
func notQueryMode(name string) EngineSpec {
	return EngineSpec{Name: name, Filter: func(w *World, o Obligation) bool { return !strings.Contains(o.Detail, queryModeMark) }}
}

// lookupsOrQueryMode keeps the lookup-miss obligations (and anything marked query-mode).
func lookupsOrQueryMode(name string) EngineSpec {
	return EngineSpec{Name: name, Filter: func(w *World, o Obligation) bool {
		return o.Rule == "NT-lookup" || strings.Contains(o.Detail, queryModeMark)
	}}
}

func and(a, b EngineSpec) EngineSpec {
	return EngineSpec{Name: a.Name, Filter: func(w *World, o Obligation) bool {
		return (a.Filter == nil || a.Filter(w, o)) && (b.Filter == nil || b.Filter(w, o))
	}}
}

func notPkgs(name string, pkgs ...string) EngineSpec {
	return EngineSpec{Name: name, Filter: func(w *World, o Obligation) bool {
		for _, p := range pkgs {
			if strings.HasPrefix(o.Func, p+".") {
				return false
			}
		}
		return true
	}}
}

// registeredUnder keeps the obligations of the methods of the evaluator types registered
// under the given keywords (resolved from the registries' init stores, so that renaming the
// type does not empty the filter).
func registeredUnder(name string, keywords ...string) EngineSpec {
	return EngineSpec{Name: name, Filter: func(w *World, o Obligation) bool {
		for _, tn := range registeredTypeNames(w, keywords) {
			if strings.Contains(o.Func, "(*"+tn+")") || strings.Contains(o.Func, "("+tn+")") || strings.HasSuffix(o.Func, "."+tn) {
				return true
			}
		}
		return false
	}}
}

var regTypeMemo = map[string][]string{}

func registeredTypeNames(w *World, keywords []string) []string {
	key := fmt.Sprintf("%p|", w) + strings.Join(keywords, "\x00")
	if v, ok := regTypeMemo[key]; ok {
		return v
	}
	want := map[string]bool{}
	for _, k := range keywords {
		want[k] = true
	}
	regs := findRegistries(w)
	seen := map[string]bool{}
	var out []string
	for _, fn := range w.Funcs {
		for _, b := range fn.Blocks {
			for _, ins := range b.Instrs {
				mu, ok := ins.(*ssa.MapUpdate)
				if !ok {
					continue
				}
				g := rootGlobal(mu.Map)
				isReg := false
				for _, rg := range regs {
					if rg.global == g {
						isReg = true
					}
				}
				k, isC := mu.Key.(*ssa.Const)
				if !isReg || !isC || constVal(k).k != kStr || !want[constVal(k).s] {
					continue
				}
				for _, t := range concreteTypesOf(mu.Value, 0) {
					if n := namedOf(t); n != nil && !seen[n.Obj().Name()] {
						seen[n.Obj().Name()] = true
						out = append(out, n.Obj().Name())
					}
				}
			}
		}
	}
	regTypeMemo[key] = out
	return out
}

func funcs(name string, substr ...string) EngineSpec {
	return EngineSpec{Name: name, Filter: func(w *World, o Obligation) bool {
		for _, s := range substr {
			if strings.Contains(o.Func, s) {
				return true
			}
		}
		return false
	}}
}

type propMeta struct {
	Title     string
	Technique string
	LevelText string
	LevelNote string
	DesignRef string
}

var propMetas = map[string]propMeta{}

func claim(id string, spec PropertySpec, meta propMeta) {
	if spec.Assumptions == nil {
		spec.Assumptions = commonAssumptions
	}
	properties[id] = spec
	propMetas[id] = meta
}

// notApplicable: properties not claimed, with the reason.
var notApplicable = map[string]string{
	"C08": "acceptance of a call is a relation between runtime sets of classes (IsMatchType / IsMatchUnionType, default and rest binding); no clause of it is visible in the shape of the code, and a rule recognising today's defect (union/union acceptance tests set equality instead of inclusion) would be a match on one function's text",
	"C23": "set equality between two runtime tables (signature table filtered by isSuggest versus the method resolution of GetMethodT); the structural parts (no crash, deterministic order) are claimed under C04 and C05",
}

func propertyIDs() []string {
	var ids []string
	for id := range properties {
		ids = append(ids, id)
	}
	sort.Strings(ids)
	return ids
}

func init() {
	claim("C01", PropertySpec{
		Engines: []EngineSpec{notQueryMode("NT"), rules("REG", "REG-dyn", "REG-type", "REG-exit"), notPrinterOnly("IX"), notPrinterOnly("IV"), all("TA"), rules("ED", "ED-1", "ED-3")},
		Clause: "Structural necessary conditions of 'never crashes', decided on every path of the current source: (NT) no nil dereference on the end-of-input path of any of the token-read call sites, and none on the miss path of any table-lookup call site; (REG-dyn) unchecked evaluator-registry lookups use registered keys and every evaluator type is registered; (REG-type) every constructible kind of T has a case in the panicking rendering switch; (REG-exit) explicit panics / non-zero exits reachable from main are exactly the reviewed set; (IX) every constant-position index/slice and every variable index into a fixed array is guarded on all paths, structurally bounded, guarded by all callers, or individually reviewed; (IX-var) every variable-position index/slice on a slice or string is in bounds by a difference-constraint argument over the dominating comparisons, summaries of boolean helpers, counters that only grow, lengths of made / step-wise appended slices, and the same facts at every static caller — or individually reviewed; (TA) every unchecked type assertion is dominated by a check of the same type on the same storage, discharged by the lexer kind/value pairing analysis or by a container invariant, or individually reviewed; (ED-1, ED-3) diagnostics are recorded by a single writer in one format and their text cannot contain a line break. The behaviour itself (exit status, output format) is not decided.",
		NotCovered: "nil values stored in slices/fields and dereferenced later, stack exhaustion, out-of-memory, rendering text, correlated-predicate paths (reviewed exceptions listed)",
	}, propMeta{Technique: "abstract interpretation over go/ssa (nilness/constant lattice, interprocedural summaries, EOF and lookup-miss environments; nil-returning functions derived) + difference-constraint bounds analysis for variable positions (dominating comparisons, boolean-helper summaries, inductive counter bounds, equal-length results, caller requirements) + constant-position bounds rules + type-assertion dominance and lexer kind/value pairing + registry exhaustiveness over resolved constants + call-graph reachability of exits",
		LevelText: "every rule instance in the source is enumerated and decided (exhaustive over call sites, not over inputs); a violated or undecided instance fails the check. This is a necessary-condition check, weaker than a proof of the property and stronger than any input sample: the nil path of each read is taken whether or not a test reaches it.",
		LevelNote: "trusts go/types, go/ssa, VTA call graph (x/tools v0.50.0); reader protocol axiom (Read yields nil for ever at EOF) re-derived structurally under C02/C03; reviewed exceptions are printed in the evidence", DesignRef: "4 NT, REG; 5 C01"})

	claim("C02", PropertySpec{
		Engines: []EngineSpec{all("EL"), all("REC"), rules("RCL", "RCL-progress", "RCL-cycle"), all("TCL")},
		Clause: "Structural necessary conditions of 'terminates without the watchdog': (EL) every non-range loop whose body reads input (47 today) leaves when the input is exhausted — decided by abstract execution from the loop header in the EOF environment with unknown loop-carried state; loops that do not read input need a recognised ranking function or a reviewed exception; (REC) recursion over the user-defined inheritance graph carries a cycle guard; (RCL) in the lexer every delivered token and every loop iteration consumes at least one rune, for every rune class; (TCL) no loop of the parser or the evaluator that can reach the token reader comes back to its header without having consumed a token (net of un-gets), by summaries over the call graph with every branch taken both ways.",
		NotCovered: "termination of the evaluator's mutual recursion, getChainMethodReturnType (depends on TFrame contents), the watchdog firing under machine load",
	}, propMeta{Technique: "abstract interpretation of loops at EOF over go/ssa + ranking-function recognition (ordered exits, counters advanced through call-result summaries) + token-level and rune-level consumption analysis (un-get flag / net consumption summaries over the VTA call graph) + visited-set rules for graph recursion",
		LevelText: "all input-driven loops and all graph recursions of the source are enumerated and decided; a cycle that returns to the loop header in an unchanged abstract state at EOF is a definite non-termination (every witness is a truncated file).",
		LevelNote: "trusts go/ssa loop structure (dominator back edges); integers are widened beyond ±24; the reader protocol (nil token for ever at EOF)", DesignRef: "4 EL, REC; 5 C02"})

	claim("C03", PropertySpec{
		Engines: []EngineSpec{inPkgs("EL", "lexer", "lexer/reader"), rules("REG", "REG-tok", "REG-eos"), all("RCL")},
		Clause: "Structural conditions for the tokenizer, decided for every rune class (the rune domain is partitioned so that each predicate the lexer applies is constant on a class): (RCL-eos) the token function reports end-of-stream only when the last rune read is the end-of-input sentinel, so no rune of the input stops tokenising early; (RCL-progress) every return that delivers a token has consumed at least one rune, so the number of tokens is bounded by the number of runes; (RCL-cycle) no loop of the lexer comes back to its header without net consumption; (EL) every rune-reading loop leaves at end of input; (REG-tok) every token kind the lexer can store is a case of the parser's read switch (no 'read error' by construction); (REG-eos) the end-of-input sentinel of the rune reader cannot occur inside the input.",
		NotCovered: "which tokens are produced and their values",
	}, propMeta{Technique: "rune-class abstract interpretation of the lexer over go/ssa (predicate abstraction with an exact finite partition, reader modelled by un-read flag / current-rune class / net consumption, function summaries) + abstract interpretation of lexer loops at EOF + producer/consumer agreement of token-kind constants",
		LevelText: "all lexer loops, all stores to the token-kind field and all cases of the read switch are enumerated; agreement is decided exactly on resolved constants.",
		LevelNote: "trusts go/types constant evaluation; the token-kind field and the read switch are resolved by role (rune field of Lexer, switch on the rune field of Parser in the read primitive)", DesignRef: "4 EL, REG-tok, REG-eos; 5 C03"})

	claim("C04", PropertySpec{
		Engines: []EngineSpec{fromPrinters("REC"), printerOnly("IX"), lookupsOrQueryMode("NT"), inPkgs("TA", "parser", "cmd")},
		Clause: "C01's and C02's rules restricted to the code reachable (VTA call graph) from the editor-query printers of package cmd (functions taking the finished Parser by value): graph recursion over the inheritance table is cycle-guarded, and every constant-position index in the printers' own code is guarded or reviewed; plus the code that runs only when a row was requested: at every table-lookup call site (all of them are re-checked here, because the target capture `if LspTargetRow == ErrorRow { … }` follows lookups throughout the strategies) a miss is not dereferenced, in particular not inside a block dominated by the requested-row comparison; and every type assertion in the parser (where the query target is captured from whatever was evaluated last — a single value or a list of assignment targets) and in the printers is checked.",
		NotCovered: "which records are printed; index guards in the printers (claimed with IX when built); hangs and crashes of the analysis that precedes the printers are reported under C01/C02",
	}, propMeta{Technique: "call-graph reachability from the query printers + the REC (guard, monotone visited set) / NT / IX / IV rules on the reachable functions",
		LevelText: "all functions reachable from the printers are enumerated from the call graph on every run and each rule instance in them is decided.",
		LevelNote: "trusts the VTA call graph; printers are resolved by role (exported cmd functions with a single by-value Parser parameter)", DesignRef: "5 C04"})

	claim("C05", PropertySpec{
		Engines: []EngineSpec{notPkgs("MO", "cmd/rbs2json", "cmd/c2json")},
		Clause: "No value whose order derives from Go map iteration reaches an output sink: every range over a map (13 in ti today) is commutative, or its order-leaking append is sorted by a total order on distinct map entries before any other use, or it prints directly only in functions reachable solely through the --define flag (whose output is a set).",
		NotCovered: "scheduling (the watchdog), pointer formatting in debug-only paths (-d, dbp), nondeterminism outside the process",
	}, propMeta{Technique: "effect classification of map-range bodies over the type-checked AST with call-graph effect summaries; comparator totality against the key-determining field set derived from the map's store site",
		LevelText: "every map range in the source is enumerated and classified; the classification is conservative (unknown effects fail), so 'holds' means no map order can reach stdout through these loops.",
		LevelNote: "assumes distinct map keys produce distinct target keys in keyed stores (SetValueT from snapshots, narrowing); trusts the VTA call graph for print/global-store summaries", DesignRef: "4 MO; 5 C05"})

	claim("C06", PropertySpec{
		Engines: []EngineSpec{all("RC")},
		Clause: "Rows are counted where runes are consumed: (RC1) from each of the lexer's rune-read sites, on every feasible path where the rune is a newline it is un-read, emitted as the newline token or kept in a string token's text before the next read or return (a swallowed newline would shift every later row); (RC2) the row counter is only changed where the lexer is advanced, once per consumed token; (RC3) the diagnostic row is only overwritten with a saved copy of itself.",
		NotCovered: "end-of-file versus newline statement termination, comment lines inside case/in, what a layout edit does to token boundaries",
	}, propMeta{Technique: "abstract interpretation of the lexer in the newline environment (go/ssa) + dominance rules on the row-counter stores",
		LevelText: "all rune-read sites of the lexer and all stores to the two row fields are enumerated and decided.", LevelNote: "row fields and the advancing function are resolved by role (the int field incremented next to the lexer advance; the field assigned from it)", DesignRef: "4 RC; 5 C06"})

	claim("C07", PropertySpec{
		Engines: []EngineSpec{rules("ED", "ED-1", "ED-2"), all("CHK")},
		Clause: "The declaration check cannot be by-passed: (CHK) from every call that collects the evaluated arguments of a configured call, every path to a success return passes through a declaration check of the collected list (collector and checker resolved by signature shape; all 14 call sites); (CHK-walk) inside the declaration checks, a declared parameter that has a default never ends the walk over the declared parameters: from the has-default edge of every direct test of HasDefault() in a loop of a checker the loop header stays reachable on a path whose branch conditions are consistent as difference constraints (so `i++` followed by the same `len(args) <= i` exit test counts as leaving) — otherwise required parameters after the first optional one go unchecked. And a diagnostic, once produced, reaches the report: (ED-1) the diagnostics list has a single appending writer under the reporting-round test and is otherwise only reset per round; (ED-2) at each of the call sites whose callee may return a diagnostic built in eval / eval/method_evaluator (186 today, closed over return statements and the VTA call graph) the error result is read — not a call statement, not `_`, not a dead value.",
		NotCovered: "what the declaration check concludes (lookup, overloads, acceptance of types: runtime type sets)",
	}, propMeta{Technique: "must-pass-through over the SSA CFG from argument collectors to declaration checks (roles by signature shape) + constraint-feasible reachability of the loop header from the has-default edges of the parameter walk (difference constraints from branch edges, helper summaries and phi edges) + error-flow analysis over go/ssa and the VTA call graph (diagnostic sources closed over return statements; dead-value detection at call sites) + who-may-write rule on the diagnostics field",
		LevelText: "all call sites returning an error are enumerated; those that can carry a diagnostic are decided exactly (the value is read or it is not).",
		LevelNote: "callees that can only return nil or lexical errors of package parser are exempt by derivation; reviewed exceptions (recovery scans, speculative re-evaluation) are printed in the evidence", DesignRef: "4 ED; 5 C07"})

	claim("C09", PropertySpec{
		Engines: []EngineSpec{rules("REG", "REG-type"), all("SLOT")},
		Clause: "Narrow clauses: the pointer the parser hands out as assignable value (for a bare variable, the variable's own table entry, which the next assignment overwrites in place) is never retained inside a container value, so a stored element keeps the type it had when it was stored while the variable takes the type of its most recent assignment; every placeholder kind that only the configuration vocabulary can build (Self, Unify, OptionalUnify, Argument, SelfArray, KeyValueArray, BlockResultArray, Owner, …) is referenced by a comparison or case in the resolvers, and type rendering has a case for every constructible kind.",
		NotCovered: "every value the resolver computes; literals, arrays, hashes, assignment beyond the aliasing discipline",
	}, propMeta{Technique: "exhaustiveness of kind constants over resolved objects (constructor call sites vs. switch cases vs. resolver references); def-use escape analysis of assignable slot pointers over go/ssa",
		LevelText: "all kind constants are enumerated from constructor call sites; agreement with the rendering switch and the resolvers is decided exactly.",
		LevelNote: "'referenced' means the constant object is used in a comparison or case label in eval or eval/method_evaluator, whatever the dispatch shape", DesignRef: "4 REG-type; 5 C09"})

	claim("C10", PropertySpec{
		Engines: []EngineSpec{registeredUnder("SE", "if", "unless"), registeredUnder("PAIR", "if", "unless")},
		Clause: "The narrowing state is per conditional and every restore closure is run: (SE) the IfUnless evaluator is a registered singleton re-entered by nested conditionals, so it must not keep narrowing state in receiver fields across nested evaluation; (PAIR) every restore closure obtained from the condition look-ahead is called or deferred on every path.",
		NotCovered: "which variants a branch admits",
	}, propMeta{Technique: "receiver-alias/effect analysis of registered singletons over go/ssa + must-pass-through (acquire/release) over the SSA control-flow graph",
		LevelText: "all methods that can run on the singleton and all call sites producing restore closures are enumerated and decided.",
		LevelNote: "accepted repairs: save/restore of *recv in a defer, or delegation to a fresh value", DesignRef: "4 SE, PAIR; 5 C10"})

	claim("C11", PropertySpec{
		Engines: []EngineSpec{all("SE"), funcs("TB", "checkAndPropagateArgsForUnion"), all("RS"), all("GEN"), notPkgs("MEMO", "cmd/rbs2json", "cmd/c2json")},
		Clause: "The two global-state channels that are structurally checkable: evaluator and strategy singletons (43 types in the two registries) carry no state across (nested) evaluations — no store through the receiver in any method that can run on the singleton (SE); and the union-receiver call path does not accumulate return types into shared method-table entries (TB, the channel the property names; the full table-immutability rule is C12); and parser fields that carry per-call state from method evaluation to block/definition evaluation are reset when the next method evaluation starts, cleared by a defer, or consumed on read (RS); fresh-name counters are monotone over the process, so no synthetic name is handed out twice (GEN); a memo table, where there is one, is keyed by everything the memoised computation depends on (MEMO).",
		NotCovered: "the isParsingExpression flag, per-call state kept outside the parser",
	}, propMeta{Technique: "receiver-alias/effect analysis of registered singletons over go/ssa + taint on the union path + per-call parser state reset rules (must-write before read in the definition evaluator) + monotone fresh-name counters",
		LevelText: "all registered types and all methods reachable on the shared receiver are enumerated and decided.",
		LevelNote: "registries are resolved by role: package-level maps whose element type is a module interface", DesignRef: "4 SE; 5 C11"})

	claim("C12", PropertySpec{
		Engines: []EngineSpec{all("TB")},
		Clause: "Pointers into the shared method table (results of the method lookups, pointers into their variants, slices they are collected in, parameters that receive them) never reach a store to a signature field of T, a mutator method/function (derived from field stores), or publication as the parser's assignable last-evaluated value — unless deep-copied first or on the false edge of an is-builtin test (whole entries only).",
		NotCovered: "aliasing through shared slice backing arrays of value-copied T beyond what the effect summaries see; argument value entries (GetValueT) guarded by IsBuiltin at run time",
	}, propMeta{Technique: "interprocedural taint analysis over go/ssa and the VTA call graph (sources, sanitisers, mutator and publication sinks all derived from the source)",
		LevelText: "all 66 lookup call sites are sources; every sink reached by a tainted value is an obligation; sanitised hand-offs are counted with a floor.", LevelNote: "signature fields = all fields of T except labels/annotations listed in the engine; publication is a sink because assignment stores through the published pointer (derived: a store through the asserted last-evaluated value exists)", DesignRef: "4 TB; 5 C12"})

	claim("C13", PropertySpec{
		Engines: []EngineSpec{all("NL"), rules("ORD", "ORD-agree")},
		Clause: "The binder's two canonical orders are orders of the same text (ORD-agree: call-site keywords are sorted by the stored key, parameter names as raw strings; a comparator on a derived text — the key without its colon — orders `w:` / `w2:` the other way, so whether a keyword is matched depends on what the names are). Narrow clause: no dispatch on the length of an identifier's text. Every comparison of len(text) with a constant in base, eval, method_evaluator, parser and cmd (23 today) is an emptiness test, a conjunct next to a decoration test of the same text, or a bounds guard of exactly the strength the indexing it dominates needs.",
		NotCovered: "everything else about names: table keys, classification by character class, collisions with configured names",
	}, propMeta{Technique: "def-use and dominance rule on len comparisons over go/ssa (bounds-guard strength compared with the dominated index sites and with the length of the neighbouring decoration test)", LevelText: "all length comparisons on text are enumerated and decided.", LevelNote: "narrow by design: only length-dependence is decided", DesignRef: "4 NL; 5 C13"})

	claim("C14", PropertySpec{
		Engines: []EngineSpec{rules("ORD", "ORD-canon", "ORD-agree")},
		Clause: "The canonical order of the call-site keywords and the canonical order of the parameter names are orders of the same text (ORD-agree), so that matching by position after sorting pairs every keyword with its parameter whatever order it was written in. In the argument binder every order-sensitive use of the call-site arguments is on the canonicalised list (the raw list is only measured and canonicalised), and the canonicaliser sorts the keyword partition by key.",
		NotCovered: "consumers of the unsorted argument list outside the binder (conditional returns, execution-type calculation), evaluation order of argument expressions",
	}, propMeta{Technique: "def-use rule on the binder's parameter over go/ssa + comparator shape check + dominance of the sort over every return of the canonicaliser", LevelText: "all callers of the canonicaliser are enumerated; each use of the raw parameter is decided.", LevelNote: "canonicaliser resolved by role: func([]*T) []*T that partitions and sorts", DesignRef: "4 ORD-canon; 5 C14"})

	claim("C15", PropertySpec{
		Engines: []EngineSpec{rules("PAIR", "PAIR-snap"), rules("REG", "REG-rounds"), rules("ORD", "ORD-agree", "ORD-canon", "ORD-mark")},
		Clause: "In the function that propagates call-site argument types, every arm that writes the argument into the parameter table has marked it as inferred from a call first (ORD-mark: the mark is what makes the next call widen the parameter instead of being checked against the first call's type; an unmarked arm makes the result depend on which call comes first). Argument types saved before a method body is analysed are restored on every exit (must-pass-through from the snapshot call to the restore call), the round protocol is consistent (every round name compared is produced; diagnostics are recorded in the last round), and the binder's two canonical orders agree: call-site keywords are sorted by the stored key text, the same text the parameter names are sorted by, and no return of the canonicaliser by-passes the sort (otherwise an argument is matched with the wrong parameter or never propagated).",
		NotCovered: "the propagation rules themselves",
	}, propMeta{Technique: "must-pass-through over the SSA CFG + agreement of string constants + agreement of the two canonical orders (accessor returns the stored key; sort dominates every return) + sibling-agreement dominance rule (every table write of the marked parameter is dominated by its marking, also through helpers that store their own parameter)", LevelText: "all snapshot call sites and all round comparisons are enumerated and decided.", LevelNote: "snapshot/restore functions resolved by role (writer/reader of the package-level map[FrameKey]T)", DesignRef: "4 PAIR, REG-rounds; 5 C15"})

	claim("C16", PropertySpec{
		Engines: []EngineSpec{rules("PAIR", "PAIR-byvalue", "PAIR-ctx", "PAIR-bal"), rules("ORD", "ORD-flat", "ORD-flat-use", "ORD-edge"), rules("REC", "REC-key")},
		Clause: "Visibility state cannot outlive its class body: the evaluator interface takes the Context by value, and every function that sets flags through a *Context parameter resets them in a defer or is called only with the address of the caller's own by-value context; a flag of the caller's context is reset only by a function that set it itself or that saves and restores the caller's value (PAIR-bal); and the registry used to decide 'parent is a Builtin-frame class' keeps the frame (ORD-flat); the ancestor walks (superclass chains of any depth, mixins) keep a visited set keyed by the full node, so no ancestor is pruned because a same-named class was seen (REC-key); the elements of the inheritance lists are edges that carry their kind (include / extend) and are compared with a node identity field by field only — never as whole values, which would leave mixins out of hierarchy tests such as the protected check (ORD-edge).",
		NotCovered: "resolution order, new/initialize, what the protected check concludes",
	}, propMeta{Technique: "typestate-style flag pairing over go/ssa + call-graph check of pointer provenance + whole-value-use analysis of inheritance edges + visited-set key type rule", LevelText: "all functions with a *Context parameter and all their call sites are enumerated and decided.", LevelNote: "trusts the VTA call graph for callers", DesignRef: "4 PAIR; 5 C16"})

	claim("C17", PropertySpec{
		Engines: []EngineSpec{and(rules("PAIR", "PAIR"), registeredUnder("PAIR", "do")), and(rules("REG", "REG-type"), funcs("REG", "eval")), rules("RS", "RS-handover")},
		Clause: "The block evaluator is entered with the receiver in hand: where the method evaluator dispatches the block construct with a token made on the spot, the parser's last-evaluated slot — from which the block evaluator takes the receiver that block parameters are resolved against — is published right before the dispatch, with nothing in between that can write it (RS-handover; the arguments of the call have overwritten it since the receiver was evaluated). Block scope is restored on every exit (the restore closure of the block-scope preparation is deferred/called/returned on every path) and every block-parameter placeholder kind is referenced by the resolvers.",
		NotCovered: "the types computed for block parameters",
	}, propMeta{Technique: "must-pass-through over the SSA CFG + kind-constant exhaustiveness + dominance / may-write analysis of the parser's value slot before synthesized dispatches (registry keys resolved to evaluator types, slot readers and writers over the call graph)", LevelText: "all acquire sites in the block evaluator are enumerated and decided.", LevelNote: "error-return paths of the acquire itself are exempt", DesignRef: "4 PAIR; 5 C17"})

	claim("C18", PropertySpec{
		Engines: []EngineSpec{rules("ORD", "ORD-load", "ORD-prov", "ORD-own"), rules("ED", "ED-1"), all("GEN"), rules("RS", "RS-def")},
		Clause: "Nothing is printed while a preload file is analysed (every printing call of the analysis loop is dominated by the false edge of the load flag), diagnostics have a single writer, the file name and the row of every record come from the same object, only records made for the target file are collected into its hint list and the parser of a preloaded file never carries the requested row (ORD-own), and the counter of every fresh-name generator is only ever advanced from its own value (names handed out while a preload file is analysed stay in the tables, so a per-file reset makes preloads and target collide where a concatenation cannot); and the type a definition records never depends on what was evaluated before it: in the `def` evaluator every read of the parser's last evaluated value is preceded, on every path from the evaluator's entry, by a definite write made by the evaluator itself (RS-def) — otherwise the first definition of the target file sees the last statement of the preceding file only when files are concatenated.",
		NotCovered: "equality with the concatenated run",
	}, propMeta{Technique: "dominance over the SSA CFG of the analysis loop with call-graph print summaries + provenance (root object) comparison of record components + own-file filter, requested-row, round-independence and back-to-back rules in package main (effect summaries over the VTA call graph: stores, map updates and deletes on package-level tables between the preload and the target analysis) + monotone fresh-name counters + must-write-before-read in the definition evaluator", LevelText: "all printing calls of the loop and all file+row record assemblies are enumerated and decided.", LevelNote: "file-name fields are anchored by name (FileName); integer row parameters are followed to their call sites", DesignRef: "4 ORD-load, ORD-prov; 5 C18"})

	claim("C19", PropertySpec{
		Engines: []EngineSpec{rules("ORD", "ORD-overload", "ORD-lastwins"), rules("GEN", "GEN-mono", "GEN-scope")},
		Clause: "The loader's 'method already exists → overload' test must be an exact-key lookup: it must not reach, in the call graph, a function that walks the inheritance table (then the answer depends on which extends edges earlier files created, i.e. on file names and splitting); and no store of the loader into a shared keyed table is a plain overwrite (it is guarded by a test reading the same entry, or accumulates onto it), so that no 'last file wins'; synthetic names that become part of a key of a process-wide table come from a process-wide, monotone generator — never from a counter kept in a per-file object (GEN).",
		NotCovered: "every other order dependence of the loader (documents, registry order)",
	}, propMeta{Technique: "call-graph reachability from the lookup used by the overload test + intra-iteration CFG reachability from inheritance-table updates to calls that reach a walker (edges last) + guarded-store rule on shared keyed tables + scope rule for fresh-name generators feeding table keys", LevelText: "both overload sites are enumerated and decided.", LevelNote: "overload sites resolved by role: stores to the Overloads field in package builtin", DesignRef: "4 ORD-overload; 5 C19"})

	claim("C20", PropertySpec{
		Engines: []EngineSpec{rules("ORD", "ORD-flat", "ORD-flat-use")},
		Clause: "The registry consulted to decide 'is this a Builtin-frame class' must not erase the frame: its entries carry the frame or are restricted by a frame test; and every consumer that redirects a class to the Builtin frame because its short name is registered also tests that the name was written unqualified (frame/namespace empty).",
		NotCovered: "other ways an unmentioned class could matter (inheritance edges of same-named classes)",
	}, propMeta{Technique: "dependence rule on the registry append over go/ssa + guard rule at every reader of the registry (membership tests on a token's own text, or conjoined with an unqualified-name test; redirecting or not)", LevelText: "the single registration site is decided.", LevelNote: "registry anchored by name (BuiltinClasses)", DesignRef: "4 ORD-flat; 5 C20"})

	claim("C21", PropertySpec{
		Engines: []EngineSpec{all("AL"), rules("LA", "LA-copy")},
		Clause: "The flags the loader sets on a type under construction are set before its value is copied into the result (LA-copy: no field store or receiver-mutating call on a local struct of the loader is reachable, within one iteration, from a by-value copy of it into a container — a flag set after `result = append(result, baseType)` is lost for the copy, so the long form and the alias form of the same argument stop carrying the same flags). Narrow clause on the alias rows of the type vocabulary: Int and Integer return the same table value; every OptionalX is built by the same union constructor from (value of X, nil value) as the `?X` notation; the factory of every DefaultX has the constructor normal form of the factory of X plus exactly hasDefault and isBuiltin (what the loader sets for is_default); in the argument parser `?` and `*` reach the same flag stores as is_default and is_asterisk; `A|B` and [A, B] go through one union constructor; wherever the loader splits a notation string on `|`, the `?` and `*` prefixes of that string have been interpreted first (so `?A|B` is [A|B, NilClass]).",
		NotCovered: "parseTypeString on arbitrary strings (deeper nesting, whitespace), rendering of signatures, `[T]`",
	}, propMeta{Technique: "constant folding of straight-line factory functions into constructor normal forms (go/ssa) + agreement rules over the type-checked AST of the loader + write-after-value-copy analysis of the loader's local structs over the SSA CFG", LevelText: "all 13 alias rows are enumerated and decided; a factory that is not straight-line is undecided, which fails the check.", LevelNote: "labels, table values and factories are resolved from the type-name switch and the package-level initialisers", DesignRef: "5 C21"})

	claim("C22", PropertySpec{
		Engines: []EngineSpec{rules("ORD", "ORD-row"), rules("PAIR", "PAIR-bal")},
		Clause: "A visibility flag of the caller's context is reset only by a function that has set it itself on every path to the reset, or that keeps the caller's value and restores it in a deferred closure (so a `class << self` block neither inherits nor disturbs the section around it, and definitions are tagged with the visibility in effect). In every evaluator that records a definition row, the row is captured in the entry block before any token is read, and — for a helper — no token is read on any static call path between the generic dispatcher's hand-off and the helper's entry (so multi-line definitions are recorded on the row of their first token).",
		NotCovered: "hover content, which visibility a keyword selects, the file name (C18)",
	}, propMeta{Technique: "ordering rule over the SSA entry block with call-graph 'reads tokens' summaries, extended over static call chains back to the registry dispatcher", LevelText: "all 8 definition-row captures are enumerated and decided.", LevelNote: "row field anchored by name (ErrorRow); comparisons and restores are excluded by def-use", DesignRef: "4 ORD-row; 5 C22"})

	claim("C24", PropertySpec{
		Engines: []EngineSpec{rules("ORD", "ORD-spec", "ORD-key", "ORD-own", "ORD-log")},
		Clause: "An append to one of the logs never depends on a membership test of that log (ORD-log: records carry file and row but no column, so a de-duplicating guard merges two call sites of one row). Functions that evaluate on a by-value copy of the parser (condition look-ahead) cannot reach a store to an append-only global log (call points, callee points, special comments, define-info and signature articles) unless the store is dominated by a test of a parser field the look-ahead sets on its copy. Every frame-qualified key (frame accessor followed by class accessor in one concatenation — the call-point and callee-point keys and the navigator's look-up keys among them) reads both halves from the same object, so that the recorder and the navigator name the same method. Every round — the reporting round, which records call points, included — runs on preloaded files as on the target (ORD-own).",
		NotCovered: "rows, callee lists",
	}, propMeta{Technique: "call-graph effect reachability from speculative roots; dominance rule on log appends (no membership test of the log itself); provenance rule over the type-checked AST for qualified-name keys; round-independence and back-to-back rules on the analysis calls", LevelText: "all speculative roots and all qualified-name concatenations are enumerated and decided.", LevelNote: "speculative root = by-value Parser parameter that some caller fills with *ptr", DesignRef: "4 ORD-spec; 5 C24"})

	claim("C27", PropertySpec{
		Engines: []EngineSpec{rules("ORD", "ORD-frame", "ORD-key"), rules("REC", "REC-key")},
		Clause: "In an evaluator that switches the frame of its context, every frame read that feeds a registry key (inheritance node, defined-class and method table setters) is dominated by the switch, so that all keys of one class definition use one frame; every frame-qualified name built by concatenation reads frame and class from the same object; the visited sets of the inheritance walks are keyed by the full node (frame and class), not by a projection of it.",
		NotCovered: "qualified reference evaluation, configured-name collisions (C16/C20)",
	}, propMeta{Technique: "dominance rule over go/ssa + same-receiver rule for qualified-name concatenations over the type-checked AST + visited-set key type rule", LevelText: "all frame reads feeding keys in frame-switching evaluators are enumerated and decided.", LevelNote: "SetFrame/GetFrame anchored by name on context.Context", DesignRef: "4 ORD-frame; 5 C27"})

	claim("C25", PropertySpec{
		Engines: []EngineSpec{inPkgs("MO", "cmd/rbs2json"), rules("ORD", "ORD-args"), funcs("REGJ", "cmd/rbs2json"), inPkgs("LA", "builtin", "cmd/rbs2json"), inPkgs("MEMO", "cmd/rbs2json", "builtin")},
		Clause: "No range over a map in rbs2json leaks iteration order into the emitted JSON; the argument converter appends the six parameter groups in signature order and sets is_default / is_asterisk / key exactly for the groups that need them (groups and flags resolved through their JSON tags); every JSON key the tool emits is read, at the same nesting and with a compatible type, by the loader's structs, and every type-name constant it can emit is a loader keyword or a configured class; in the loader that turns the emitted arguments into parameter values, every address retained per loop iteration (keyword parameters keep a pointer to their type) points to a variable of that iteration; and in the converter a look-up table that is written inside a loop and handed to the callees of the iteration is made inside that loop (a per-class alias table is not the file-level map under another name).",
		NotCovered: "RBS type mapping beyond name agreement, arity as checked by ti beyond the loader's aliasing discipline",
	}, propMeta{Technique: "effect classification of map-range bodies over the type-checked AST + group/flag agreement through JSON tags + writer/loader agreement of JSON keys, type names and prefix notation + loop-retained address rule in the loader", LevelText: "every map range of the tool is enumerated and classified.", LevelNote: "conservative classification", DesignRef: "4 MO; 5 C25"})

	claim("C26", PropertySpec{
		Engines: []EngineSpec{inPkgs("MO", "cmd/c2json"), funcs("REGJ", "cmd/c2json"), inPkgs("MEMO", "cmd/c2json")},
		Clause: "No range over a map in c2json leaks iteration order into the emitted JSON (this settles the sentence 'the output is deterministic' for all inputs as far as map order is concerned); every JSON key the tool emits is read by the loader's structs with a compatible type, and every type-name constant it can emit (after the loader's ? * notation rules) is a loader keyword or a configured class; a `?T` / `*T` entry, which the loader reads as default / rest only in a one-entry type list (derived from the loader on every run), is never put into or left in a longer list; a memo table of the tool is keyed by everything the memoised analysis depends on (a C function registered twice with different argument specs is analysed per registration).",
		NotCovered: "the arity equivalence beyond that (regex heuristics over C text)",
	}, propMeta{Technique: "effect classification of map-range bodies over the type-checked AST + writer/loader agreement of JSON keys, type names and prefix notation (loader side derived on every run)", LevelText: "every map range of the tool is enumerated and classified.", LevelNote: "conservative classification", DesignRef: "4 MO; 5 C26"})
}
