package main

import (
	"fmt"
	"go/types"

	"golang.org/x/tools/go/ssa"
)

// LA-copy — no write to a local value after it has been copied out (C21).
//
// The configuration loader builds a type in a local struct variable, sets its flags and then
// copies the value into the result (`result = append(result, baseType)`). A flag that is set
// after the copy was taken is lost for the copy — silently, because the statement still
// compiles and the variable still receives it. For the argument parser that means: the
// long form `{"type":"Int","is_default":true}` and the `DefaultInt` form of the same argument
// no longer carry the same flags. Rule (loader package): inside one loop iteration (or the
// function body), no field store to a local struct variable, and no call of a pointer-
// receiver method that writes its receiver's fields on it, is reachable from a by-value copy
// of that variable into a container — unless another copy follows on every path.
func laCopy(w *World, r *EngineResult) {
	writesRecv := map[*ssa.Function]int8{}
	var mutator func(f *ssa.Function, d int) bool
	mutator = func(f *ssa.Function, d int) bool {
		if f == nil || len(f.Blocks) == 0 || len(f.Params) == 0 || d > 2 {
			return false
		}
		if v := writesRecv[f]; v != 0 {
			return v == 2
		}
		writesRecv[f] = 1
		for _, b := range f.Blocks {
			for _, ins := range b.Instrs {
				switch x := ins.(type) {
				case *ssa.Store:
					if fa, ok := x.Addr.(*ssa.FieldAddr); ok && fa.X == ssa.Value(f.Params[0]) {
						writesRecv[f] = 2
						return true
					}
				case *ssa.Call:
					if cal := x.Call.StaticCallee(); cal != nil && len(x.Call.Args) > 0 && x.Call.Args[0] == ssa.Value(f.Params[0]) && mutator(cal, d+1) {
						writesRecv[f] = 2
						return true
					}
				}
			}
		}
		return false
	}
	n := 0
	for _, fn := range w.Funcs {
		if pkgShort(fn) != "builtin" {
			continue
		}
		loops := findLoops(fn)
		ord := 0
		for _, b0 := range fn.Blocks {
			for _, i0 := range b0.Instrs {
				al, ok := i0.(*ssa.Alloc)
				if !ok || al.Referrers() == nil {
					continue
				}
				if _, isStruct := al.Type().(*types.Pointer).Elem().Underlying().(*types.Struct); !isStruct {
					continue
				}
				// copies out: loads of the whole variable whose value is stored elsewhere or
				// appended (through the variadic backing array)
				var copies, writes []ssa.Instruction
				for _, ref := range *al.Referrers() {
					switch x := ref.(type) {
					case *ssa.UnOp: // load *al
						if x.Referrers() == nil {
							continue
						}
						for _, r2 := range *x.Referrers() {
							if st, ok := r2.(*ssa.Store); ok && st.Val == ssa.Value(x) {
								if _, self := st.Addr.(*ssa.Alloc); self && st.Addr == ssa.Value(al) {
									continue
								}
								copies = append(copies, st)
							}
						}
					case *ssa.FieldAddr:
						if x.Referrers() == nil {
							continue
						}
						for _, r2 := range *x.Referrers() {
							if st, ok := r2.(*ssa.Store); ok && st.Addr == ssa.Value(x) {
								writes = append(writes, st)
							}
						}
					case *ssa.Call:
						if cal := x.Call.StaticCallee(); cal != nil && len(x.Call.Args) > 0 && x.Call.Args[0] == ssa.Value(al) && x.Call.Signature().Recv() != nil && mutator(cal, 0) {
							writes = append(writes, x)
						}
					}
				}
				if len(copies) == 0 || len(writes) == 0 {
					continue
				}
				n++
				ord++
				name := al.Comment
				if name == "" {
					name = al.Name()
				}
				construct := fmt.Sprintf("value copies of %s", name)
				if ord > 1 {
					construct = fmt.Sprintf("%s#%d", construct, ord)
				}
				// the innermost loop in which the variable lives: a new iteration starts a
				// new value
				var loop *natLoop
				for _, l := range loops {
					if l.body[b0] && (loop == nil || len(l.body) < len(loop.body)) {
						loop = l
					}
				}
				bad := ""
				for _, cp := range copies {
					// instructions reachable from the copy without starting a new iteration
					seen := map[*ssa.BasicBlock]bool{}
					var after []ssa.Instruction
					past := false
					for _, ins := range cp.Block().Instrs {
						if past {
							after = append(after, ins)
						}
						if ins == cp {
							past = true
						}
					}
					var walk func(b *ssa.BasicBlock)
					walk = func(b *ssa.BasicBlock) {
						if seen[b] || (loop != nil && (b == loop.head || !loop.body[b])) || b == b0 {
							return
						}
						seen[b] = true
						after = append(after, b.Instrs...)
						for _, s := range b.Succs {
							walk(s)
						}
					}
					for _, s := range cp.Block().Succs {
						walk(s)
					}
					for _, ins := range after {
						for _, wr := range writes {
							if ins == wr {
								// a later copy on every path would repair it; keep the rule
								// simple: report the write that follows a copy
								bad = fmt.Sprintf("the write at %s can run after the value was copied out at %s", w.pos(instrPos(wr)), w.pos(instrPos(cp)))
							}
						}
					}
				}
				if bad == "" {
					r.holds("LA-copy", fnKey(fn), construct, "every write to the variable precedes the copies taken of it", w.pos(instrPos(al)))
				} else {
					r.violated("LA-copy", fnKey(fn), construct, "a flag is set on the local after its value has been copied into the result: "+bad+" — the copy does not carry it, so the stored type differs from what the same notation yields where the flag is set in time", w.pos(instrPos(al)))
				}
			}
		}
	}
	r.Stats["copied_and_written_locals_in_loader"] = n
	r.floor("copied_and_written_locals_in_loader", 1)
}
