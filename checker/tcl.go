package main

// TCL — token-level consumption analysis of the parser and the evaluator (C02).
//
// The token reader has the same one-slot push-back protocol as the rune reader: the consume
// primitive (the parser function that tests and clears the un-get flag and otherwise asks
// the lexer for a token) moves the effective position by +1, the un-get primitive (stores
// true to that flag) by −1 unless the flag is already set. Every function that can reach a
// primitive gets a summary: entry flag → set of (exit flag, net consumption capped to
// −3…4), computed as the least fixed point over the VTA call graph (dynamic dispatch =
// union over the callees of the site). No token values are tracked: every branch is taken
// both ways, so the summaries over-approximate.
//
// TCL-cycle: from the header of every loop whose body can reach a primitive, with either
// flag and everything else unknown, no path through the body comes back to the header with
// net consumption ≤ 0. A loop that can is a token-level read / un-get ping-pong: on
// non-empty input it never ends (the watchdog prints `timeout`).

import (
	"fmt"
	"go/constant"
	"go/token"
	"go/types"
	"os"
	"sort"
	"strings"

	"golang.org/x/tools/go/callgraph"
	"golang.org/x/tools/go/ssa"
)

func init() { engines["TCL"] = engineTCL }

const (
	tclMin = -3
	tclMax = 4
	tclW   = tclMax - tclMin + 1 // 8
)

type tset uint16 // bit (flag*8 + net-tclMin)

func tbit(flag, net int) tset {
	if net < tclMin {
		net = tclMin
	}
	if net > tclMax {
		net = tclMax
	}
	return 1 << uint(flag*tclW+net-tclMin)
}

func (s tset) each(f func(flag, net int)) {
	for fl := 0; fl < 2; fl++ {
		for n := tclMin; n <= tclMax; n++ {
			if s&tbit(fl, n) != 0 {
				f(fl, n)
			}
		}
	}
}

type ttag [3]tset // by boolean result: 0 unknown / not boolean, 1 true, 2 false

func (t ttag) all() tset { return t[0] | t[1] | t[2] }

type tsummary [2]ttag // entry flag → exits (flag', dnet) by boolean result

type tcl struct {
	w       *World
	cg      *callgraph.Graph
	consume *ssa.Function
	unget   *ssa.Function
	touch   map[*ssa.Function]bool
	sum     map[*ssa.Function]*tsummary
	rewinds map[*ssa.Function]bool
}

func (m *tcl) callees(fn *ssa.Function, site ssa.CallInstruction) []*ssa.Function {
	if sc := site.Common().StaticCallee(); sc != nil {
		return []*ssa.Function{sc}
	}
	var out []*ssa.Function
	if n := m.cg.Nodes[fn]; n != nil {
		for _, e := range n.Out {
			if e.Site == site && e.Callee.Func != nil {
				out = append(out, e.Callee.Func)
			}
		}
	}
	sort.Slice(out, func(i, j int) bool { return fnKey(out[i]) < fnKey(out[j]) })
	return out
}

// boolResultIndex: index of the first boolean result of a signature, -1 if none.
func boolResultIndex(sig *types.Signature) int {
	for i := 0; i < sig.Results().Len(); i++ {
		if types.Identical(sig.Results().At(i).Type().Underlying(), types.Typ[types.Bool]) {
			return i
		}
	}
	return -1
}

// apply: effect of one call instruction on a state set, split by the callee's boolean result.
func (m *tcl) apply(fn *ssa.Function, site ssa.CallInstruction, cur tset) (out ttag) {
	cals := m.callees(fn, site)
	if len(cals) == 0 {
		out[0] = cur
		return
	}
	identity := false
	for _, cal := range cals {
		switch {
		case cal == m.consume:
			cur.each(func(fl, n int) { out[0] |= tbit(0, n+1) })
		case cal == m.unget:
			cur.each(func(fl, n int) {
				if fl == 1 {
					out[0] |= tbit(1, n)
				} else {
					out[0] |= tbit(1, n-1)
				}
			})
		case takesParserCopy(cal):
			// the callee works on its own copy of the parser: the caller's position is untouched
			identity = true
		case m.touch[cal]:
			s := m.sum[cal]
			if s == nil {
				continue // no exit known yet (least fixed point)
			}
			cur.each(func(fl, n int) {
				for tg := 0; tg < 3; tg++ {
					t2 := tg
					if len(cals) > 1 {
						t2 = 0 // dynamic dispatch: keep it simple
					}
					s[fl][tg].each(func(fl2, d int) { out[t2] |= tbit(fl2, n+d) })
				}
			})
		default:
			identity = true
		}
	}
	if identity {
		out[0] |= cur
	}
	return
}

// flow: forward fixed point over the blocks of fn from start; within restricts to a loop
// and reports arrivals at its header through onBack.
func (m *tcl) flow(fn *ssa.Function, start *ssa.BasicBlock, init tset, within *natLoop, onBack func(from *ssa.BasicBlock, s tset)) (exits ttag) {
	in := map[*ssa.BasicBlock]tset{start: init}
	work := []*ssa.BasicBlock{start}
	queued := map[*ssa.BasicBlock]bool{start: true}
	var deferred []ssa.CallInstruction
	bidx := boolResultIndex(fn.Signature)
	for len(work) > 0 {
		b := work[0]
		work = work[1:]
		queued[b] = false
		cur := ttag{in[b]}
		var tagVal ssa.Value // the call whose boolean result splits cur
		for _, ins := range b.Instrs {
			switch x := ins.(type) {
			case *ssa.Call:
				cur = m.apply(fn, x, cur.all())
				tagVal = x
			case *ssa.Defer:
				deferred = append(deferred, x)
			case *ssa.RunDefers:
				for i := len(deferred) - 1; i >= 0; i-- {
					// a deferred call may or may not have been registered on this path
					a := cur.all()
					cur = ttag{a | m.apply(fn, deferred[i], a).all()}
					tagVal = nil
				}
			case *ssa.Return:
				tag := 0
				if bidx >= 0 && bidx < len(x.Results) {
					switch rv := x.Results[bidx].(type) {
					case *ssa.Const:
						if rv.Value != nil && cBool(rv.Value) {
							tag = 1
						} else {
							tag = 2
						}
					default:
						if tagVal != nil && boolOf(rv, tagVal) == 1 {
							tag = -1 // pass the callee's split through
						}
					}
				}
				if tag == -1 {
					for t := 0; t < 3; t++ {
						exits[t] |= cur[t]
					}
				} else {
					exits[tag] |= cur.all()
				}
			}
			if cur.all() == 0 {
				break
			}
		}
		if cur.all() == 0 {
			continue
		}
		last := b.Instrs[len(b.Instrs)-1]
		for si, succ := range b.Succs {
			out := cur.all()
			if iff, ok := last.(*ssa.If); ok && tagVal != nil {
				switch boolOf(iff.Cond, tagVal) {
				case 1: // cond is the call's boolean result
					if si == 0 {
						out = cur[0] | cur[1]
					} else {
						out = cur[0] | cur[2]
					}
				case 2: // cond is its negation
					if si == 0 {
						out = cur[0] | cur[2]
					} else {
						out = cur[0] | cur[1]
					}
				}
			}
			if out == 0 {
				continue
			}
			if within != nil {
				if !within.body[succ] {
					continue
				}
				if succ == within.head {
					onBack(b, out)
					continue
				}
			}
			if n := in[succ] | out; n != in[succ] {
				in[succ] = n
				if !queued[succ] {
					queued[succ] = true
					work = append(work, succ)
				}
			}
		}
	}
	return
}

// takesParserCopy: the function receives the parser by value (speculative look-ahead).
func takesParserCopy(f *ssa.Function) bool {
	ps := f.Signature.Params()
	for i := 0; i < ps.Len(); i++ {
		if isNamed(ps.At(i).Type(), modulePath+"/parser", "Parser") {
			if _, isPtr := ps.At(i).Type().(*types.Pointer); !isPtr {
				return true
			}
		}
	}
	return false
}

// boolOf: 1 if v is the boolean result of call (directly or extracted from its tuple),
// 2 if it is the negation of it, 0 otherwise.
func boolOf(v ssa.Value, call ssa.Value) int {
	switch x := v.(type) {
	case *ssa.UnOp:
		if x.Op == token.NOT {
			switch boolOf(x.X, call) {
			case 1:
				return 2
			case 2:
				return 1
			}
		}
		return 0
	case *ssa.Extract:
		if x.Tuple == call {
			if c, ok := call.(*ssa.Call); ok && x.Index == boolResultIndex(c.Call.Signature()) {
				return 1
			}
		}
		return 0
	}
	if v == call {
		if _, ok := v.Type().Underlying().(*types.Basic); ok {
			return 1
		}
	}
	return 0
}

func engineTCL(w *World, tier string) *EngineResult {
	r := newResult("TCL", "token-level consumption analysis: summaries entry-flag → (exit flag, net tokens consumed) for every function that can reach the parser's consume / un-get primitives (least fixed point over the VTA call graph, branches taken both ways); (TCL-cycle) from the header of every loop that can reach a primitive, no path through the body returns to the header with net consumption ≤ 0")
	m := &tcl{w: w, cg: w.CallGraph(), touch: map[*ssa.Function]bool{}, sum: map[*ssa.Function]*tsummary{}, rewinds: map[*ssa.Function]bool{}}
	// ---- roles
	// the lexer's token function: parameterless bool method of *lexer.Lexer
	isLexTok := func(f *ssa.Function) bool {
		return f != nil && f.Signature.Recv() != nil && isPtrToNamed(f.Signature.Recv().Type(), modulePath+"/lexer", "Lexer") &&
			f.Signature.Params().Len() == 0 && f.Signature.Results().Len() == 1 && types.Identical(f.Signature.Results().At(0).Type(), types.Typ[types.Bool])
	}
	var flagField = -1
	for _, fn := range w.Funcs {
		if pkgShort(fn) != "parser" || fn.Signature.Recv() == nil {
			continue
		}
		callsLex := false
		for _, b := range fn.Blocks {
			for _, ins := range b.Instrs {
				if c, ok := ins.(*ssa.Call); ok && isLexTok(c.Call.StaticCallee()) {
					callsLex = true
				}
			}
		}
		if !callsLex {
			continue
		}
		m.consume = fn
		// the flag it clears: store of constant false to a bool field of the receiver
		for _, b := range fn.Blocks {
			for _, ins := range b.Instrs {
				if st, ok := ins.(*ssa.Store); ok {
					if fa, ok := st.Addr.(*ssa.FieldAddr); ok && fa.X == ssa.Value(fn.Params[0]) {
						if k, ok := st.Val.(*ssa.Const); ok && k.Value != nil && k.Value.Kind() == constant.Bool && !cBool(k.Value) {
							flagField = fa.Field
						}
					}
				}
			}
		}
	}
	if m.consume == nil || flagField < 0 {
		r.undecided("TCL-cycle", "parser", "consume primitive", "unresolved anchor: parser method that calls the lexer's token function and clears a bool field", "-")
		r.finish()
		return r
	}
	for _, fn := range w.Funcs {
		if pkgShort(fn) != "parser" || fn.Signature.Recv() == nil || fn == m.consume || fn.Signature.Params().Len() != 0 || fn.Signature.Results().Len() != 0 {
			continue
		}
		n, ok := 0, false
		for _, b := range fn.Blocks {
			for _, ins := range b.Instrs {
				switch x := ins.(type) {
				case *ssa.Store:
					n++
					if fa, isFA := x.Addr.(*ssa.FieldAddr); isFA && fa.Field == flagField && fa.X == ssa.Value(fn.Params[0]) {
						if k, isC := x.Val.(*ssa.Const); isC && k.Value != nil && k.Value.Kind() == constant.Bool && cBool(k.Value) {
							ok = true
						}
					}
				case *ssa.Call:
					n += 10
				}
			}
		}
		if ok && n == 1 {
			m.unget = fn
		}
	}
	if m.unget == nil {
		r.undecided("TCL-cycle", "parser", "un-get primitive", "unresolved anchor: parser method whose only effect is to set the flag the consume primitive clears", "-")
		r.finish()
		return r
	}
	r.Notes = append(r.Notes, "consume primitive "+fnKey(m.consume)+", un-get primitive "+fnKey(m.unget))
	// other writers of the flag would break the model
	for _, fn := range w.Funcs {
		if fn == m.consume || fn == m.unget {
			continue
		}
		for _, b := range fn.Blocks {
			for _, ins := range b.Instrs {
				if st, ok := ins.(*ssa.Store); ok {
					if fa, ok := st.Addr.(*ssa.FieldAddr); ok && fa.Field == flagField && isPtrToNamed(fa.X.Type(), modulePath+"/parser", "Parser") {
						if _, fresh := fa.X.(*ssa.Alloc); fresh {
							continue // initialisation of a new parser
						}
						r.undecided("TCL-cycle", fnKey(fn), "un-get flag written outside the primitives", "the consumption model assumes two writers of the flag", w.pos(instrPos(st)))
					}
				}
			}
		}
	}
	// ---- who can reach a primitive (reverse reachability in the call graph)
	m.touch[m.consume], m.touch[m.unget] = true, true
	stack := []*ssa.Function{m.consume, m.unget}
	for len(stack) > 0 {
		f := stack[len(stack)-1]
		stack = stack[:len(stack)-1]
		if n := m.cg.Nodes[f]; n != nil {
			for _, e := range n.In {
				c := e.Caller.Func
				if c == nil || c.Pkg == nil || !inModule(c.Pkg.Pkg.Path()) || m.touch[c] {
					continue
				}
				m.touch[c] = true
				stack = append(stack, c)
			}
		}
	}
	var fns []*ssa.Function
	for f := range m.touch {
		if f != m.consume && f != m.unget && len(f.Blocks) > 0 {
			fns = append(fns, f)
		}
	}
	sort.Slice(fns, func(i, j int) bool { return fnKey(fns[i]) < fnKey(fns[j]) })
	// ---- least fixed point of the summaries
	rounds := 0
	for changed := true; changed; {
		changed = false
		rounds++
		if rounds > 200 {
			r.undecided("TCL-cycle", "module", "summary fixed point", "no fixed point after 200 rounds", "-")
			break
		}
		for _, f := range fns {
			var ns tsummary
			for fl := 0; fl < 2; fl++ {
				ns[fl] = m.flow(f, f.Blocks[0], tbit(fl, 0), nil, nil)
			}
			old := m.sum[f]
			if old == nil || *old != ns {
				if old != nil {
					for fl := 0; fl < 2; fl++ {
						for t := 0; t < 3; t++ {
							ns[fl][t] |= old[fl][t]
						}
					}
				}
				if old == nil || *old != ns {
					cp := ns
					m.sum[f] = &cp
					changed = true
				}
			}
		}
	}
	if dbg := os.Getenv("VERIF_TCL_DEBUG"); dbg != "" {
		for _, f := range fns {
			if strings.Contains(fnKey(f), dbg) && m.sum[f] != nil {
				for fl := 0; fl < 2; fl++ {
					var parts []string
					for t := 0; t < 3; t++ {
						m.sum[f][fl][t].each(func(fl2, n int) { parts = append(parts, fmt.Sprintf("%s(flag %d, net %+d)", []string{"", "T", "F"}[t], fl2, n)) })
					}
					fmt.Fprintf(os.Stderr, "TCL summary %s entry flag %d: %s\n", fnKey(f), fl, strings.Join(parts, " "))
				}
			}
		}
	}
	r.Stats["functions_with_token_summaries"] = len(fns)
	r.Stats["summary_rounds"] = rounds
	// ---- loops
	nLoops := 0
	for _, fn := range fns {
		for i, l := range findLoops(fn) {
			if isRangeLoop(l) {
				continue // bounded by the collection
			}
			touches := false
			for b := range l.body {
				for _, ins := range b.Instrs {
					if c, ok := ins.(ssa.CallInstruction); ok {
						if _, isGo := ins.(*ssa.Go); isGo {
							continue
						}
						for _, cal := range m.callees(fn, c) {
							if m.touch[cal] {
								touches = true
							}
						}
					}
				}
			}
			if !touches {
				continue
			}
			nLoops++
			construct := fmt.Sprintf("loop#%d", i+1)
			pos := w.pos(instrPos(l.head.Instrs[0]))
			min, from, reached := 127, "", false
			for fl := 0; fl < 2; fl++ {
				m.flow(fn, l.head, tbit(fl, 0), l, func(b *ssa.BasicBlock, s tset) {
					s.each(func(fl2, n int) {
						reached = true
						if n < min {
							min = n
							from = fmt.Sprintf("entered with un-get flag %d, back edge from block %d (%s) with flag %d", fl, b.Index, w.pos(instrPos(b.Instrs[len(b.Instrs)-1])), fl2)
						}
					})
				})
			}
			switch {
			case !reached:
				r.holds("TCL-cycle", fnKey(fn), construct, "no path returns to the loop header", pos)
			case min >= 1:
				r.holds("TCL-cycle", fnKey(fn), construct, fmt.Sprintf("every way back to the loop header has consumed at least %d token(s)", min), pos)
			case visitedGuard(fn, l):
				why := "not a token loop: the body may consume nothing, but every iteration enters a new key into a visited set made in this function and a repeated key leaves the loop (premise re-checked on every run); the iterations are bounded by the number of distinct keys"
				r.Reviewed["TCL-cycle|"+fnKey(fn)+"|"+construct] = why
				r.add(Obligation{Rule: "TCL-cycle", Func: fnKey(fn), Construct: construct, Verdict: Holds, Detail: "visited-set guard", Pos: pos, Reviewed: why})
			default:
				r.violated("TCL-cycle", fnKey(fn), construct, fmt.Sprintf("the loop can return to its header with net token consumption %d (%s)", min, from), pos)
			}
		}
	}
	r.Stats["token_loops"] = nLoops
	r.floor("token_loops", 30)
	r.finish()
	return r
}
