package main

// Self-test both ways: seeded breaking variants (under /verif/seeded/<id>/) are applied to
// a scratch copy of /repo's working tree and the checks of the property they break are
// run on the copy. The outcome describes the checker, not the tree: it never produces a
// VIOLATION line for the property being checked.

import (
	"encoding/json"
	"flag"
	"fmt"
	"os"
	"os/exec"
	"path/filepath"
	"regexp"
	"sort"
	"strings"
	"sync"

	"golang.org/x/tools/go/ssa"
)

type seededMeta struct {
	ID         string   `json:"id"`
	Properties []string `json:"properties"`
	Breaks     string   `json:"breaks"`
	Needs      string   `json:"needs"`
	Origin     string   `json:"origin"`
	ExpectRule []string `json:"expect_rules"` // rule prefixes expected to fire (empty: any new violation)
	Status     string   `json:"status"`       // "caught" | "missed" | "out-of-reach"
	Note       string   `json:"note"`
}

type seededResult struct {
	ID       string   `json:"id"`
	Property string   `json:"property"`
	Outcome  string   `json:"outcome"` // fired | silent | not-applicable-on-this-tree | error
	Keys     []string `json:"violations,omitempty"`
	Detail   string   `json:"detail,omitempty"`
}

func loadSeeded() ([]seededMeta, error) {
	dirs, _ := filepath.Glob(filepath.Join(verifDir(), "seeded", "*", "meta.json"))
	sort.Strings(dirs)
	var out []seededMeta
	for _, d := range dirs {
		b, err := os.ReadFile(d)
		if err != nil {
			return nil, err
		}
		var m seededMeta
		if err := json.Unmarshal(b, &m); err != nil {
			return nil, fmt.Errorf("%s: %v", d, err)
		}
		if m.ID == "" {
			m.ID = filepath.Base(filepath.Dir(d))
		}
		out = append(out, m)
	}
	return out, nil
}

func copyTree(dst string) error {
	cmd := exec.Command("rsync", "-a", "--exclude", ".git", "--exclude", "/test", "--exclude", "/ti", "--exclude", "/image", "--exclude", "/docs", "--exclude", "/example", repoDir()+"/", dst+"/")
	out, err := cmd.CombinedOutput()
	if err != nil {
		return fmt.Errorf("rsync: %v: %s", err, out)
	}
	// the loader reads shipped configuration files of the tree (REG-names): keep test/.ti-config
	os.MkdirAll(filepath.Join(dst, "test"), 0o755)
	exec.Command("rsync", "-a", filepath.Join(repoDir(), "test", ".ti-config"), filepath.Join(dst, "test")+"/").Run()
	return nil
}

// runSeeded applies one seeded patch to a scratch copy and runs the property's check there.
func runSeeded(m seededMeta, prop string) seededResult {
	res := seededResult{ID: m.ID, Property: prop}
	tmp, err := os.MkdirTemp("", "tiverif-selftest-")
	if err != nil {
		res.Outcome, res.Detail = "error", err.Error()
		return res
	}
	defer os.RemoveAll(tmp)
	tree := filepath.Join(tmp, "tree")
	ev := filepath.Join(tmp, "evidence")
	os.MkdirAll(tree, 0o755)
	if err := copyTree(tree); err != nil {
		res.Outcome, res.Detail = "error", err.Error()
		return res
	}
	patch := filepath.Join(verifDir(), "seeded", m.ID, "patch.diff")
	ap := exec.Command("patch", "-p1", "--no-backup-if-mismatch", "-s", "-i", patch)
	ap.Dir = tree
	if out, err := ap.CombinedOutput(); err != nil {
		res.Outcome, res.Detail = "not-applicable-on-this-tree", "patch does not apply: "+strings.TrimSpace(string(out))
		return res
	}
	cmd := exec.Command(os.Args[0], "check", "-property", prop, "-tier", "quick")
	cmd.Env = append(os.Environ(), "VERIF_REPO="+tree, "VERIF_EVIDENCE_DIR="+ev, "VERIF_NO_SELFTEST=1")
	out, _ := cmd.CombinedOutput()
	for _, line := range strings.Split(string(out), "\n") {
		if strings.HasPrefix(line, "VIOLATED ") || strings.HasPrefix(line, "UNDECIDED ") {
			f := strings.Fields(line)
			if len(f) > 1 {
				res.Keys = append(res.Keys, strings.Join(f[1:], " "))
			}
		}
		if strings.HasPrefix(line, "ERROR ") {
			res.Detail = line
		}
	}
	if len(res.Keys) > 0 {
		res.Outcome = "fired"
	} else if res.Detail != "" {
		res.Outcome = "fired"
		res.Keys = []string{res.Detail}
	} else {
		res.Outcome = "silent"
	}
	return res
}

// runNeutral applies a behaviour-preserving patch and runs every claimed property's check.
func runNeutral(id string) []string {
	tmp, err := os.MkdirTemp("", "tiverif-neutral-")
	if err != nil {
		return []string{err.Error()}
	}
	defer os.RemoveAll(tmp)
	tree := filepath.Join(tmp, "tree")
	os.MkdirAll(tree, 0o755)
	if err := copyTree(tree); err != nil {
		return []string{err.Error()}
	}
	ap := exec.Command("patch", "-p1", "--no-backup-if-mismatch", "-s", "-i", filepath.Join(verifDir(), "neutral", id, "patch.diff"))
	ap.Dir = tree
	if out, err := ap.CombinedOutput(); err != nil {
		return nil // written for an older tree: nothing to say
		_ = out
	}
	var fired []string
	var mu sync.Mutex
	var wg sync.WaitGroup
	sem := make(chan struct{}, 6)
	for _, prop := range propertyIDs() {
		wg.Add(1)
		go func(prop string) {
			defer wg.Done()
			sem <- struct{}{}
			defer func() { <-sem }()
			cmd := exec.Command(os.Args[0], "check", "-property", prop, "-tier", "quick")
			cmd.Env = append(os.Environ(), "VERIF_REPO="+tree, "VERIF_EVIDENCE_DIR="+filepath.Join(tmp, "ev-"+prop), "VERIF_NO_SELFTEST=1")
			out, _ := cmd.CombinedOutput()
			for _, line := range strings.Split(string(out), "\n") {
				if strings.HasPrefix(line, "VIOLATED ") || strings.HasPrefix(line, "UNDECIDED ") || strings.HasPrefix(line, "ERROR ") {
					mu.Lock()
					fired = append(fired, prop+": "+line)
					mu.Unlock()
				}
			}
		}(prop)
	}
	wg.Wait()
	sort.Strings(fired)
	return fired
}

func runSeededFor(prop string) []seededResult {
	metas, err := loadSeeded()
	if err != nil {
		return []seededResult{{ID: "-", Property: prop, Outcome: "error", Detail: err.Error()}}
	}
	var todo []seededMeta
	for _, m := range metas {
		for _, p := range m.Properties {
			if p == prop {
				todo = append(todo, m)
			}
		}
	}
	results := make([]seededResult, len(todo))
	sem := make(chan struct{}, 6)
	var wg sync.WaitGroup
	for i, m := range todo {
		wg.Add(1)
		go func(i int, m seededMeta) {
			defer wg.Done()
			sem <- struct{}{}
			defer func() { <-sem }()
			results[i] = runSeeded(m, prop)
		}(i, m)
	}
	wg.Wait()
	return results
}

func thoroughExtras(w *World, prop string, spec PropertySpec) ([]Obligation, []string) {
	var notes []string
	var obl []Obligation
	if os.Getenv("VERIF_NO_SELFTEST") != "" {
		return nil, nil
	}
	// (1) build-constraint coverage: a second load for another architecture must see the same functions
	if os.Getenv("VERIF_GOARCH") == "" {
		os.Setenv("VERIF_GOARCH", "386")
		w2, err := loadWorld(repoDir())
		os.Unsetenv("VERIF_GOARCH")
		if err != nil {
			obl = append(obl, Obligation{Rule: "COVER", Func: "-", Construct: "GOARCH=386 load", Verdict: Undecided, Detail: "the tree does not load for GOARCH=386: " + err.Error()})
		} else if len(w2.Funcs) != len(w.Funcs) {
			obl = append(obl, Obligation{Rule: "COVER", Func: "-", Construct: "GOARCH=386 load", Verdict: Undecided, Detail: fmt.Sprintf("build-constrained code escapes the analysis: %d functions for the default architecture, %d for 386", len(w.Funcs), len(w2.Funcs))})
		} else {
			obl = append(obl, Obligation{Rule: "COVER", Func: "-", Construct: "GOARCH=386 load", Verdict: Holds, Detail: fmt.Sprintf("the same %d functions are analysed for amd64 and 386: no build-constrained file escapes", len(w.Funcs))})
		}
	}
	// (1b) C01: the compiler as an independent enumerator of indexing sites. Every bounds check
	// the Go compiler cannot eliminate in the packages of ti (inlining off, so that positions
	// are the expression's own) must be a site of engine IX or IV, or a stated exemption.
	if prop == "C01" {
		o := compilerBoundsCrossCheck(w)
		obl = append(obl, o)
	}
	// (2) seeded variants of this property: does the check fire on them?
	rs := runSeededFor(prop)
	fired, silent := 0, 0
	for _, r := range rs {
		switch r.Outcome {
		case "fired":
			fired++
		case "silent":
			silent++
		}
		b, _ := json.Marshal(r)
		notes = append(notes, "seeded "+string(b))
	}
	notes = append(notes, fmt.Sprintf("seeded variants for %s: %d applied, %d fired, %d silent (silent ones are listed in DESIGN.md as out of reach of the static clause)", prop, len(rs), fired, silent))
	return obl, notes
}

func cmdSelftest(args []string) int {
	fs := flag.NewFlagSet("selftest", flag.ExitOnError)
	prop := fs.String("property", "", "only variants of this property")
	fs.Parse(args)
	metas, err := loadSeeded()
	if err != nil {
		fmt.Println("ERROR", err)
		return 1
	}
	bad := 0
	for _, m := range metas {
		for _, p := range m.Properties {
			if *prop != "" && p != *prop {
				continue
			}
			if _, claimed := properties[p]; !claimed {
				fmt.Printf("%-28s %s  not claimed\n", m.ID, p)
				continue
			}
			r := runSeeded(m, p)
			exp := m.Status
			mark := "ok"
			if (exp == "caught" && r.Outcome != "fired") || (exp == "missed" && r.Outcome == "fired") {
				mark = "MISMATCH(meta says " + exp + ")"
				bad++
			}
			fmt.Printf("%-28s %s  %-8s %s %s\n", m.ID, p, r.Outcome, mark, strings.Join(r.Keys, " ; "))
			if r.Detail != "" && r.Outcome != "fired" {
				fmt.Println("     ", r.Detail)
			}
		}
	}
	// neutral variants: behaviour-preserving refactorings (written by sub-agents asked for a
	// tidy-up commit, golden suite and differential runs unchanged): no check may report
	// anything on them
	if *prop == "" || *prop == "neutral" {
		ents, _ := os.ReadDir(filepath.Join(verifDir(), "neutral"))
		for _, e := range ents {
			if !e.IsDir() {
				continue
			}
			fired := runNeutral(e.Name())
			mark := "ok"
			if len(fired) > 0 {
				mark = "FALSE-ALARM"
				bad++
			}
			fmt.Printf("%-28s %s  %-8s %s %s\n", "neutral/"+e.Name(), "all", map[bool]string{true: "fired", false: "silent"}[len(fired) > 0], mark, strings.Join(fired, " ; "))
		}
	}
	if bad > 0 {
		return 1
	}
	return 0
}

func compilerBoundsCrossCheck(w *World) Obligation {
	o := Obligation{Rule: "COVER", Func: "-", Construct: "compiler bounds checks ⊆ IX ∪ IV sites"}
	cmd := exec.Command("go", "build", "-gcflags=all=-l -d=ssa/check_bce/debug=1", "./...")
	cmd.Dir = repoDir()
	cmd.Env = append(os.Environ(), "GOFLAGS=-mod=mod", "GOWORK=off")
	out, _ := cmd.CombinedOutput()
	re := regexp.MustCompile(`(?m)^(?:\./)?([A-Za-z0-9_/.-]+\.go):(\d+):\d+: Found Is(?:Slice)?InBounds`)
	comp := map[string]bool{}
	for _, m := range re.FindAllStringSubmatch(string(out), -1) {
		f := m[1]
		if strings.HasPrefix(f, "cmd/c2json/") || strings.HasPrefix(f, "cmd/rbs2json/") || strings.HasPrefix(f, "/") {
			continue
		}
		comp[f+":"+m[2]] = true
	}
	if len(comp) < 20 {
		o.Verdict = Undecided
		o.Detail = fmt.Sprintf("the compiler listing could not be produced (%d sites parsed): %s", len(comp), firstLine(string(out)))
		return o
	}
	have := map[string]bool{}
	for _, name := range []string{"IX", "IV"} {
		for _, ob := range engines[name](w, "quick").Obligations {
			have[ob.Pos] = true
		}
	}
	var missing []string
	for k := range comp {
		if have[k] {
			continue
		}
		missing = append(missing, k)
	}
	sort.Strings(missing)
	// stated exemption: positions handed to the less function of sort.Slice
	var left []string
	for _, k := range missing {
		if exemptSortLess(w, k) {
			continue
		}
		left = append(left, k)
	}
	if len(left) == 0 {
		o.Verdict = Holds
		o.Detail = fmt.Sprintf("all %d bounds checks the compiler keeps in the packages of ti (go build -gcflags=all=-l -d=ssa/check_bce) are sites of IX / IV (%d exempt: less functions of sort.Slice)", len(comp), len(missing)-len(left))
	} else {
		o.Verdict = Undecided
		o.Detail = "indexing sites the compiler cannot prove and neither IX nor IV enumerates: " + strings.Join(left, ", ")
	}
	return o
}

func firstLine(s string) string {
	if i := strings.IndexByte(s, '\n'); i >= 0 {
		return s[:i]
	}
	return s
}

func exemptSortLess(w *World, pos string) bool {
	for _, fn := range w.Funcs {
		if fn.Parent() == nil {
			continue
		}
		for _, b := range fn.Blocks {
			for _, ins := range b.Instrs {
				if w.pos(instrPos(ins)) != pos {
					continue
				}
				var site ivSite
				switch x := ins.(type) {
				case *ssa.IndexAddr:
					site = ivSite{ins: x, base: x.X, what: "index", idx: x.Index}
				case *ssa.Index:
					site = ivSite{ins: x, base: x.X, what: "index", idx: x.Index}
				default:
					continue
				}
				if sortLessIndex(fn, site) {
					return true
				}
			}
		}
	}
	return false
}
