package main

// Self-test both ways: seeded breaking variants (under /verif/seeded/<id>/) are applied to
// a scratch copy of /repo's working tree and the checks of the property they break are
// run on the copy. The outcome describes the checker, not the tree: it never produces a
// VIOLATION line for the property being checked.

import (
	"encoding/json"
	"flag"
	"fmt"
	"os"
	"os/exec"
	"path/filepath"
	"sort"
	"strings"
	"sync"
)

type seededMeta struct {
	ID         string   `json:"id"`
	Properties []string `json:"properties"`
	Breaks     string   `json:"breaks"`
	Needs      string   `json:"needs"`
	Origin     string   `json:"origin"`
	ExpectRule []string `json:"expect_rules"` // rule prefixes expected to fire (empty: any new violation)
	Status     string   `json:"status"`       // "caught" | "missed" | "out-of-reach"
	Note       string   `json:"note"`
}

type seededResult struct {
	ID       string   `json:"id"`
	Property string   `json:"property"`
	Outcome  string   `json:"outcome"` // fired | silent | not-applicable-on-this-tree | error
	Keys     []string `json:"violations,omitempty"`
	Detail   string   `json:"detail,omitempty"`
}

func loadSeeded() ([]seededMeta, error) {
	dirs, _ := filepath.Glob(filepath.Join(verifDir(), "seeded", "*", "meta.json"))
	sort.Strings(dirs)
	var out []seededMeta
	for _, d := range dirs {
		b, err := os.ReadFile(d)
		if err != nil {
			return nil, err
		}
		var m seededMeta
		if err := json.Unmarshal(b, &m); err != nil {
			return nil, fmt.Errorf("%s: %v", d, err)
		}
		if m.ID == "" {
			m.ID = filepath.Base(filepath.Dir(d))
		}
		out = append(out, m)
	}
	return out, nil
}

func copyTree(dst string) error {
	cmd := exec.Command("rsync", "-a", "--exclude", ".git", "--exclude", "/test", "--exclude", "/ti", "--exclude", "/image", "--exclude", "/docs", "--exclude", "/example", repoDir()+"/", dst+"/")
	out, err := cmd.CombinedOutput()
	if err != nil {
		return fmt.Errorf("rsync: %v: %s", err, out)
	}
	// the loader reads shipped configuration files of the tree (REG-names): keep test/.ti-config
	os.MkdirAll(filepath.Join(dst, "test"), 0o755)
	exec.Command("rsync", "-a", filepath.Join(repoDir(), "test", ".ti-config"), filepath.Join(dst, "test")+"/").Run()
	return nil
}

// runSeeded applies one seeded patch to a scratch copy and runs the property's check there.
func runSeeded(m seededMeta, prop string) seededResult {
	res := seededResult{ID: m.ID, Property: prop}
	tmp, err := os.MkdirTemp("", "tiverif-selftest-")
	if err != nil {
		res.Outcome, res.Detail = "error", err.Error()
		return res
	}
	defer os.RemoveAll(tmp)
	tree := filepath.Join(tmp, "tree")
	ev := filepath.Join(tmp, "evidence")
	os.MkdirAll(tree, 0o755)
	if err := copyTree(tree); err != nil {
		res.Outcome, res.Detail = "error", err.Error()
		return res
	}
	patch := filepath.Join(verifDir(), "seeded", m.ID, "patch.diff")
	ap := exec.Command("patch", "-p1", "--no-backup-if-mismatch", "-s", "-i", patch)
	ap.Dir = tree
	if out, err := ap.CombinedOutput(); err != nil {
		res.Outcome, res.Detail = "not-applicable-on-this-tree", "patch does not apply: "+strings.TrimSpace(string(out))
		return res
	}
	cmd := exec.Command(os.Args[0], "check", "-property", prop, "-tier", "quick")
	cmd.Env = append(os.Environ(), "VERIF_REPO="+tree, "VERIF_EVIDENCE_DIR="+ev, "VERIF_NO_SELFTEST=1")
	out, _ := cmd.CombinedOutput()
	for _, line := range strings.Split(string(out), "\n") {
		if strings.HasPrefix(line, "VIOLATED ") || strings.HasPrefix(line, "UNDECIDED ") {
			f := strings.Fields(line)
			if len(f) > 1 {
				res.Keys = append(res.Keys, strings.Join(f[1:], " "))
			}
		}
		if strings.HasPrefix(line, "ERROR ") {
			res.Detail = line
		}
	}
	if len(res.Keys) > 0 {
		res.Outcome = "fired"
	} else if res.Detail != "" {
		res.Outcome = "fired"
		res.Keys = []string{res.Detail}
	} else {
		res.Outcome = "silent"
	}
	return res
}

func runSeededFor(prop string) []seededResult {
	metas, err := loadSeeded()
	if err != nil {
		return []seededResult{{ID: "-", Property: prop, Outcome: "error", Detail: err.Error()}}
	}
	var todo []seededMeta
	for _, m := range metas {
		for _, p := range m.Properties {
			if p == prop {
				todo = append(todo, m)
			}
		}
	}
	results := make([]seededResult, len(todo))
	sem := make(chan struct{}, 6)
	var wg sync.WaitGroup
	for i, m := range todo {
		wg.Add(1)
		go func(i int, m seededMeta) {
			defer wg.Done()
			sem <- struct{}{}
			defer func() { <-sem }()
			results[i] = runSeeded(m, prop)
		}(i, m)
	}
	wg.Wait()
	return results
}

func thoroughExtras(w *World, prop string, spec PropertySpec) ([]Obligation, []string) {
	var notes []string
	var obl []Obligation
	if os.Getenv("VERIF_NO_SELFTEST") != "" {
		return nil, nil
	}
	// (1) build-constraint coverage: a second load for another architecture must see the same functions
	if os.Getenv("VERIF_GOARCH") == "" {
		os.Setenv("VERIF_GOARCH", "386")
		w2, err := loadWorld(repoDir())
		os.Unsetenv("VERIF_GOARCH")
		if err != nil {
			obl = append(obl, Obligation{Rule: "COVER", Func: "-", Construct: "GOARCH=386 load", Verdict: Undecided, Detail: "the tree does not load for GOARCH=386: " + err.Error()})
		} else if len(w2.Funcs) != len(w.Funcs) {
			obl = append(obl, Obligation{Rule: "COVER", Func: "-", Construct: "GOARCH=386 load", Verdict: Undecided, Detail: fmt.Sprintf("build-constrained code escapes the analysis: %d functions for the default architecture, %d for 386", len(w.Funcs), len(w2.Funcs))})
		} else {
			obl = append(obl, Obligation{Rule: "COVER", Func: "-", Construct: "GOARCH=386 load", Verdict: Holds, Detail: fmt.Sprintf("the same %d functions are analysed for amd64 and 386: no build-constrained file escapes", len(w.Funcs))})
		}
	}
	// (2) seeded variants of this property: does the check fire on them?
	rs := runSeededFor(prop)
	fired, silent := 0, 0
	for _, r := range rs {
		switch r.Outcome {
		case "fired":
			fired++
		case "silent":
			silent++
		}
		b, _ := json.Marshal(r)
		notes = append(notes, "seeded "+string(b))
	}
	notes = append(notes, fmt.Sprintf("seeded variants for %s: %d applied, %d fired, %d silent (silent ones are listed in DESIGN.md as out of reach of the static clause)", prop, len(rs), fired, silent))
	return obl, notes
}

func cmdSelftest(args []string) int {
	fs := flag.NewFlagSet("selftest", flag.ExitOnError)
	prop := fs.String("property", "", "only variants of this property")
	fs.Parse(args)
	metas, err := loadSeeded()
	if err != nil {
		fmt.Println("ERROR", err)
		return 1
	}
	bad := 0
	for _, m := range metas {
		for _, p := range m.Properties {
			if *prop != "" && p != *prop {
				continue
			}
			if _, claimed := properties[p]; !claimed {
				fmt.Printf("%-28s %s  not claimed\n", m.ID, p)
				continue
			}
			r := runSeeded(m, p)
			exp := m.Status
			mark := "ok"
			if (exp == "caught" && r.Outcome != "fired") || (exp == "missed" && r.Outcome == "fired") {
				mark = "MISMATCH(meta says " + exp + ")"
				bad++
			}
			fmt.Printf("%-28s %s  %-8s %s %s\n", m.ID, p, r.Outcome, mark, strings.Join(r.Keys, " ; "))
			if r.Detail != "" && r.Outcome != "fired" {
				fmt.Println("     ", r.Detail)
			}
		}
	}
	if bad > 0 {
		return 1
	}
	return 0
}
