package main

// MO — nothing printed may depend on Go map iteration order.

import (
	"fmt"
	"go/ast"
	"go/token"
	"go/types"
	"sort"
	"strings"

	"golang.org/x/tools/go/packages"
	"golang.org/x/tools/go/types/typeutil"
)

type moLeak struct {
	kind   string // print, append, concat, store, return, break, call, dynamic
	detail string
	pos    token.Pos
	obj    types.Object // appended/stored variable
}

type moCtx struct {
	w    *World
	pkg  *packages.Package
	info *types.Info
	body *ast.BlockStmt // range body
	rng  *ast.RangeStmt
	leaks []moLeak
	notes []string
}

func (c *moCtx) outer(obj types.Object) bool {
	if obj == nil {
		return false
	}
	return !(c.rng.Pos() <= obj.Pos() && obj.Pos() <= c.rng.End())
}

func rootIdent(e ast.Expr) *ast.Ident {
	for {
		switch x := e.(type) {
		case *ast.Ident:
			return x
		case *ast.SelectorExpr:
			e = x.X
		case *ast.IndexExpr:
			e = x.X
		case *ast.StarExpr:
			e = x.X
		case *ast.ParenExpr:
			e = x.X
		default:
			return nil
		}
	}
}

func isConstExpr(info *types.Info, e ast.Expr) bool {
	if tv, ok := info.Types[e]; ok && tv.Value != nil {
		return true
	}
	if id, ok := e.(*ast.Ident); ok && (id.Name == "true" || id.Name == "false" || id.Name == "nil") {
		return true
	}
	return false
}

func (c *moCtx) leak(kind, detail string, pos token.Pos, obj types.Object) {
	c.leaks = append(c.leaks, moLeak{kind, detail, pos, obj})
}

// stmts classifies statements of the range body. loopDepth counts enclosing inner
// for/switch/select statements (a bare break inside them does not leave the map loop).
func (c *moCtx) stmts(list []ast.Stmt, inner int, guard ast.Expr) {
	for _, s := range list {
		c.stmt(s, inner, guard)
	}
}

func (c *moCtx) stmt(s ast.Stmt, inner int, guard ast.Expr) {
	switch x := s.(type) {
	case nil:
	case *ast.BlockStmt:
		c.stmts(x.List, inner, guard)
	case *ast.ExprStmt:
		c.expr(x.X)
	case *ast.DeclStmt:
		ast.Inspect(x, func(n ast.Node) bool {
			if e, ok := n.(ast.Expr); ok {
				c.expr(e)
				return false
			}
			return true
		})
	case *ast.IncDecStmt:
		// counters are commutative reductions
		c.expr(x.X)
	case *ast.AssignStmt:
		for _, r := range x.Rhs {
			c.expr(r)
		}
		for i, l := range x.Lhs {
			c.assign(x, l, i, guard)
		}
	case *ast.IfStmt:
		c.stmt(x.Init, inner, guard)
		c.expr(x.Cond)
		c.stmts(x.Body.List, inner, x.Cond)
		c.stmt(x.Else, inner, x.Cond)
	case *ast.ForStmt:
		c.stmt(x.Init, inner+1, guard)
		if x.Cond != nil {
			c.expr(x.Cond)
		}
		c.stmt(x.Post, inner+1, guard)
		c.stmts(x.Body.List, inner+1, guard)
	case *ast.RangeStmt:
		c.expr(x.X)
		c.stmts(x.Body.List, inner+1, guard)
	case *ast.SwitchStmt:
		c.stmt(x.Init, inner, guard)
		if x.Tag != nil {
			c.expr(x.Tag)
		}
		for _, cc := range x.Body.List {
			cl := cc.(*ast.CaseClause)
			for _, e := range cl.List {
				c.expr(e)
			}
			c.stmts(cl.Body, inner+1, guard)
		}
	case *ast.TypeSwitchStmt:
		for _, cc := range x.Body.List {
			c.stmts(cc.(*ast.CaseClause).Body, inner+1, guard)
		}
	case *ast.ReturnStmt:
		allConst := true
		for _, r := range x.Results {
			c.expr(r)
			if !isConstExpr(c.info, r) {
				allConst = false
			}
		}
		if !allConst {
			c.leak("return", "returns a value chosen by the first matching element in map order", x.Pos(), nil)
		} else {
			c.leak("exit", "leaves the loop at the first matching element (what ran before depends on map order)", x.Pos(), nil)
		}
	case *ast.BranchStmt:
		if x.Tok == token.BREAK && (inner == 0 || x.Label != nil) {
			c.leak("exit", "break at the first matching element in map order", x.Pos(), nil)
		}
		if x.Tok == token.GOTO {
			c.leak("exit", "goto out of a map range", x.Pos(), nil)
		}
	case *ast.DeferStmt:
		c.leak("call", "defer inside a map range runs in reverse map order", x.Pos(), nil)
	case *ast.GoStmt:
		c.leak("call", "go statement inside a map range", x.Pos(), nil)
	case *ast.LabeledStmt:
		c.stmt(x.Stmt, inner, guard)
	case *ast.SendStmt:
		c.leak("store", "channel send in map order", x.Pos(), nil)
	default:
		c.leak("store", fmt.Sprintf("unrecognised statement %T", s), s.Pos(), nil)
	}
}

func (c *moCtx) assign(as *ast.AssignStmt, l ast.Expr, i int, guard ast.Expr) {
	if id, ok := l.(*ast.Ident); ok && id.Name == "_" {
		return
	}
	// keyed store into a map
	if ix, ok := l.(*ast.IndexExpr); ok {
		if _, isMap := c.info.TypeOf(ix.X).Underlying().(*types.Map); isMap {
			return
		}
	}
	root := rootIdent(l)
	if root == nil {
		c.leak("store", "store through an expression the engine cannot root", l.Pos(), nil)
		return
	}
	obj := c.info.ObjectOf(root)
	if as.Tok == token.DEFINE && !c.outer(obj) {
		return
	}
	if !c.outer(obj) {
		return // local to one iteration
	}
	// outer variable
	var rhs ast.Expr
	if len(as.Rhs) == len(as.Lhs) {
		rhs = as.Rhs[i]
	}
	t := c.info.TypeOf(l)
	switch as.Tok {
	case token.ADD_ASSIGN, token.SUB_ASSIGN, token.MUL_ASSIGN, token.OR_ASSIGN, token.AND_ASSIGN, token.XOR_ASSIGN:
		if b, ok := t.Underlying().(*types.Basic); ok && b.Info()&types.IsString != 0 {
			c.leak("concat", "string concatenation onto outer variable "+root.Name+" in map order", l.Pos(), obj)
		}
		return // numeric reductions commute
	}
	if rhs != nil {
		if call, ok := rhs.(*ast.CallExpr); ok {
			if fid, ok := call.Fun.(*ast.Ident); ok && fid.Name == "append" && len(call.Args) > 0 {
				if ar := rootIdent(call.Args[0]); ar != nil && c.info.ObjectOf(ar) == obj && types.ExprString(call.Args[0]) == types.ExprString(l) {
					c.leak("append", "append to outer slice "+types.ExprString(l)+" in map order", l.Pos(), obj)
					return
				}
			}
		}
		if isConstExpr(c.info, rhs) {
			return // idempotent flag
		}
		// max/min reduction: if a OP x { x = a }
		if be, ok := guard.(*ast.BinaryExpr); ok {
			switch be.Op {
			case token.GTR, token.LSS, token.GEQ, token.LEQ:
				ls, rs := types.ExprString(be.X), types.ExprString(be.Y)
				le, re := types.ExprString(l), types.ExprString(rhs)
				if (ls == le && rs == re) || (ls == re && rs == le) {
					return
				}
			}
		}
	}
	c.leak("store", "store to outer variable "+types.ExprString(l)+" whose final value depends on map order", l.Pos(), obj)
}

// expr looks for calls with order-leaking effects.
func (c *moCtx) expr(e ast.Expr) {
	ast.Inspect(e, func(n ast.Node) bool {
		switch x := n.(type) {
		case *ast.FuncLit:
			return false
		case *ast.CallExpr:
			c.call(x)
		}
		return true
	})
}

func (c *moCtx) call(call *ast.CallExpr) {
	if tv, ok := c.info.Types[call.Fun]; ok && tv.IsType() {
		return // conversion
	}
	callee := typeutil.Callee(c.info, call)
	if callee == nil {
		c.leak("dynamic", "call through a function value: effects unknown", call.Pos(), nil)
		return
	}
	if _, ok := callee.(*types.Builtin); ok {
		return
	}
	fn, ok := callee.(*types.Func)
	if !ok {
		return
	}
	if fn.Pkg() == nil {
		return
	}
	if recv := fn.Type().(*types.Signature).Recv(); recv != nil {
		if _, isIface := recv.Type().Underlying().(*types.Interface); isIface {
			c.leak("dynamic", "interface method call "+fn.Name()+": effects unknown", call.Pos(), nil)
			return
		}
	}
	if !inModule(fn.Pkg().Path()) {
		p := fn.Pkg().Path()
		if p == "fmt" && (strings.HasPrefix(fn.Name(), "Print") || strings.HasPrefix(fn.Name(), "Fprint")) || p == "log" {
			c.leak("print", fn.Pkg().Name()+"."+fn.Name()+" inside the map range", call.Pos(), nil)
		}
		if p == "os" && fn.Name() == "Exit" {
			c.leak("exit", "os.Exit inside the map range", call.Pos(), nil)
		}
		return
	}
	sf := c.w.fnOfObj(fn)
	if sf == nil {
		return
	}
	eff := c.w.Effects().Of(sf)
	if eff.prints {
		c.leak("print", "call of "+fnKey(sf)+" prints ("+eff.printVia+")", call.Pos(), nil)
	}
	if len(eff.globalStores) > 0 {
		c.leak("store", "call of "+fnKey(sf)+" stores to package-level "+strings.Join(sortedKeys(eff.globalStores), ","), call.Pos(), nil)
	}
	if len(eff.mapUpdates) > 0 {
		c.notes = append(c.notes, "call of "+fnKey(sf)+" updates keyed tables "+strings.Join(sortedKeys(eff.mapUpdates), ",")+" (assumed: distinct source keys give distinct target keys)")
	}
}

type funcCtx struct {
	pkg  *packages.Package
	decl *ast.FuncDecl
}

func (w *World) eachFuncDecl(f func(p *packages.Package, d *ast.FuncDecl)) {
	for _, p := range w.Pkgs {
		for _, file := range p.Syntax {
			for _, d := range file.Decls {
				if fd, ok := d.(*ast.FuncDecl); ok && fd.Body != nil {
					f(p, fd)
				}
			}
		}
	}
}

func declKey(w *World, p *packages.Package, d *ast.FuncDecl) string {
	if obj, ok := p.TypesInfo.Defs[d.Name].(*types.Func); ok {
		if sf := w.SSAFunc(obj); sf != nil {
			return fnKey(sf)
		}
	}
	return p.PkgPath + "." + d.Name.Name
}

// defineOnlyFuncs: functions all of whose call paths from main.evaluationLoop start at a
// call guarded by the flag field that BuildFlags sets for "--define".
func defineOnlyFuncs(w *World) (map[string]bool, string) {
	cmdp := w.Pkg("cmd")
	mainp := w.Pkg("main")
	if cmdp == nil || mainp == nil {
		return nil, "packages cmd/main not found"
	}
	var field *types.Var
	for _, file := range cmdp.Syntax {
		ast.Inspect(file, func(n ast.Node) bool {
			ifs, ok := n.(*ast.IfStmt)
			if !ok {
				return true
			}
			call, ok := ifs.Cond.(*ast.CallExpr)
			if !ok || len(call.Args) != 1 {
				return true
			}
			if tv, ok := cmdp.TypesInfo.Types[call.Args[0]]; !ok || tv.Value == nil || tv.Value.ExactString() != `"--define"` {
				return true
			}
			for _, s := range ifs.Body.List {
				if as, ok := s.(*ast.AssignStmt); ok && len(as.Lhs) == 1 {
					if sel, ok := as.Lhs[0].(*ast.SelectorExpr); ok {
						if v, ok := cmdp.TypesInfo.ObjectOf(sel.Sel).(*types.Var); ok && v.IsField() {
							field = v
						}
					}
				}
			}
			return true
		})
	}
	// … or the direct form: flags.F = hasFlag("--define")
	if field == nil {
		for _, file := range cmdp.Syntax {
			ast.Inspect(file, func(n ast.Node) bool {
				as, ok := n.(*ast.AssignStmt)
				if !ok || len(as.Lhs) != 1 || len(as.Rhs) != 1 {
					return true
				}
				call, ok := ast.Unparen(as.Rhs[0]).(*ast.CallExpr)
				if !ok || len(call.Args) != 1 {
					return true
				}
				if tv, ok := cmdp.TypesInfo.Types[call.Args[0]]; !ok || tv.Value == nil || tv.Value.ExactString() != `"--define"` {
					return true
				}
				if sel, ok := as.Lhs[0].(*ast.SelectorExpr); ok {
					if v, ok := cmdp.TypesInfo.ObjectOf(sel.Sel).(*types.Var); ok && v.IsField() {
						field = v
					}
				}
				return true
			})
		}
	}
	if field == nil {
		return nil, "flag field for --define not resolved"
	}
	// call sites in package main guarded by that field
	guardedRoots := map[*types.Func]bool{}
	unguardedRoots := map[*types.Func]bool{}
	for _, file := range mainp.Syntax {
		var stack []ast.Node
		ast.Inspect(file, func(n ast.Node) bool {
			if n == nil {
				stack = stack[:len(stack)-1]
				return true
			}
			stack = append(stack, n)
			call, ok := n.(*ast.CallExpr)
			if !ok {
				return true
			}
			fn, ok := typeutil.Callee(mainp.TypesInfo, call).(*types.Func)
			if !ok || fn.Pkg() == nil || fn.Pkg().Path() != cmdp.PkgPath {
				return true
			}
			guarded := false
			for i := len(stack) - 2; i >= 0; i-- {
				if ifs, ok := stack[i].(*ast.IfStmt); ok {
					inBody := ifs.Body.Pos() <= call.Pos() && call.End() <= ifs.Body.End()
					if inBody {
						ast.Inspect(ifs.Cond, func(m ast.Node) bool {
							if sel, ok := m.(*ast.SelectorExpr); ok && mainp.TypesInfo.ObjectOf(sel.Sel) == field {
								// must be a positive conjunct: reject if under a "!" or "||"
								guarded = positiveConjunct(ifs.Cond, sel)
							}
							return true
						})
					}
				}
			}
			if guarded {
				guardedRoots[fn] = true
			} else {
				unguardedRoots[fn] = true
			}
			return true
		})
	}
	cg := w.CallGraph()
	reach := func(roots map[*types.Func]bool) map[string]bool {
		out := map[string]bool{}
		var visit func(f string)
		byKey := map[string]bool{}
		_ = byKey
		var stack []string
		for r := range roots {
			if sf := w.SSAFunc(r); sf != nil {
				stack = append(stack, fnKey(sf))
			}
		}
		_ = visit
		fnBy := map[string]bool{}
		for len(stack) > 0 {
			k := stack[len(stack)-1]
			stack = stack[:len(stack)-1]
			if fnBy[k] {
				continue
			}
			fnBy[k] = true
			out[k] = true
			sf := w.FuncByKey(k)
			if sf == nil {
				continue
			}
			if n := cg.Nodes[sf]; n != nil {
				for _, e := range n.Out {
					c := e.Callee.Func
					if c.Pkg != nil && inModule(c.Pkg.Pkg.Path()) {
						stack = append(stack, fnKey(c))
					}
				}
			}
		}
		return out
	}
	g := reach(guardedRoots)
	u := reach(unguardedRoots)
	// anything reachable from package main outside cmd roots (e.g. eval) is "unguarded" too
	for _, fn := range w.Funcs {
		if pkgShort(fn) != "cmd" && pkgShort(fn) != "main" {
			if n := cg.Nodes[fn]; n != nil {
				for _, e := range n.Out {
					c := e.Callee.Func
					if c.Pkg != nil && pkgShort(c) == "cmd" {
						for k := range reach(map[*types.Func]bool{}) {
							_ = k
						}
						u[fnKey(c)] = true
					}
				}
			}
		}
	}
	only := map[string]bool{}
	for k := range g {
		if !u[k] {
			only[k] = true
		}
	}
	return only, "flag field " + field.Name()
}

// positiveConjunct: sel occurs in cond only under && and parentheses.
func positiveConjunct(cond ast.Expr, sel ast.Expr) bool {
	switch x := cond.(type) {
	case *ast.ParenExpr:
		return positiveConjunct(x.X, sel)
	case *ast.BinaryExpr:
		if x.Op == token.LAND {
			return positiveConjunct(x.X, sel) || positiveConjunct(x.Y, sel)
		}
		return false
	default:
		return cond == sel
	}
}

func engineMO(w *World, tier string) *EngineResult {
	r := newResult("MO", "every range over a map is classified by the effects of its body: commutative (delete, keyed map store, counters, max/min, constant flags, calls whose transitive effects are keyed-table updates only) or order-leaking (append/concat/store to an outer variable, print, early exit, call that prints or stores to a package-level variable). An order-leaking append is repaired only if the slice is sorted, before any other use, by a total order on distinct map entries (basic-type sort, or a comparator reading every field the map key is a function of). Direct printing in map order is allowed only in functions reachable solely through the --define flag (whose output the property defines as a set)")
	defOnly, how := defineOnlyFuncs(w)
	r.Notes = append(r.Notes, "define-only functions ("+how+"): "+strings.Join(sortedKeys(defOnly), ", "))
	n := 0
	w.eachFuncDecl(func(p *packages.Package, d *ast.FuncDecl) {
		info := p.TypesInfo
		fkey := declKey(w, p, d)
		var blocks []*ast.BlockStmt
		ast.Inspect(d.Body, func(nd ast.Node) bool {
			if b, ok := nd.(*ast.BlockStmt); ok {
				blocks = append(blocks, b)
			}
			return true
		})
		ast.Inspect(d.Body, func(nd ast.Node) bool {
			// maps package helpers that expose iteration order
			if call, ok := nd.(*ast.CallExpr); ok {
				if fn, ok := typeutil.Callee(info, call).(*types.Func); ok && fn.Pkg() != nil && fn.Pkg().Path() == "maps" {
					switch fn.Name() {
					case "Keys", "Values", "All", "Collect":
						n++
						r.undecided("MO", fkey, "maps."+fn.Name(), "iteration-order exposing helper of package maps: not analysed", w.pos(call.Pos()))
					}
				}
			}
			rs, ok := nd.(*ast.RangeStmt)
			if !ok {
				return true
			}
			if _, isMap := info.TypeOf(rs.X).Underlying().(*types.Map); !isMap {
				return true
			}
			n++
			construct := "range " + types.ExprString(rs.X)
			pos := w.pos(rs.Pos())
			c := &moCtx{w: w, pkg: p, info: info, body: rs.Body, rng: rs}
			c.stmts(rs.Body.List, 0, nil)
			var remaining []moLeak
			var repaired []string
			for _, lk := range c.leaks {
				if lk.kind == "append" && lk.obj != nil {
					ok, why := sortedAfter(w, p, d, blocks, rs, lk.obj)
					if ok {
						repaired = append(repaired, why)
						continue
					}
					lk.detail += "; " + why
				}
				remaining = append(remaining, lk)
			}
			if len(remaining) == 0 {
				detail := "commutative body"
				if len(repaired) > 0 {
					detail = "order-leaking append repaired: " + strings.Join(repaired, "; ")
				}
				if len(c.notes) > 0 {
					detail += " [" + strings.Join(dedupe(c.notes), "; ") + "]"
				}
				r.holds("MO", fkey, construct, detail, pos)
				return true
			}
			// direct printing allowed in define-only functions
			allPrintOrExit := true
			for _, lk := range remaining {
				if lk.kind != "print" {
					allPrintOrExit = false
				}
			}
			if allPrintOrExit && defOnly[fkey] {
				r.holds("MO", fkey, construct, "prints in map order, but the function is reachable only through the --define flag whose output is specified as an unordered set", pos)
				return true
			}
			var ds []string
			for _, lk := range remaining {
				ds = append(ds, lk.kind+": "+lk.detail+" @"+w.pos(lk.pos))
			}
			verdict := Violated
			for _, lk := range remaining {
				if lk.kind == "dynamic" {
					verdict = Undecided
				}
			}
			r.add(Obligation{Rule: "MO", Func: fkey, Construct: construct, Verdict: verdict, Detail: strings.Join(ds, " | "), Pos: pos})
			return true
		})
	})
	// a package without a range over a map satisfies the rule trivially; say so explicitly,
	// so that a property claimed for that package alone does not fail for want of sites
	perPkg := map[string]int{}
	for _, o := range r.Obligations {
		if i := strings.LastIndex(o.Func, "."); i > 0 {
			pk := o.Func[:i]
			if j := strings.Index(pk, ".("); j > 0 {
				pk = pk[:j]
			}
			perPkg[pk]++
		}
	}
	for _, p := range w.Pkgs {
		short := strings.TrimPrefix(p.PkgPath, modulePath+"/")
		if p.PkgPath == modulePath {
			short = "main"
		}
		if perPkg[short] == 0 {
			r.holds("MO", short+".(package)", "ranges over maps", "none: no statement of this package ranges over a map", "-")
		}
	}
	r.Stats["map_ranges"] = n
	r.Stats["define_only_functions"] = len(defOnly)
	r.floor("map_ranges", 8)
	r.finish()
	return r
}

func dedupe(ss []string) []string {
	seen := map[string]bool{}
	var out []string
	for _, s := range ss {
		if !seen[s] {
			seen[s] = true
			out = append(out, s)
		}
	}
	return out
}

// sortedAfter: in the block that contains the range statement, the first later statement
// that mentions obj must be a sort of it by a total order.
func sortedAfter(w *World, p *packages.Package, d *ast.FuncDecl, blocks []*ast.BlockStmt, rs *ast.RangeStmt, obj types.Object) (bool, string) {
	info := p.TypesInfo
	var parent *ast.BlockStmt
	idx := -1
	for _, b := range blocks {
		for i, s := range b.List {
			if s == ast.Stmt(rs) {
				parent, idx = b, i
			}
		}
	}
	if parent == nil {
		return false, "enclosing block not found"
	}
	mentions := func(n ast.Node) bool {
		found := false
		ast.Inspect(n, func(m ast.Node) bool {
			if id, ok := m.(*ast.Ident); ok && info.ObjectOf(id) == obj {
				found = true
			}
			return !found
		})
		return found
	}
	onlyLen := func(n ast.Node) bool {
		// every mention of obj is the argument of len(): order-insensitive
		ok := true
		var stack []ast.Node
		ast.Inspect(n, func(m ast.Node) bool {
			if m == nil {
				stack = stack[:len(stack)-1]
				return true
			}
			stack = append(stack, m)
			if id, isID := m.(*ast.Ident); isID && info.ObjectOf(id) == obj {
				lenArg := false
				if len(stack) >= 2 {
					if call, isCall := stack[len(stack)-2].(*ast.CallExpr); isCall {
						if fid, isF := call.Fun.(*ast.Ident); isF && fid.Name == "len" && len(call.Args) == 1 && call.Args[0] == ast.Expr(id) {
							lenArg = true
						}
						if orderInsensitiveReduction(info, call, id) {
							lenArg = true
						}
					}
				}
				if !lenArg {
					ok = false
				}
			}
			return true
		})
		return ok
	}
	_, _ = mentions, onlyLen
	return sortedFrom(w, p, d, parent, idx, rs, obj, 0)
}

// sortedFrom: the first order-sensitive use of obj after statement idx of block parent is a
// sort by a total order — or obj is returned and every static caller sorts the result first.
func sortedFrom(w *World, p *packages.Package, d *ast.FuncDecl, parent *ast.BlockStmt, idx int, rs *ast.RangeStmt, obj types.Object, depth int) (bool, string) {
	info := p.TypesInfo
	mentions := func(n ast.Node) bool {
		found := false
		ast.Inspect(n, func(m ast.Node) bool {
			if id, ok := m.(*ast.Ident); ok && info.ObjectOf(id) == obj {
				found = true
			}
			return !found
		})
		return found
	}
	onlyLen := func(n ast.Node) bool {
		ok := true
		var stack []ast.Node
		ast.Inspect(n, func(m ast.Node) bool {
			if m == nil {
				stack = stack[:len(stack)-1]
				return true
			}
			stack = append(stack, m)
			if id, isID := m.(*ast.Ident); isID && info.ObjectOf(id) == obj {
				lenArg := false
				if len(stack) >= 2 {
					if call, isCall := stack[len(stack)-2].(*ast.CallExpr); isCall {
						if fid, isF := call.Fun.(*ast.Ident); isF && fid.Name == "len" && len(call.Args) == 1 && call.Args[0] == ast.Expr(id) {
							lenArg = true
						}
						if orderInsensitiveReduction(info, call, id) {
							lenArg = true
						}
					}
				}
				if !lenArg {
					ok = false
				}
			}
			return true
		})
		return ok
	}
	for _, s := range parent.List[idx+1:] {
		if !mentions(s) || onlyLen(s) {
			continue
		}
		if rt, isRet := s.(*ast.ReturnStmt); isRet && depth < 2 {
			// handed to the callers unsorted: each of them has to sort it before anything else
			ri := -1
			for i, res := range rt.Results {
				if id, ok := ast.Unparen(res).(*ast.Ident); ok && info.ObjectOf(id) == obj {
					ri = i
				}
			}
			if ri < 0 {
				return false, "returned inside an expression at " + w.pos(s.Pos())
			}
			fobj, _ := info.Defs[d.Name].(*types.Func)
			if fobj == nil {
				return false, "returned unsorted"
			}
			callers, good := 0, true
			why := ""
			w.eachFuncDecl(func(cp *packages.Package, cd *ast.FuncDecl) {
				var blocks []*ast.BlockStmt
				ast.Inspect(cd.Body, func(n ast.Node) bool {
					if b, ok := n.(*ast.BlockStmt); ok {
						blocks = append(blocks, b)
					}
					return true
				})
				for _, b := range blocks {
					for si, st := range b.List {
						as, ok := st.(*ast.AssignStmt)
						if !ok || len(as.Rhs) != 1 {
							continue
						}
						call, ok := ast.Unparen(as.Rhs[0]).(*ast.CallExpr)
						if !ok {
							continue
						}
						if cf, ok := typeutil.Callee(cp.TypesInfo, call).(*types.Func); !ok || cf != fobj {
							continue
						}
						callers++
						if ri >= len(as.Lhs) {
							good, why = false, "result dropped"
							continue
						}
						lid, ok := as.Lhs[ri].(*ast.Ident)
						if !ok {
							good, why = false, "result not bound to a variable in "+cd.Name.Name
							continue
						}
						ok2, w2 := sortedFrom(w, cp, cd, b, si, rs, cp.TypesInfo.ObjectOf(lid), depth+1)
						if !ok2 {
							good, why = false, "in caller "+cd.Name.Name+": "+w2
						} else {
							why = w2
						}
					}
				}
			})
			// calls that are not plain assignments
			total := 0
			w.eachFuncDecl(func(cp *packages.Package, cd *ast.FuncDecl) {
				ast.Inspect(cd.Body, func(n ast.Node) bool {
					if call, ok := n.(*ast.CallExpr); ok {
						if cf, ok := typeutil.Callee(cp.TypesInfo, call).(*types.Func); ok && cf == fobj {
							total++
						}
					}
					return true
				})
			})
			if callers == 0 || total != callers {
				return false, "returned in map order and not every call binds the result to a variable that is sorted first"
			}
			if !good {
				return false, "returned in map order; " + why
			}
			return true, "returned to the callers, each of which sorts it first (" + why + ")"
		}
		es, ok := s.(*ast.ExprStmt)
		if !ok {
			return false, "the first use after the loop (" + w.pos(s.Pos()) + ") is not a sort"
		}
		call, ok := es.X.(*ast.CallExpr)
		if !ok {
			return false, "the first use after the loop is not a sort call"
		}
		fn, ok := typeutil.Callee(info, call).(*types.Func)
		if !ok || fn.Pkg() == nil || len(call.Args) == 0 {
			return false, "the first use after the loop is not a sort call"
		}
		if id := rootIdent(call.Args[0]); id == nil || info.ObjectOf(id) != obj {
			return false, "the first use after the loop does not sort " + obj.Name()
		}
		full := fn.Pkg().Path() + "." + fn.Name()
		switch full {
		case "sort.Strings", "sort.Ints", "sort.Float64s", "slices.Sort":
			if sl, ok := obj.Type().Underlying().(*types.Slice); ok {
				if _, basic := sl.Elem().Underlying().(*types.Basic); basic {
					return true, obj.Name() + " sorted by " + full + " (total order on a basic type)"
				}
			}
			return false, full + " on a non-basic element type"
		case "slices.SortFunc", "slices.SortStableFunc", "sort.Slice", "sort.SliceStable":
			if len(call.Args) < 2 {
				return false, "comparator missing"
			}
			lit, ok := call.Args[1].(*ast.FuncLit)
			if !ok {
				return false, "comparator is not a function literal: not analysed"
			}
			return comparatorTotal(w, p, rs, obj, lit, full)
		}
		return false, "the first use after the loop (" + full + ") is not a recognised sort"
	}
	// every later mention was a length, a membership test or a minimum / maximum: nothing
	// depends on the order the elements were collected in
	used := false
	for _, s := range parent.List[idx+1:] {
		if mentions(s) {
			used = true
		}
	}
	if used {
		return true, obj.Name() + " is only used through order-insensitive reductions (len, slices.Contains, slices.Min/Max)"
	}
	return false, obj.Name() + " is never sorted after the loop"
}

// comparatorTotal: the comparator must read every field of the distinguishing field set
// of the map's value type (the fields the map key is a function of, derived from the
// function that stores into the map), or the elements are the map keys themselves.
func comparatorTotal(w *World, p *packages.Package, rs *ast.RangeStmt, obj types.Object, lit *ast.FuncLit, sortName string) (bool, string) {
	info := p.TypesInfo
	sl, ok := obj.Type().Underlying().(*types.Slice)
	if !ok {
		return false, "not a slice"
	}
	st, ok := sl.Elem().Underlying().(*types.Struct)
	if !ok {
		return false, "comparator sort on non-struct elements: not analysed"
	}
	// which map is ranged over: must be a package-level map variable
	var mapObj types.Object
	if id := rootIdent(rs.X); id != nil {
		mapObj = info.ObjectOf(id)
		if sel, ok := rs.X.(*ast.SelectorExpr); ok {
			mapObj = info.ObjectOf(sel.Sel)
		}
	}
	need, how := distinguishingFields(w, mapObj, st)
	if need == nil {
		return false, "distinguishing field set of the map not derivable: " + how
	}
	read := map[string]bool{}
	var collect func(pi *types.Info, body ast.Node, depth int)
	collect = func(pi *types.Info, body ast.Node, depth int) {
		ast.Inspect(body, func(n ast.Node) bool {
			switch x := n.(type) {
			case *ast.SelectorExpr:
				if v, ok := pi.ObjectOf(x.Sel).(*types.Var); ok && v.IsField() {
					read[v.Name()] = true
				}
			case *ast.CallExpr:
				// a helper of the module that compares the two elements (compareSigTail(a, b))
				if cf, ok := typeutil.Callee(pi, x).(*types.Func); ok && depth < 2 && cf.Pkg() != nil && inModule(cf.Pkg().Path()) {
					w.eachFuncDecl(func(cp *packages.Package, cd *ast.FuncDecl) {
						if cp.TypesInfo.Defs[cd.Name] == types.Object(cf) {
							collect(cp.TypesInfo, cd.Body, depth+1)
						}
					})
				}
			}
			return true
		})
	}
	collect(info, lit.Body, 0)
	var missing []string
	for _, f := range need {
		if !read[f] {
			missing = append(missing, f)
		}
	}
	if len(missing) > 0 {
		return false, fmt.Sprintf("comparator of %s ignores %s, on which the map key depends (%s): distinct entries can compare equal and keep map order", sortName, strings.Join(missing, ","), how)
	}
	return true, fmt.Sprintf("%s sorted by %s whose comparator reads all key-determining fields %v", obj.Name(), sortName, need)
}

// distinguishingFields finds the store M[key] = v of the package-level map M, where v is
// built by a composite literal of struct type st, and returns the fields whose
// initialisers use only variables the key expression depends on.
func distinguishingFields(w *World, mapObj types.Object, st *types.Struct) ([]string, string) {
	if mapObj == nil {
		return nil, "map is not a named variable"
	}
	var result []string
	how := "no store into " + mapObj.Name() + " with a composite-literal value found"
	w.eachFuncDecl(func(p *packages.Package, d *ast.FuncDecl) {
		info := p.TypesInfo
		ast.Inspect(d.Body, func(n ast.Node) bool {
			as, ok := n.(*ast.AssignStmt)
			if !ok || len(as.Lhs) != 1 || len(as.Rhs) != 1 {
				return true
			}
			ix, ok := as.Lhs[0].(*ast.IndexExpr)
			if !ok {
				return true
			}
			var mo types.Object
			switch x := ix.X.(type) {
			case *ast.Ident:
				mo = info.ObjectOf(x)
			case *ast.SelectorExpr:
				mo = info.ObjectOf(x.Sel)
			}
			if mo != mapObj {
				return true
			}
			// dependencies of the key
			// (field-sensitive for locals of struct type: `article.Frame` in the key makes
			// article.Frame a dependency, not every field of article)
			type depKey struct {
				obj   types.Object
				field string
			}
			deps := map[depKey]bool{}
			hasDep := func(o types.Object, field string) bool {
				return deps[depKey{o, field}] || deps[depKey{o, ""}]
			}
			anyDepOn := func(o types.Object) bool {
				for k := range deps {
					if k.obj == o {
						return true
					}
				}
				return false
			}
			var eachVar func(e ast.Node, f func(o types.Object, field string))
			eachVar = func(e ast.Node, f func(o types.Object, field string)) {
				ast.Inspect(e, func(m ast.Node) bool {
					switch x := m.(type) {
					case *ast.SelectorExpr:
						if id, ok := x.X.(*ast.Ident); ok {
							if o, ok := info.ObjectOf(id).(*types.Var); ok && !o.IsField() {
								if fo, ok := info.ObjectOf(x.Sel).(*types.Var); ok && fo.IsField() {
									f(o, x.Sel.Name)
									return false
								}
							}
						}
					case *ast.Ident:
						if o, ok := info.ObjectOf(x).(*types.Var); ok && !o.IsField() {
							f(o, "")
						}
					}
					return true
				})
			}
			var addDeps func(e ast.Expr)
			addDeps = func(e ast.Expr) {
				eachVar(e, func(o types.Object, field string) {
					if !hasDep(o, field) {
						deps[depKey{o, field}] = true
					}
				})
			}
			addDeps(ix.Index)
			// close over assignments to dependency variables in the function (with guards)
			for changed := true; changed; {
				changed = false
				var guards []ast.Expr
				var walk func(n ast.Node)
				walk = func(n ast.Node) {
					ast.Inspect(n, func(m ast.Node) bool {
						switch x := m.(type) {
						case *ast.IfStmt:
							guards = append(guards, x.Cond)
							walk(x.Body)
							guards = guards[:len(guards)-1]
							if x.Else != nil {
								guards = append(guards, x.Cond)
								walk(x.Else)
								guards = guards[:len(guards)-1]
							}
							if x.Init != nil {
								walk(x.Init)
							}
							return false
						case *ast.AssignStmt:
							for i, l := range x.Lhs {
								id, ok := l.(*ast.Ident)
								if !ok {
									continue
								}
								o := info.ObjectOf(id)
								if o == nil || !anyDepOn(o) {
									continue
								}
								before := len(deps)
								if len(x.Rhs) == len(x.Lhs) {
									addDeps(x.Rhs[i])
								} else {
									for _, r := range x.Rhs {
										addDeps(r)
									}
								}
								for _, g := range guards {
									addDeps(g)
								}
								if len(deps) != before {
									changed = true
								}
							}
						}
						return true
					})
				}
				walk(d.Body)
			}
			// the value's composite literal
			var lit *ast.CompositeLit
			switch v := as.Rhs[0].(type) {
			case *ast.CompositeLit:
				lit = v
			case *ast.Ident:
				vo := info.ObjectOf(v)
				ast.Inspect(d.Body, func(m ast.Node) bool {
					if a2, ok := m.(*ast.AssignStmt); ok {
						for i, l := range a2.Lhs {
							if id, ok := l.(*ast.Ident); ok && info.ObjectOf(id) == vo && i < len(a2.Rhs) {
								if cl, ok := a2.Rhs[i].(*ast.CompositeLit); ok {
									lit = cl
								}
							}
						}
					}
					return true
				})
			}
			if lit == nil {
				return true
			}
			if lt := info.TypeOf(lit); lt == nil || !types.Identical(lt.Underlying(), st) {
				return true
			}
			var fields []string
			for _, el := range lit.Elts {
				kv, ok := el.(*ast.KeyValueExpr)
				if !ok {
					continue
				}
				fid, ok := kv.Key.(*ast.Ident)
				if !ok {
					continue
				}
				// every variable of the initialiser must be a key dependency, and there must be one
				nvars, all := 0, true
				eachVar(kv.Value, func(o types.Object, field string) {
					nvars++
					if !hasDep(o, field) {
						all = false
					}
				})
				if nvars > 0 && all {
					fields = append(fields, fid.Name)
				}
			}
			// drop fields that are themselves derived FROM the key (they depend on the key,
			// not the other way round): a field whose initialiser mentions the key variable
			keyVars := map[types.Object]bool{}
			ast.Inspect(ix.Index, func(m ast.Node) bool {
				if id, ok := m.(*ast.Ident); ok {
					if o := info.ObjectOf(id); o != nil {
						keyVars[o] = true
					}
				}
				return true
			})
			var final []string
			for _, el := range lit.Elts {
				kv, ok := el.(*ast.KeyValueExpr)
				if !ok {
					continue
				}
				fid := kv.Key.(*ast.Ident)
				if !contains(fields, fid.Name) {
					continue
				}
				fromKey := false
				if id, ok := kv.Value.(*ast.Ident); ok {
					// document := Table[key]  — value looked up by the key
					vo := info.ObjectOf(id)
					ast.Inspect(d.Body, func(m ast.Node) bool {
						if a2, ok := m.(*ast.AssignStmt); ok && len(a2.Lhs) == 1 && len(a2.Rhs) == 1 {
							if l, ok := a2.Lhs[0].(*ast.Ident); ok && info.ObjectOf(l) == vo {
								if ix2, ok := a2.Rhs[0].(*ast.IndexExpr); ok {
									if kid := rootIdent(ix2.Index); kid != nil && keyVars[info.ObjectOf(kid)] {
										fromKey = true
									}
								}
							}
						}
						return true
					})
				}
				if !fromKey {
					final = append(final, fid.Name)
				}
			}
			sort.Strings(final)
			result = final
			how = "derived from the store in " + declKey(w, p, d)
			return true
		})
	})
	if result == nil {
		return nil, how
	}
	return result, how
}

func contains(ss []string, s string) bool {
	for _, x := range ss {
		if x == s {
			return true
		}
	}
	return false
}


// orderInsensitiveReduction: call is slices.Min / slices.Max over a slice of strings or
// integers, or slices.Contains, with id as the slice: the answer does not depend on the
// order of the elements.
func orderInsensitiveReduction(info *types.Info, call *ast.CallExpr, id *ast.Ident) bool {
	if len(call.Args) == 0 || call.Args[0] != ast.Expr(id) {
		return false
	}
	fn, _ := typeutil.Callee(info, call).(*types.Func)
	if fn == nil || fn.Pkg() == nil || fn.Pkg().Path() != "slices" {
		return false
	}
	switch fn.Name() {
	case "Contains":
		return true
	case "Min", "Max":
		if sl, ok := info.TypeOf(id).Underlying().(*types.Slice); ok {
			if b, ok := sl.Elem().Underlying().(*types.Basic); ok && b.Info()&(types.IsString|types.IsInteger) != 0 {
				return true
			}
		}
	}
	return false
}
