package main

// ORD — ordering and provenance rules on single functions.

import (
	"fmt"
	"go/ast"
	"go/types"
	"reflect"
	"sort"
	"strings"

	"golang.org/x/tools/go/packages"
	"golang.org/x/tools/go/callgraph"
	"golang.org/x/tools/go/ssa"
	"golang.org/x/tools/go/types/typeutil"
)

func engineORD(w *World, tier string) *EngineResult {
	r := newResult("ORD", "dominance / reachability statements over resolved objects: ORD-canon (the binder uses call-site arguments only through the canonicalised list, whose keyword partition is sorted by key), ORD-prov (file name and row of a record come from the same object), ORD-load (nothing prints while a preload file is analysed), ORD-overload (the loader's method-exists test is an exact lookup, not an inheritance walk), ORD-row (definition rows are captured before any token is read), ORD-spec (speculative look-ahead on a parser copy cannot append to global logs), ORD-args (rbs2json argument groups are appended in signature order with the right flags), ORD-frame (registry keys of a class definition are built after the frame switch), ORD-flat (builtin-class membership does not erase the frame)")
	ordCanon(w, r)
	ordProv(w, r)
	ordLoad(w, r)
	ordOverload(w, r)
	ordRow(w, r)
	ordSpec(w, r)
	ordArgs(w, r)
	ordFrame(w, r)
	ordFlat(w, r)
	ordLastWins(w, r)
	ordKey(w, r)
	ordEdge(w, r)
	ordOwn(w, r)
	ordMark(w, r)
	r.finish()
	return r
}

func isTSlicePtr(t types.Type) bool {
	sl, ok := t.Underlying().(*types.Slice)
	return ok && isPtrToNamed(sl.Elem(), modulePath+"/base", "T")
}

func callsSort(fn *ssa.Function) *ssa.Call {
	for _, b := range fn.Blocks {
		for _, ins := range b.Instrs {
			if c, ok := ins.(*ssa.Call); ok {
				if cal := c.Call.StaticCallee(); cal != nil && cal.Pkg != nil {
					p := cal.Pkg.Pkg.Path()
					if (p == "sort" && (cal.Name() == "Slice" || cal.Name() == "SliceStable")) || (p == "slices" && strings.HasPrefix(cal.Name(), "Sort")) {
						return c
					}
				}
			}
		}
	}
	return nil
}

// returnsFieldUnchanged: single-block accessor returning a load of a field of its receiver.
func returnsFieldUnchanged(fn *ssa.Function) bool {
	if fn == nil || len(fn.Blocks) != 1 || len(fn.Params) == 0 {
		return false
	}
	ret, ok := fn.Blocks[0].Instrs[len(fn.Blocks[0].Instrs)-1].(*ssa.Return)
	if !ok || len(ret.Results) != 1 {
		return false
	}
	u, ok := ret.Results[0].(*ssa.UnOp)
	if !ok {
		return false
	}
	fa, ok := u.X.(*ssa.FieldAddr)
	return ok && fa.X == ssa.Value(fn.Params[0])
}

// sliceBehind: v = load(IndexAddr(load(freevar), i)) → the free variable.
func sliceBehind(v ssa.Value, cf *ssa.Function) ssa.Value {
	for i := 0; i < 6; i++ {
		switch x := v.(type) {
		case *ssa.UnOp:
			v = x.X
		case *ssa.IndexAddr:
			v = x.X
		case *ssa.FreeVar:
			return x
		default:
			return nil
		}
	}
	return nil
}

// sameSliceVar: the closure binding (a cell or a value) denotes the slice value sorted.
func sameSliceVar(bound, sorted ssa.Value) bool {
	if bound == sorted {
		return true
	}
	// sorted is a load of the cell bound into the closure
	if u, ok := sorted.(*ssa.UnOp); ok && u.X == bound {
		return true
	}
	// the cell holds the sorted value (stored once)
	if al, ok := bound.(*ssa.Alloc); ok {
		for _, ref := range *al.Referrers() {
			if st, ok := ref.(*ssa.Store); ok && st.Addr == ssa.Value(al) && st.Val == sorted {
				return true
			}
		}
	}
	return false
}

// ---- ORD-canon (C14) ----

func ordCanon(w *World, r *EngineResult) {
	// canonicaliser: func([]*T) []*T in method_evaluator that (directly or one level down) sorts
	var canon []*ssa.Function
	for _, fn := range w.Funcs {
		if pkgShort(fn) != "eval/method_evaluator" || fn.Parent() != nil || fn.Signature.Recv() != nil {
			continue
		}
		sig := fn.Signature
		if sig.Params().Len() != 1 || sig.Results().Len() != 1 || !isTSlicePtr(sig.Params().At(0).Type()) || !isTSlicePtr(sig.Results().At(0).Type()) {
			continue
		}
		sorts := callsSort(fn) != nil
		for _, b := range fn.Blocks {
			for _, ins := range b.Instrs {
				if c, ok := ins.(*ssa.Call); ok {
					if cal := c.Call.StaticCallee(); cal != nil && len(cal.Blocks) > 0 && pkgShort(cal) == "eval/method_evaluator" && callsSort(cal) != nil {
						sorts = true
					}
				}
			}
		}
		if sorts {
			canon = append(canon, fn)
		}
	}
	// the outermost canonicaliser: one that partitions (has a range loop and appends)
	var top *ssa.Function
	for _, f := range canon {
		hasLoop := false
		for _, l := range findLoops(f) {
			if isRangeLoop(l) {
				hasLoop = true
			}
		}
		// … or hands the partitioning to a helper (one level)
		for _, b := range f.Blocks {
			for _, ins := range b.Instrs {
				if c, ok := ins.(*ssa.Call); ok {
					cal := c.Call.StaticCallee()
					if cal == nil || len(cal.Blocks) == 0 {
						continue
					}
					pk := cal.Pkg
					if pk == nil && cal.Origin() != nil { // instance of a generic function
						pk = cal.Origin().Pkg
					}
					if pk != nil && inModule(pk.Pkg.Path()) {
						for _, l := range findLoops(cal) {
							if isRangeLoop(l) {
								hasLoop = true
							}
						}
					}
				}
			}
		}
		if hasLoop {
			top = f
		}
	}
	if top == nil {
		r.undecided("ORD-canon", "eval/method_evaluator", "canonicaliser", "unresolved anchor: func([]*T) []*T that partitions and sorts the keyword arguments", "-")
		return
	}
	// comparator: compares the same accessor of both elements with <
	cmpOK, cmpWhy := false, "no sort call with a comparator closure found"
	agreeChecked, agreeOK, agreeWhy := false, true, ""
	for _, f := range canon {
		c := callsSort(f)
		if c == nil {
			continue
		}
		for _, a := range c.Call.Args {
			mc, ok := a.(*ssa.MakeClosure)
			if !ok {
				continue
			}
			cf := mc.Fn.(*ssa.Function)
			for _, b := range cf.Blocks {
				for _, ins := range b.Instrs {
					bo, ok := ins.(*ssa.BinOp)
					if !ok || (bo.Op.String() != "<" && bo.Op.String() != ">") {
						continue
					}
					cx, ok1 := bo.X.(*ssa.Call)
					cy, ok2 := bo.Y.(*ssa.Call)
					if ok1 && ok2 && cx.Call.StaticCallee() != nil && cx.Call.StaticCallee() == cy.Call.StaticCallee() {
						acc := cx.Call.StaticCallee()
						cmpOK = true
						cmpWhy = "comparator of " + fnKey(f) + " orders by " + acc.Name() + " of both elements"
						// (i) the accessor must return the key text as stored: the parameter names are
						// sorted as raw strings, so both lists are in the same order only then
						agreeChecked = true
						if !returnsFieldUnchanged(acc) {
							agreeOK = false
							agreeWhy = "the comparator orders call-site keywords by " + acc.Name() + ", which does not return the stored key unchanged, while the parameter names are sorted as raw strings: the two canonical orders can disagree (w: / w2:) and an argument is matched with the wrong parameter or never propagated"
						} else {
							agreeWhy = "call-site keywords are ordered by the stored key text (" + acc.Name() + "), the same text the parameter names are sorted by"
						}
						// (ii) the comparator must index the slice that is being sorted
						var sorted ssa.Value = c.Call.Args[0]
						if mi, ok := sorted.(*ssa.MakeInterface); ok {
							sorted = mi.X
						}
						for _, operand := range []*ssa.Call{cx, cy} {
							if len(operand.Call.Args) == 0 {
								continue
							}
							elemSrc := sliceBehind(operand.Call.Args[0], cf)
							if elemSrc == nil {
								continue
							}
							// elemSrc is a free variable of the closure: find its binding
							for bi, fv := range cf.FreeVars {
								if ssa.Value(fv) != elemSrc {
									continue
								}
								bound := mc.Bindings[bi]
								if !sameSliceVar(bound, sorted) {
									cmpOK = false
									cmpWhy = "the comparator reads elements of a different slice than the one being sorted in " + fnKey(f) + ": the result is only partly ordered and depends on the written order"
								}
							}
						}
					}
				}
			}
		}
	}
	// every way out of the canonicaliser passes the sort: a return that is not dominated by
	// the sorting call hands the keyword partition back in written order
	{
		var sortBlocks []*ssa.BasicBlock
		for _, b := range top.Blocks {
			for _, ins := range b.Instrs {
				if c, ok := ins.(*ssa.Call); ok {
					cal := c.Call.StaticCallee()
					if cal == nil {
						continue
					}
					isSort := cal.Pkg != nil && (cal.Pkg.Pkg.Path() == "sort" || cal.Pkg.Pkg.Path() == "slices")
					if isSort || (len(cal.Blocks) > 0 && pkgShort(cal) == "eval/method_evaluator" && callsSort(cal) != nil) {
						sortBlocks = append(sortBlocks, b)
					}
				}
			}
		}
		bad := ""
		for _, b := range top.Blocks {
			rt, ok := b.Instrs[len(b.Instrs)-1].(*ssa.Return)
			if !ok {
				continue
			}
			dominated := false
			for _, sb := range sortBlocks {
				if sb == b || sb.Dominates(b) {
					dominated = true
				}
			}
			if !dominated {
				bad = w.pos(instrPos(rt))
			}
		}
		if bad == "" {
			r.holds("ORD-canon", fnKey(top), "every return passes the sort", "the sorting call dominates every return of the canonicaliser", w.pos(top.Pos()))
		} else {
			r.violated("ORD-canon", fnKey(top), "every return passes the sort", "the return at "+bad+" is reached without the sorting call: on that path the call-site keywords keep their written order, and the binder, which walks them in step with the sorted parameter names, drops the ones that come out of order", w.pos(top.Pos()))
		}
	}
	if cmpOK {
		r.holds("ORD-canon", fnKey(top), "keyword partition sorted by key", cmpWhy, w.pos(top.Pos()))
	} else {
		r.violated("ORD-canon", fnKey(top), "keyword partition sorted by key", "the keyword arguments are not brought into a canonical order: "+cmpWhy, w.pos(top.Pos()))
	}
	if agreeChecked {
		if agreeOK {
			r.holds("ORD-agree", fnKey(top), "keyword order agrees with parameter-name order", agreeWhy, w.pos(top.Pos()))
		} else {
			r.violated("ORD-agree", fnKey(top), "keyword order agrees with parameter-name order", agreeWhy, w.pos(top.Pos()))
		}
	} else {
		r.undecided("ORD-agree", fnKey(top), "keyword order agrees with parameter-name order", "comparator accessor not found", w.pos(top.Pos()))
	}
	// binders: callers of the canonicaliser; the raw parameter may only flow to it and to len
	cg := w.CallGraph()
	nBinders := 0
	if n := cg.Nodes[top]; n != nil {
		seen := map[*ssa.Function]bool{}
		for _, in := range n.In {
			caller := in.Caller.Func
			if seen[caller] {
				continue
			}
			seen[caller] = true
			site := in.Site.(*ssa.Call)
			raw, isParam := site.Call.Args[0].(*ssa.Parameter)
			if !isParam {
				continue
			}
			nBinders++
			var bad []string
			for _, ref := range *raw.Referrers() {
				switch x := ref.(type) {
				case *ssa.Call:
					if x == site {
						continue
					}
					if bi, ok := x.Call.Value.(*ssa.Builtin); ok && bi.Name() == "len" {
						continue
					}
					bad = append(bad, "passed to "+x.Call.Value.Name()+" at "+w.pos(instrPos(x)))
				case *ssa.DebugRef:
				default:
					bad = append(bad, fmt.Sprintf("%T at %s", ref, w.pos(instrPos(ref))))
				}
			}
			construct := "uses of raw argument list " + raw.Name()
			if len(bad) == 0 {
				r.holds("ORD-canon", fnKey(caller), construct, "the call-site argument list is only measured (len) and canonicalised; every index, slice and range is on the canonical list", w.pos(caller.Pos()))
			} else {
				sort.Strings(bad)
				r.violated("ORD-canon", fnKey(caller), construct, "the binder reads the call-site arguments in written order ("+strings.Join(bad, "; ")+"): permuting keyword arguments changes the result", w.pos(caller.Pos()))
			}
		}
	}
	r.Stats["binders"] = nBinders
	r.floor("binders", 1)
}

// ---- ORD-prov (C18) ----

// rootKey names the object a value is read from.
func rootKey(v ssa.Value, depth int) string {
	if depth > 10 {
		return "?" + v.Name()
	}
	switch x := v.(type) {
	case *ssa.FieldAddr:
		return rootKey(x.X, depth+1)
	case *ssa.Field:
		return rootKey(x.X, depth+1)
	case *ssa.UnOp:
		return rootKey(x.X, depth+1)
	case *ssa.IndexAddr:
		return "elem(" + rootKey(x.X, depth+1) + ")"
	case *ssa.Index:
		return "elem(" + rootKey(x.X, depth+1) + ")"
	case *ssa.Extract:
		return rootKey(x.Tuple, depth+1)
	case *ssa.Next:
		return "elem(" + rootKey(x.Iter, depth+1) + ")"
	case *ssa.Range:
		return rootKey(x.X, depth+1)
	case *ssa.Alloc:
		// a local copy assigned once
		var src ssa.Value
		n := 0
		for _, ref := range *x.Referrers() {
			if st, ok := ref.(*ssa.Store); ok && st.Addr == ssa.Value(x) {
				n++
				src = st.Val
			}
		}
		if n == 1 && src != nil {
			if _, isParam := src.(*ssa.Parameter); isParam {
				return "param:" + src.Name()
			}
			return rootKey(src, depth+1)
		}
		return "local:" + x.Name()
	case *ssa.Parameter:
		return "param:" + x.Name()
	case *ssa.Global:
		return "global:" + x.Name()
	case *ssa.Phi:
		return "phi:" + x.Name()
	}
	return "val:" + v.Name()
}

func fieldNameOf(fa ssa.Value) string {
	switch x := fa.(type) {
	case *ssa.FieldAddr:
		if pt, ok := x.X.Type().Underlying().(*types.Pointer); ok {
			if st, ok := pt.Elem().Underlying().(*types.Struct); ok {
				return st.Field(x.Field).Name()
			}
		}
	case *ssa.Field:
		if st, ok := x.X.Type().Underlying().(*types.Struct); ok {
			return st.Field(x.Field).Name()
		}
	}
	return ""
}

func ordProv(w *World, r *EngineResult) {
	// file-name fields: string fields named FileName (anchor by name: the JSON-free record
	// structs Parser, Sig, TSignatureArticle, SpecialCodeComment all use it)
	cg := w.CallGraph()
	n := 0
	for _, fn := range w.Funcs {
		ps := pkgShort(fn)
		if ps == "cmd/rbs2json" || ps == "cmd/c2json" {
			continue
		}
		// file name reads used in a string concatenation
		var fileRoots []string
		for _, b := range fn.Blocks {
			for _, ins := range b.Instrs {
				var fv ssa.Value
				switch x := ins.(type) {
				case *ssa.UnOp:
					if fa, ok := x.X.(*ssa.FieldAddr); ok && fieldNameOf(fa) == "FileName" {
						fv = x
					}
				case *ssa.Field:
					if fieldNameOf(x) == "FileName" {
						fv = x
					}
				}
				if fv == nil || fv.Referrers() == nil {
					continue
				}
				concat := false
				for _, ref := range *fv.Referrers() {
					if bo, ok := ref.(*ssa.BinOp); ok && bo.Op.String() == "+" {
						concat = true
					}
				}
				if concat {
					fileRoots = append(fileRoots, rootKey(fv, 0))
				}
			}
		}
		if len(fileRoots) == 0 {
			continue
		}
		// integer rows rendered into text in the same function
		type rowUse struct {
			v   ssa.Value
			pos string
		}
		var rows []rowUse
		for _, b := range fn.Blocks {
			for _, ins := range b.Instrs {
				c, ok := ins.(*ssa.Call)
				if !ok || c.Call.StaticCallee() == nil {
					continue
				}
				switch c.Call.StaticCallee().String() {
				case "strconv.Itoa":
					rows = append(rows, rowUse{c.Call.Args[0], w.pos(instrPos(c))})
				case "fmt.Sprintf":
					if k, ok := c.Call.Args[0].(*ssa.Const); ok && constVal(k).k == kStr && constVal(k).s == "%d" {
						// variadic slice: find the stored element
						if sl, ok := c.Call.Args[1].(*ssa.Slice); ok {
							if al, ok := sl.X.(*ssa.Alloc); ok {
								for _, ref := range *al.Referrers() {
									if ia, ok := ref.(*ssa.IndexAddr); ok {
										for _, r2 := range *ia.Referrers() {
											if st, ok := r2.(*ssa.Store); ok {
												v := st.Val
												if mi, ok := v.(*ssa.MakeInterface); ok {
													v = mi.X
												}
												rows = append(rows, rowUse{v, w.pos(instrPos(c))})
											}
										}
									}
								}
							}
						}
					}
				}
			}
		}
		for _, ru := range rows {
			n++
			construct := "record file+row"
			fr := dedupe(fileRoots)
			rowRoot := rootKey(ru.v, 0)
			if prm, ok := ru.v.(*ssa.Parameter); ok {
				// follow the integer parameter to the call sites
				pi := -1
				for i, p := range fn.Params {
					if p == prm {
						pi = i
					}
				}
				okAll, why := true, []string{}
				if node := cg.Nodes[fn]; node != nil {
					for _, in := range node.In {
						args := in.Site.Common().Args
						if pi >= len(args) {
							continue
						}
						rr := rootKey(args[pi], 0)
						// the file root inside fn is a parameter: map it to the caller's argument
						match := false
						for _, f := range fr {
							if strings.HasPrefix(f, "param:") {
								for fi, p := range fn.Params {
									if "param:"+p.Name() == f && fi < len(args) {
										if rootKey(args[fi], 0) == rr {
											match = true
										}
									}
								}
							}
						}
						if !match {
							okAll = false
							why = append(why, fmt.Sprintf("%s passes a row read from %s", fnKey(in.Caller.Func), rr))
						}
					}
				}
				if okAll {
					r.holds("ORD-prov", fnKey(fn), construct, "the row parameter is read, at every call site, from the same object as the file name", ru.pos)
				} else {
					r.violated("ORD-prov", fnKey(fn), construct, "file name and row come from different objects: "+strings.Join(why, "; "), ru.pos)
				}
				continue
			}
			same := false
			for _, f := range fr {
				if f == rowRoot {
					same = true
				}
			}
			if same {
				r.holds("ORD-prov", fnKey(fn), construct, "file name and row are read from the same object ("+rowRoot+")", ru.pos)
			} else if !(strings.HasPrefix(rowRoot, "param:") || strings.HasPrefix(rowRoot, "elem(") || strings.HasPrefix(rowRoot, "global:")) {
				r.holds("ORD-prov", fnKey(fn), construct, "the number is computed ("+rowRoot+"), not read from a second record object: not a provenance pairing", ru.pos)
			} else {
				r.violated("ORD-prov", fnKey(fn), construct, "the record pairs the file name of "+strings.Join(fr, ",")+" with a row of "+rowRoot+": a definition that lives in a preloaded file is reported under the target file's name", ru.pos)
			}
		}
	}
	r.Stats["file_row_records"] = n
	r.floor("file_row_records", 5)
}

// ---- ORD-load (C18) ----

func ordLoad(w *World, r *EngineResult) {
	// the analysis loop: function of package main with a bool parameter that receives the
	// constant true at one call site and false at another
	cg := w.CallGraph()
	var loop *ssa.Function
	var flag *ssa.Parameter
	for _, fn := range w.Funcs {
		if pkgShort(fn) != "main" || fn.Parent() != nil {
			continue
		}
		for pi, p := range fn.Params {
			if b, ok := p.Type().Underlying().(*types.Basic); !ok || b.Kind() != types.Bool {
				continue
			}
			sawT, sawF := false, false
			if n := cg.Nodes[fn]; n != nil {
				for _, in := range n.In {
					if k, ok := in.Site.Common().Args[pi].(*ssa.Const); ok {
						if cv := constVal(k); cv.k == kBool {
							if cv.b {
								sawT = true
							} else {
								sawF = true
							}
						}
					}
				}
			}
			if sawT && sawF {
				loop, flag = fn, p
			}
		}
	}
	if loop == nil {
		r.undecided("ORD-load", "main", "analysis loop", "unresolved anchor: function of main with a load flag passed as true and false", "-")
		return
	}
	eff := w.Effects()
	n := 0
	for _, b := range loop.Blocks {
		// is b dominated by the false edge of  if flag ?
		guarded := false
		for cur := b; cur != nil; cur = cur.Idom() {
			d := cur.Idom()
			if d == nil {
				break
			}
			iff, ok := d.Instrs[len(d.Instrs)-1].(*ssa.If)
			if !ok || len(cur.Preds) != 1 {
				continue
			}
			if iff.Cond == ssa.Value(flag) && d.Succs[1] == cur {
				guarded = true
			}
		}
		for _, ins := range b.Instrs {
			c, ok := ins.(*ssa.Call)
			if !ok {
				continue
			}
			prints, via := false, ""
			if cal := c.Call.StaticCallee(); cal != nil {
				if isPrintFunc(cal) {
					prints, via = true, cal.String()
				} else if len(cal.Blocks) > 0 && inModule(cal.Pkg.Pkg.Path()) {
					// the evaluator itself prints only in debug paths; the printers are in cmd
					if pkgShort(cal) == "cmd" {
						if e := eff.Of(cal); e.prints {
							prints, via = true, fnKey(cal)
						}
					}
					// a helper of package main prints when it does so itself or through cmd —
					// not because the evaluator it drives has debug output
					if pkgShort(cal) == "main" && mainPrints(eff, cal, map[*ssa.Function]bool{}) {
						prints, via = true, fnKey(cal)
					}
				}
			}
			if !prints {
				continue
			}
			n++
			construct := "print via " + via
			if guarded {
				r.holds("ORD-load", fnKey(loop), construct, "dominated by the false edge of the load flag", w.pos(instrPos(c)))
			} else {
				r.violated("ORD-load", fnKey(loop), construct, "output can be produced while a preload file is analysed: diagnostics or hints of preloaded files would be printed", w.pos(instrPos(c)))
			}
		}
	}
	r.Stats["print_sites_in_analysis_loop"] = n
	r.floor("print_sites_in_analysis_loop", 1)
}

// mainPrints: fn (package main) calls a print function, a printing function of cmd, or a
// function of main of which the same holds.
func mainPrints(eff *effectTable, fn *ssa.Function, seen map[*ssa.Function]bool) bool {
	if seen[fn] {
		return false
	}
	seen[fn] = true
	for _, b := range fn.Blocks {
		for _, ins := range b.Instrs {
			c, ok := ins.(*ssa.Call)
			if !ok {
				continue
			}
			cal := c.Call.StaticCallee()
			if cal == nil {
				continue
			}
			if isPrintFunc(cal) {
				return true
			}
			if cal.Pkg == nil || len(cal.Blocks) == 0 {
				continue
			}
			switch pkgShort(cal) {
			case "cmd":
				if eff.Of(cal).prints {
					return true
				}
			case "main":
				if mainPrints(eff, cal, seen) {
					return true
				}
			}
		}
	}
	return false
}

// ---- ORD-overload (C19) ----

func ordOverload(w *World, r *EngineResult) {
	cg := w.CallGraph()
	// graph walkers: functions that range over the inheritance table
	walks := map[*ssa.Function]bool{}
	for _, fn := range w.Funcs {
		for _, b := range fn.Blocks {
			for _, ins := range b.Instrs {
				if lk, ok := ins.(*ssa.Lookup); ok {
					if g := rootGlobal(lk.X); g != nil && g.Name() == "ClassInheritanceMap" {
						walks[fn] = true
					}
				}
			}
		}
	}
	reaches := func(f *ssa.Function) (bool, string) {
		seen := map[*ssa.Function]bool{}
		var via string
		var visit func(x *ssa.Function) bool
		visit = func(x *ssa.Function) bool {
			if seen[x] {
				return false
			}
			seen[x] = true
			if walks[x] {
				via = fnKey(x)
				return true
			}
			if n := cg.Nodes[x]; n != nil {
				for _, e := range n.Out {
					if c := e.Callee.Func; c.Pkg != nil && inModule(c.Pkg.Pkg.Path()) && visit(c) {
						return true
					}
				}
			}
			return false
		}
		return visit(f), via
	}
	n := 0
	for _, fn := range w.Funcs {
		if pkgShort(fn) != "builtin" {
			continue
		}
		// appends to the Overloads field
		for _, b := range fn.Blocks {
			for _, ins := range b.Instrs {
				st, ok := ins.(*ssa.Store)
				if !ok {
					continue
				}
				fa, ok := st.Addr.(*ssa.FieldAddr)
				if !ok || fieldNameOf(fa) != "Overloads" {
					continue
				}
				// the object whose Overloads is extended comes from a lookup call — in this
				// function, or (when the append lives in a helper) in each static caller that
				// hands the entry in; the obligation belongs to the function that looks up
				type site struct {
					fn   *ssa.Function
					call *ssa.Call
					pos  string
				}
				var sites []site
				unresolved := false
				var resolve func(f *ssa.Function, v ssa.Value, at ssa.Instruction, depth int)
				resolve = func(f *ssa.Function, v ssa.Value, at ssa.Instruction, depth int) {
					switch x := v.(type) {
					case *ssa.Call:
						if x.Call.StaticCallee() != nil {
							sites = append(sites, site{f, x, w.pos(instrPos(at))})
							return
						}
					case *ssa.Parameter:
						if depth < 2 {
							pi := -1
							for i, p := range f.Params {
								if p == x {
									pi = i
								}
							}
							found := false
							if nd := cg.Nodes[f]; nd != nil && pi >= 0 {
								for _, e := range nd.In {
									if e.Site != nil && e.Site.Common().StaticCallee() == f {
										found = true
										resolve(e.Caller.Func, e.Site.Common().Args[pi], e.Site.(ssa.Instruction), depth+1)
									}
								}
							}
							if found {
								return
							}
						}
					}
					unresolved = true
				}
				resolve(fn, fa.X, st, 0)
				construct := "method-exists test"
				if unresolved || len(sites) == 0 {
					n++
					r.undecided("ORD-overload", fnKey(fn), construct, "the extended method entry is not the result of a lookup call (here or in a static caller)", w.pos(instrPos(st)))
					continue
				}
				for _, s := range sites {
					n++
					if yes, via := reaches(s.call.Call.StaticCallee()); yes {
						r.violated("ORD-overload", fnKey(s.fn), construct, "the loader decides 'this method already exists, add an overload' with "+s.call.Call.StaticCallee().Name()+", which walks the inheritance table ("+via+"): the answer depends on which extends edges earlier files created, i.e. on file names and on how declarations are split", s.pos)
					} else {
						r.holds("ORD-overload", fnKey(s.fn), construct, "the existence test is an exact-key lookup", s.pos)
					}
				}
			}
		}
	}
	r.Stats["overload_sites"] = n
	r.floor("overload_sites", 1)

	// ORD-overload (edges last): within one configuration file the class's own members are
	// defined before its `extends` edges are recorded. The member definers decide "new method
	// or overload of an existing one" with a lookup that walks the inheritance table; if the
	// edges of the class at hand are already there, a method the class overrides is found in
	// the parent (when the parent's file was loaded earlier) and lands in the parent's
	// overload list — the result then depends on the file names even without splitting a
	// class. Rule: in a function of the loader that updates the inheritance table, no call
	// that can reach a walker of that table is reachable from the update.
	nE := 0
	for _, fn := range w.Funcs {
		if pkgShort(fn) != "builtin" {
			continue
		}
		var updates []ssa.Instruction
		for _, b := range fn.Blocks {
			for _, ins := range b.Instrs {
				if mu, ok := ins.(*ssa.MapUpdate); ok {
					if g := rootGlobal(mu.Map); g != nil && g.Name() == "ClassInheritanceMap" {
						updates = append(updates, ins)
					}
				}
				// … or through a helper of the loader that records the edges
				if c, ok := ins.(*ssa.Call); ok {
					if cal := c.Call.StaticCallee(); cal != nil && cal != fn && pkgShort(cal) == "builtin" && w.Effects().Of(cal).mapUpdates["base.ClassInheritanceMap"] {
						if ok2, _ := reaches(cal); !ok2 {
							updates = append(updates, ins)
						}
					}
				}
			}
		}
		if len(updates) == 0 {
			continue
		}
		nE++
		construct := "inheritance edges recorded after the members are defined"
		bad := ""
		for _, u := range updates {
			// blocks reachable from the update (its own block from the update on)
			seen := map[*ssa.BasicBlock]bool{}
			var after []ssa.Instruction
			past := false
			for _, ins := range u.Block().Instrs {
				if past {
					after = append(after, ins)
				}
				if ins == u {
					past = true
				}
			}
			// … within one iteration of the outermost loop around the update (one
			// configuration file): the header of that loop is not crossed
			var outer *natLoop
			for _, l := range findLoops(fn) {
				if l.body[u.Block()] && (outer == nil || len(l.body) > len(outer.body)) {
					outer = l
				}
			}
			var walk func(b *ssa.BasicBlock)
			walk = func(b *ssa.BasicBlock) {
				if seen[b] || (outer != nil && b == outer.head) {
					return
				}
				seen[b] = true
				after = append(after, b.Instrs...)
				for _, s2 := range b.Succs {
					walk(s2)
				}
			}
			for _, s2 := range u.Block().Succs {
				walk(s2)
			}
			for _, ins := range after {
				c, ok := ins.(*ssa.Call)
				if !ok {
					continue
				}
				cal := c.Call.StaticCallee()
				if cal == nil || cal.Pkg == nil || !inModule(cal.Pkg.Pkg.Path()) {
					continue
				}
				if ok, via := reaches(cal); ok {
					bad = fmt.Sprintf("%s at %s (walks the table through %s) can run after the update at %s", fnKey(cal), w.pos(instrPos(c)), via, w.pos(instrPos(u)))
				}
			}
		}
		if bad == "" {
			r.holds("ORD-overload", fnKey(fn), construct, "nothing that walks the inheritance table runs after this function has recorded the edges of the file's class", w.pos(fn.Pos()))
		} else {
			r.violated("ORD-overload", fnKey(fn), construct, "the member definers look existing methods up through the inheritance table, and here they can run when the `extends` edges of the class at hand are already recorded: "+bad+" — an overriding method is filed as an overload of the parent's method if the parent's file was loaded first, so renaming configuration files changes the result", w.pos(fn.Pos()))
		}
	}
	r.Stats["inheritance_edge_writers_in_loader"] = nE
	r.floor("inheritance_edge_writers_in_loader", 1)
}

// ---- ORD-row (C22) ----

func ordRow(w *World, r *EngineResult) {
	dispatcherRegs = findRegistries(w)
	dispatcherWorld = w
	a := newAE(w, envNone, "quick")
	// transitive "reads tokens"
	readsT := map[*ssa.Function]int8{}
	cg := w.CallGraph()
	var readsTok func(f *ssa.Function, d int) bool
	readsTok = func(f *ssa.Function, d int) bool {
		if v, ok := readsT[f]; ok {
			return v == 1
		}
		if d > 8 {
			return false
		}
		readsT[f] = 0
		res := a.isTokenReader(f)
		if !res {
			if n := cg.Nodes[f]; n != nil {
				for _, e := range n.Out {
					if c := e.Callee.Func; c.Pkg != nil && inModule(c.Pkg.Pkg.Path()) && readsTok(c, d+1) {
						res = true
						break
					}
				}
			}
		}
		if res {
			readsT[f] = 1
		}
		return res
	}
	n := 0
	for _, fn := range w.Funcs {
		ps := pkgShort(fn)
		if ps != "eval" && ps != "eval/method_evaluator" {
			continue
		}
		for _, b := range fn.Blocks {
			for idx, ins := range b.Instrs {
				u, ok := ins.(*ssa.UnOp)
				if !ok {
					continue
				}
				fa, ok := u.X.(*ssa.FieldAddr)
				if !ok || fieldNameOf(fa) != "ErrorRow" || !isNamed(fa.X.Type(), modulePath+"/parser", "Parser") {
					continue
				}
				// classify the use: comparison only / restore only → not a definition row
				feeds := false
				for _, ref := range *u.Referrers() {
					switch x := ref.(type) {
					case *ssa.BinOp:
					case *ssa.Store:
						if f2, ok := x.Addr.(*ssa.FieldAddr); ok && fieldNameOf(f2) == "ErrorRow" {
							continue
						}
						feeds = true
					case *ssa.DebugRef:
					default:
						feeds = true
					}
				}
				if !feeds {
					continue
				}
				// restore-only through a local: value stored to a cell whose only other use is a store back
				n++
				construct := "definition row capture"
				pos := w.pos(instrPos(u))
				// must be in the entry block with no token-reading call before it
				early := b == fn.Blocks[0]
				var culprit string
				if early {
					for _, prev := range b.Instrs[:idx] {
						if c, ok := prev.(*ssa.Call); ok {
							var cals []*ssa.Function
							if sc := c.Call.StaticCallee(); sc != nil {
								cals = []*ssa.Function{sc}
							} else if nd := cg.Nodes[fn]; nd != nil {
								for _, e := range nd.Out {
									if e.Site == ssa.CallInstruction(c) {
										cals = append(cals, e.Callee.Func)
									}
								}
							}
							for _, cal := range cals {
								if readsTok(cal, 0) {
									early = false
									culprit = fnKey(cal)
								}
							}
						}
					}
				}
				if early {
					// a helper's entry is only as early as its call sites: no token may be read in a
					// caller on a path that reaches the call
					if ok, why := rowEarlyAtCallers(cg, fn, readsTok, 0, map[*ssa.Function]bool{}); !ok {
						early = false
						culprit = why
					}
				}
				if early {
					r.holds("ORD-row", fnKey(fn), construct, "the row is captured in the entry block before any token is read, in this function and on every static call path that leads to it", pos)
				} else {
					// restores (value only flows back into ErrorRow through a local) are RC3's business
					onlyRestore := true
					for _, ref := range *u.Referrers() {
						if st, ok := ref.(*ssa.Store); ok {
							if al, ok := st.Addr.(*ssa.Alloc); ok {
								for _, r2 := range *al.Referrers() {
									if ld, ok := r2.(*ssa.UnOp); ok {
										for _, r3 := range *ld.Referrers() {
											if s3, ok := r3.(*ssa.Store); !ok || fieldNameOf(s3.Addr) != "ErrorRow" {
												onlyRestore = false
											}
										}
									}
								}
								continue
							}
						}
						if _, ok := ref.(*ssa.DebugRef); ok {
							continue
						}
						onlyRestore = false
					}
					if onlyRestore {
						n--
						continue
					}
					d := "the row is captured after the evaluator has started reading tokens"
					if culprit != "" {
						d += " (" + culprit + " reads first)"
					}
					r.violated("ORD-row", fnKey(fn), construct, d+": a definition that spans lines is recorded on the row of a later token", pos)
				}
			}
		}
	}
	r.Stats["definition_row_captures"] = n
	r.floor("definition_row_captures", 6)
}

// rowEarlyAtCallers: fn is entered before any token of the construct has been read, i.e. on
// every static call path from an evaluator entry (a function that is only reached through an
// interface or has no caller in the module) no token-reading call can precede the call.
func rowEarlyAtCallers(cg *callgraph.Graph, fn *ssa.Function, readsTok func(*ssa.Function, int) bool, depth int, seen map[*ssa.Function]bool) (bool, string) {
	if seen[fn] || depth > 4 {
		return true, ""
	}
	seen[fn] = true
	nd := cg.Nodes[fn]
	if nd == nil {
		return true, ""
	}
	for _, e := range nd.In {
		if e.Site == nil || e.Site.Common().StaticCallee() != fn {
			continue
		}
		caller := e.Caller.Func
		if caller == nil || caller.Pkg == nil || !inModule(caller.Pkg.Pkg.Path()) || caller == fn {
			continue
		}
		if isDispatcher(caller) {
			// the generic dispatcher hands the construct's first token over; its own one-token
			// look-ahead belongs to no construct
			continue
		}
		site := e.Site.(ssa.Instruction)
		sb := site.Block()
		// blocks from which the site's block is reachable
		canReach := map[*ssa.BasicBlock]bool{}
		var back func(b *ssa.BasicBlock)
		back = func(b *ssa.BasicBlock) {
			for _, p := range b.Preds {
				if !canReach[p] {
					canReach[p] = true
					back(p)
				}
			}
		}
		back(sb)
		for _, b := range caller.Blocks {
			for _, ins := range b.Instrs {
				if ins == site && !canReach[sb] {
					break // rest of the site's block comes after the call
				}
				if !(canReach[b] || b == sb) {
					break
				}
				c, ok := ins.(*ssa.Call)
				if !ok || ssa.Instruction(c) == site {
					if ins == site && !canReach[sb] {
						break
					}
					continue
				}
				var cals []*ssa.Function
				if sc := c.Call.StaticCallee(); sc != nil {
					cals = []*ssa.Function{sc}
				} else if cn := cg.Nodes[caller]; cn != nil {
					for _, oe := range cn.Out {
						if oe.Site == ssa.CallInstruction(c) {
							cals = append(cals, oe.Callee.Func)
						}
					}
				}
				for _, cal := range cals {
					if cal != nil && readsTok(cal, 0) {
						return false, fnKey(cal) + " is called in " + fnKey(caller) + " before it calls " + fnKey(fn)
					}
				}
			}
		}
		if ok, why := rowEarlyAtCallers(cg, caller, readsTok, depth+1, seen); !ok {
			return false, why
		}
	}
	return true, ""
}

var dispatcherRegs []*registry

// isDispatcher: the function looks an evaluator up in one of the registries (package-level
// maps of module interfaces) — the point where a construct starts.
func isDispatcher(f *ssa.Function) bool {
	if looksUpRegistry(f) {
		return true
	}
	// a private helper extracted from the dispatcher (its only caller) still belongs to it
	if dispatcherWorld != nil {
		cg := dispatcherWorld.CallGraph()
		for _, b := range f.Blocks {
			for _, ins := range b.Instrs {
				c, ok := ins.(*ssa.Call)
				if !ok {
					continue
				}
				cal := c.Call.StaticCallee()
				if cal == nil || cal.Pkg != f.Pkg || !looksUpRegistry(cal) {
					continue
				}
				only := true
				if n := cg.Nodes[cal]; n != nil {
					for _, in := range n.In {
						if in.Caller.Func != f {
							only = false
						}
					}
				}
				if only {
					return true
				}
			}
		}
	}
	return false
}

var dispatcherWorld *World

func looksUpRegistry(f *ssa.Function) bool {
	for _, b := range f.Blocks {
		for _, ins := range b.Instrs {
			var m ssa.Value
			switch x := ins.(type) {
			case *ssa.Lookup:
				m = x.X
			default:
				continue
			}
			if g := rootGlobal(m); g != nil {
				for _, r := range dispatcherRegs {
					if r.global == g {
						return true
					}
				}
			}
		}
	}
	return false
}

// ---- ORD-spec (C24) ----

func ordSpec(w *World, r *EngineResult) {
	cg := w.CallGraph()
	// append-only logs: package-level slices / maps of slices of base and eval that some function appends to
	logs := map[string]bool{}
	for _, name := range []string{"base.MethodCallPoint", "base.MethodCalleePoint", "base.SpecialCodeComments", "eval.DefineInfoArticles", "base.TSignatureArticles"} {
		logs[name] = true
	}
	eff := w.Effects()
	// speculative roots: functions with a by-value Parser parameter called with *ptr
	n := 0
	for _, fn := range w.Funcs {
		if pkgShort(fn) != "eval" && pkgShort(fn) != "eval/method_evaluator" {
			continue
		}
		for pi, prm := range fn.Params {
			if !isNamed(prm.Type(), modulePath+"/parser", "Parser") {
				continue
			}
			if _, isPtr := prm.Type().(*types.Pointer); isPtr {
				continue
			}
			speculative := false
			if nd := cg.Nodes[fn]; nd != nil {
				for _, in := range nd.In {
					args := in.Site.Common().Args
					if pi < len(args) {
						if u, ok := args[pi].(*ssa.UnOp); ok {
							if _, isPtrT := u.X.Type().Underlying().(*types.Pointer); isPtrT {
								speculative = true
							}
						}
					}
				}
			}
			if !speculative {
				continue
			}
			n++
			construct := "speculative evaluation on a copy of the parser"
			pos := w.pos(fn.Pos())
			e := eff.Of(fn)
			var hit []string
			for g := range e.globalStores {
				if logs[g] {
					hit = append(hit, g)
				}
			}
			for g := range e.mapUpdates {
				if logs[g] {
					hit = append(hit, g)
				}
			}
			sort.Strings(hit)
			if len(hit) == 0 {
				r.holds("ORD-spec", fnKey(fn), construct, "no append-only global log is writable from here", pos)
				continue
			}
			// exemption: every writer of those logs reachable from fn tests a Parser field that fn sets on its copy
			if specGuarded(w, fn, prm, hit) {
				r.holds("ORD-spec", fnKey(fn), construct, "the reachable writers of "+strings.Join(hit, ",")+" are dominated by a test of a parser field this function sets on its copy", pos)
				continue
			}
			r.violated("ORD-spec", fnKey(fn), construct, "the look-ahead evaluates source text on a throw-away copy of the parser, and that evaluation can append to "+strings.Join(hit, ",")+": what it evaluates is later evaluated again for real, so the log gets duplicate entries", pos)
		}
	}
	r.Stats["speculative_roots"] = n
	r.floor("speculative_roots", 1)

	// ORD-log: the logs are append-only *per event*: an append is not made to depend on
	// whether an equal record is already there. The records carry file and row but no column,
	// so "equal" identifies two call sites that share a row (`add(square(a), square(b))`), and
	// a de-duplicating guard drops the second — one caller entry per call site no longer holds.
	nL := 0
	for _, fn := range w.Funcs {
		ord := map[string]int{}
		for _, b := range fn.Blocks {
			for _, ins := range b.Instrs {
				var g *ssa.Global
				switch x := ins.(type) {
				case *ssa.MapUpdate:
					g = rootGlobal(x.Map)
					if c, ok := x.Value.(*ssa.Call); !ok || !isBuiltinNamed(c, "append") {
						g = nil
					}
				case *ssa.Store:
					if c, ok := x.Val.(*ssa.Call); ok && isBuiltinNamed(c, "append") {
						g = rootGlobal(x.Addr)
					}
				}
				if g == nil || !logs[globalName(g)] {
					continue
				}
				nL++
				name := globalName(g)
				ord[name]++
				construct := fmt.Sprintf("append to the log %s", name)
				if ord[name] > 1 {
					construct = fmt.Sprintf("%s#%d", construct, ord[name])
				}
				guard := ""
				for cur := b; cur != nil && cur.Idom() != nil; cur = cur.Idom() {
					d := cur.Idom()
					iff, ok := d.Instrs[len(d.Instrs)-1].(*ssa.If)
					if !ok || len(cur.Preds) != 1 || cur.Preds[0] != d {
						continue
					}
					cond := iff.Cond
					if u, ok := cond.(*ssa.UnOp); ok {
						cond = u.X
					}
					if c, ok := cond.(*ssa.Call); ok {
						if cal := c.Call.StaticCallee(); cal != nil && strings.HasPrefix(cal.String(), "slices.Contains") && len(c.Call.Args) > 0 {
							if g2 := rootGlobalThroughLookup(c.Call.Args[0]); g2 == g {
								guard = w.pos(instrPos(iff))
							}
						}
					}
				}
				if guard == "" {
					r.holds("ORD-log", fnKey(fn), construct, "the record is appended whenever the event happens, whatever the log already holds", w.pos(instrPos(ins)))
				} else {
					r.violated("ORD-log", fnKey(fn), construct, "the append depends on a membership test of the log itself (at "+guard+"): records carry file and row but no column, so two events on one row compare equal and the second is dropped — the list no longer has one entry per call site", w.pos(instrPos(ins)))
				}
			}
		}
	}
	r.Stats["log_appends"] = nL
	r.floor("log_appends", 3)
}

func isBuiltinNamed(c *ssa.Call, name string) bool {
	bi, ok := c.Call.Value.(*ssa.Builtin)
	return ok && bi.Name() == name
}

// rootGlobalThroughLookup: like rootGlobal, also through a map lookup (`log[key]`).
func rootGlobalThroughLookup(v ssa.Value) *ssa.Global {
	for i := 0; i < 6; i++ {
		switch x := v.(type) {
		case *ssa.Lookup:
			v = x.X
		case *ssa.Extract:
			v = x.Tuple
		default:
			return rootGlobal(v)
		}
	}
	return nil
}

func specGuarded(w *World, fn *ssa.Function, prm *ssa.Parameter, logsHit []string) bool {
	// fields of the copy that fn stores to
	set := map[string]bool{}
	for _, b := range fn.Blocks {
		for _, ins := range b.Instrs {
			if st, ok := ins.(*ssa.Store); ok {
				if fa, ok := st.Addr.(*ssa.FieldAddr); ok && strings.HasPrefix(rootKey(fa, 0), "param:"+prm.Name()) {
					set[fieldNameOf(fa)] = true
				}
			}
		}
	}
	if len(set) == 0 {
		return false
	}
	hit := map[string]bool{}
	for _, h := range logsHit {
		hit[h] = true
	}
	for _, g := range w.Funcs {
		for _, b := range g.Blocks {
			for _, ins := range b.Instrs {
				var gl *ssa.Global
				switch x := ins.(type) {
				case *ssa.Store:
					gl = rootGlobal(x.Addr)
				case *ssa.MapUpdate:
					gl = rootGlobal(x.Map)
				}
				if gl == nil || !hit[globalName(gl)] {
					continue
				}
				if strings.HasPrefix(g.Name(), "init") {
					continue
				}
				// dominated by an If depending on a Parser field in set
				ok := false
				for cur := b; cur != nil; cur = cur.Idom() {
					d := cur.Idom()
					if d == nil {
						break
					}
					if iff, isIf := d.Instrs[len(d.Instrs)-1].(*ssa.If); isIf {
						var visit func(v ssa.Value, depth int) bool
						visit = func(v ssa.Value, depth int) bool {
							if depth > 5 {
								return false
							}
							if u, isU := v.(*ssa.UnOp); isU {
								if fa, isFA := u.X.(*ssa.FieldAddr); isFA && set[fieldNameOf(fa)] && isNamed(fa.X.Type(), modulePath+"/parser", "Parser") {
									return true
								}
							}
							if insn, isI := v.(ssa.Instruction); isI {
								var ops []*ssa.Value
								for _, op := range insn.Operands(ops) {
									if *op != nil && visit(*op, depth+1) {
										return true
									}
								}
							}
							return false
						}
						if visit(iff.Cond, 0) {
							ok = true
						}
					}
				}
				if !ok {
					return false
				}
			}
		}
	}
	return true
}

// ---- ORD-args (C25) ----

func jsonTag(st *types.Struct, i int) string {
	tag := reflect.StructTag(st.Tag(i)).Get("json")
	if j := strings.Index(tag, ","); j >= 0 {
		tag = tag[:j]
	}
	return tag
}

func ordArgs(w *World, r *EngineResult) {
	p := w.Pkg("cmd/rbs2json")
	if p == nil {
		r.undecided("ORD-args", "cmd/rbs2json", "anchors", "unresolved anchor: package cmd/rbs2json", "-")
		return
	}
	want := []string{"required_positionals", "optional_positionals", "rest_positionals", "trailing_positionals", "required_keywords", "optional_keywords"}
	wantFlags := map[string][3]bool{ // is_default, is_asterisk, key
		"required_positionals": {false, false, false}, "optional_positionals": {true, false, false}, "rest_positionals": {false, true, false},
		"trailing_positionals": {false, false, false}, "required_keywords": {false, false, true}, "optional_keywords": {true, false, true},
	}
	found := false
	w.eachFuncDecl(func(pk *packages.Package, d *ast.FuncDecl) {
		if pk != p || d.Type.Params.NumFields() == 0 {
			return
		}
		info := pk.TypesInfo
		// role: first parameter is a struct with the six group fields (by JSON tag)
		pt := info.TypeOf(d.Type.Params.List[0].Type)
		st, ok := pt.Underlying().(*types.Struct)
		if !ok {
			return
		}
		tagOf := map[string]string{} // field name -> tag
		for i := 0; i < st.NumFields(); i++ {
			tagOf[st.Field(i).Name()] = jsonTag(st, i)
		}
		have := 0
		for _, t := range want {
			for _, v := range tagOf {
				if v == t {
					have++
				}
			}
		}
		if have != len(want) {
			return
		}
		// results: a slice of the argument struct
		if d.Type.Results.NumFields() != 1 {
			return
		}
		found = true
		var order []string
		flags := map[string][3]bool{}
		for _, s := range d.Body.List {
			var groupTag string
			var body ast.Node
			trueParams := map[types.Object]bool{}
			switch x := s.(type) {
			case *ast.RangeStmt:
				ast.Inspect(x.X, func(n ast.Node) bool {
					if sel, ok := n.(*ast.SelectorExpr); ok && tagOf[sel.Sel.Name] != "" && groupTag == "" {
						groupTag = tagOf[sel.Sel.Name]
					}
					return true
				})
				body = x.Body
			case *ast.IfStmt:
				for _, hd := range []ast.Node{x.Init, x.Cond} {
					if hd == nil || (hd == ast.Node(x.Init) && x.Init == nil) {
						continue
					}
					ast.Inspect(hd, func(n ast.Node) bool {
						if sel, ok := n.(*ast.SelectorExpr); ok && tagOf[sel.Sel.Name] != "" {
							groupTag = tagOf[sel.Sel.Name]
						}
						return true
					})
				}
				body = x.Body
			case *ast.AssignStmt:
				// args = helper(args, fn.Group, <flag constants>…): the helper's body is the
				// group's body, its flag parameters stand for the constants passed
				if len(x.Rhs) == 1 {
					if call, ok := x.Rhs[0].(*ast.CallExpr); ok {
						if hf, ok := typeutil.Callee(info, call).(*types.Func); ok && hf.Pkg() == pk.Types {
							for _, a := range call.Args {
								ast.Inspect(a, func(n ast.Node) bool {
									if sel, ok := n.(*ast.SelectorExpr); ok && tagOf[sel.Sel.Name] != "" && groupTag == "" {
										groupTag = tagOf[sel.Sel.Name]
									}
									return true
								})
							}
							w.eachFuncDecl(func(pk2 *packages.Package, d2 *ast.FuncDecl) {
								if pk2 == pk && info.ObjectOf(d2.Name) == types.Object(hf) {
									body = d2.Body
									trueParams = map[types.Object]bool{}
									pi := 0
									for _, f := range d2.Type.Params.List {
										for _, nm := range f.Names {
											if pi < len(call.Args) {
												if id, ok := call.Args[pi].(*ast.Ident); ok && id.Name == "true" {
													trueParams[info.ObjectOf(nm)] = true
												}
											}
											pi++
										}
									}
								}
							})
						}
					}
				}
			}
			if body == nil {
				continue
			}
			if groupTag == "" || !contains(want, groupTag) {
				continue
			}
			appends := false
			var fl [3]bool
			ast.Inspect(body, func(n ast.Node) bool {
				if call, ok := n.(*ast.CallExpr); ok {
					if id, ok := call.Fun.(*ast.Ident); ok && id.Name == "append" {
						appends = true
					}
				}
				if cl, ok := n.(*ast.CompositeLit); ok {
					if cst, ok := info.TypeOf(cl).Underlying().(*types.Struct); ok {
						for _, el := range cl.Elts {
							kv, ok := el.(*ast.KeyValueExpr)
							if !ok {
								continue
							}
							fname := kv.Key.(*ast.Ident).Name
							for i := 0; i < cst.NumFields(); i++ {
								if cst.Field(i).Name() != fname {
									continue
								}
								switch jsonTag(cst, i) {
								case "is_default":
									if id, ok := kv.Value.(*ast.Ident); ok && (id.Name == "true" || trueParams[info.ObjectOf(id)]) {
										fl[0] = true
									}
								case "is_asterisk":
									if id, ok := kv.Value.(*ast.Ident); ok && (id.Name == "true" || trueParams[info.ObjectOf(id)]) {
										fl[1] = true
									}
								case "key":
									fl[2] = true
								}
							}
						}
					}
				}
				return true
			})
			if appends {
				order = append(order, groupTag)
				flags[groupTag] = fl
			}
		}
		fkey := declKey(w, pk, d)
		pos := w.pos(d.Pos())
		if strings.Join(order, ",") == strings.Join(want, ",") {
			r.holds("ORD-args", fkey, "argument group order", "groups are appended in the order "+strings.Join(order, " → "), pos)
		} else {
			r.violated("ORD-args", fkey, "argument group order", "argument groups are appended as "+strings.Join(order, " → ")+", the documented order is "+strings.Join(want, " → "), pos)
		}
		for _, g := range want {
			fl, ok := flags[g]
			if !ok {
				continue
			}
			if fl == wantFlags[g] {
				r.holds("ORD-args", fkey, "flags of "+g, fmt.Sprintf("is_default=%v is_asterisk=%v key=%v", fl[0], fl[1], fl[2]), pos)
			} else {
				r.violated("ORD-args", fkey, "flags of "+g, fmt.Sprintf("emitted with is_default=%v is_asterisk=%v key=%v, expected %v", fl[0], fl[1], fl[2], wantFlags[g]), pos)
			}
		}
		r.Stats["argument_groups"] = len(order)
	})
	if !found {
		r.undecided("ORD-args", "cmd/rbs2json", "argument converter", "unresolved anchor: function whose first parameter carries the six RBS parameter groups", "-")
	}
	r.floor("argument_groups", 6)
}

// ---- ORD-frame (C27) ----

func ordFrame(w *World, r *EngineResult) {
	n := 0
	for _, fn := range w.Funcs {
		if pkgShort(fn) != "eval" {
			continue
		}
		// calls of (*Context).SetFrame on a local context
		var setCalls []*ssa.Call
		for _, b := range fn.Blocks {
			for _, ins := range b.Instrs {
				if c, ok := ins.(*ssa.Call); ok {
					if cal := c.Call.StaticCallee(); cal != nil && cal.Name() == "SetFrame" && pkgShort(cal) == "context" {
						setCalls = append(setCalls, c)
					}
				}
			}
		}
		if len(setCalls) == 0 {
			continue
		}
		set := setCalls[0]
		recv := set.Call.Args[0]
		// reads of the frame on the same context that feed a registry key
		for _, b := range fn.Blocks {
			for idx, ins := range b.Instrs {
				c, ok := ins.(*ssa.Call)
				if !ok {
					continue
				}
				cal := c.Call.StaticCallee()
				if cal == nil || cal.Name() != "GetFrame" || pkgShort(cal) != "context" || c.Call.Args[0] != recv {
					continue
				}
				feedsKey := ""
				for _, ref := range *c.Referrers() {
					switch x := ref.(type) {
					case *ssa.Store:
						if fa, ok := x.Addr.(*ssa.FieldAddr); ok && isNamed(fa.X.Type(), modulePath+"/base", "ClassNode") {
							feedsKey = "ClassNode." + fieldNameOf(fa)
						}
					case *ssa.Call:
						if cc := x.Call.StaticCallee(); cc != nil && pkgShort(cc) == "base" && (strings.HasPrefix(cc.Name(), "Set")) {
							feedsKey = "argument of base." + cc.Name()
						}
					}
				}
				if feedsKey == "" {
					continue
				}
				n++
				construct := "frame read feeding " + feedsKey
				pos := w.pos(instrPos(c))
				after := false
				if set.Block() == b {
					for _, prev := range b.Instrs[:idx] {
						if prev == ssa.Instruction(set) {
							after = true
						}
					}
				} else if set.Block().Dominates(b) {
					after = true
				}
				if after {
					r.holds("ORD-frame", fnKey(fn), construct, "read after the frame switch: all keys of this definition use one frame", pos)
				} else {
					r.violated("ORD-frame", fnKey(fn), construct, "this registry key is built from the enclosing frame, before the evaluator switches to the definition's own frame: the entry lands on the same-named class of the outer namespace", pos)
				}
			}
		}
	}
	r.Stats["frame_reads_feeding_keys"] = n
	r.floor("frame_reads_feeding_keys", 1)
}

// ---- ORD-flat (C16, C20) ----

func ordFlat(w *World, r *EngineResult) {
	n := 0
	for _, fn := range w.Funcs {
		for _, b := range fn.Blocks {
			for _, ins := range b.Instrs {
				st, ok := ins.(*ssa.Store)
				if !ok {
					continue
				}
				g, ok := st.Addr.(*ssa.Global)
				if !ok || g.Name() != "BuiltinClasses" {
					continue
				}
				call, ok := st.Val.(*ssa.Call)
				if !ok {
					continue
				}
				if bi, ok := call.Call.Value.(*ssa.Builtin); !ok || bi.Name() != "append" {
					continue
				}
				n++
				construct := "builtin class registry entry"
				pos := w.pos(instrPos(st))
				// element type carries a frame?
				elemHasFrame := false
				if sl, ok := g.Type().(*types.Pointer).Elem().Underlying().(*types.Slice); ok {
					if s, ok := sl.Elem().Underlying().(*types.Struct); ok {
						for i := 0; i < s.NumFields(); i++ {
							if strings.EqualFold(s.Field(i).Name(), "frame") {
								elemHasFrame = true
							}
						}
					}
				}
				// or the append is dominated by a test of a Frame field
				guarded := false
				for cur := b; cur != nil; cur = cur.Idom() {
					d := cur.Idom()
					if d == nil {
						break
					}
					if iff, ok := d.Instrs[len(d.Instrs)-1].(*ssa.If); ok && len(cur.Preds) == 1 {
						var visit func(v ssa.Value, depth int) bool
						visit = func(v ssa.Value, depth int) bool {
							if depth > 5 {
								return false
							}
							switch x := v.(type) {
							case *ssa.UnOp:
								if fa, ok := x.X.(*ssa.FieldAddr); ok && fieldNameOf(fa) == "Frame" {
									return true
								}
							case *ssa.Field:
								if fieldNameOf(x) == "Frame" {
									return true
								}
							}
							if insn, ok := v.(ssa.Instruction); ok {
								var ops []*ssa.Value
								for _, op := range insn.Operands(ops) {
									if *op != nil && visit(*op, depth+1) {
										return true
									}
								}
							}
							return false
						}
						if visit(iff.Cond, 0) {
							guarded = true
						}
					}
				}
				if elemHasFrame || guarded {
					r.holds("ORD-flat", fnKey(fn), construct, "the registry entry keeps (or is restricted by) the class's frame", pos)
				} else {
					r.violated("ORD-flat", fnKey(fn), construct, "every configured class, whatever its frame, is registered by its short name only; the evaluator treats a user class with that short name as a Builtin-frame class (a configured ActiveRecord::Base makes a user class Base lose its subclasses' inheritance)", pos)
				}
			}
		}
	}
	r.Stats["builtin_class_registrations"] = n
	r.floor("builtin_class_registrations", 1)

	// consumers: a membership test on the short-name registry that redirects a class to the
	// Builtin frame (the constant "Builtin" is assigned on its true edge) is only legitimate for
	// an unqualified name: the same condition must test that the frame/namespace at hand is "".
	nUse, nRead := 0, 0
	for _, fn := range w.Funcs {
		ord, ordRead := 0, 0
		for _, b := range fn.Blocks {
			for _, ins := range b.Instrs {
				call, ok := ins.(*ssa.Call)
				if !ok || call.Call.StaticCallee() == nil || !strings.HasPrefix(call.Call.StaticCallee().String(), "slices.Contains") || len(call.Call.Args) < 2 {
					continue
				}
				u, ok := call.Call.Args[0].(*ssa.UnOp)
				if !ok {
					continue
				}
				g, ok := u.X.(*ssa.Global)
				if !ok || g.Name() != "BuiltinClasses" {
					continue
				}
				iff, ok := b.Instrs[len(b.Instrs)-1].(*ssa.If)
				if !ok || iff.Cond != ssa.Value(call) {
					// the answer is used as a value (returned, stored): a read without any
					// conjoined test
					nRead++
					ordRead++
					c2 := fmt.Sprintf("membership test on the short-name registry#%d", ordRead)
					tokenText := false
					if nc, ok := call.Call.Args[1].(*ssa.Call); ok {
						if cal := nc.Call.StaticCallee(); cal != nil && cal.Name() == "ToString" && cal.Signature.Recv() != nil && isPtrToNamed(cal.Signature.Recv().Type(), modulePath+"/base", "T") {
							tokenText = true
						}
					}
					if tokenText {
						r.holds("ORD-flat-use", fnKey(fn), c2, "the name tested is the text of a value as written (ToString()): a qualified name never equals a short name", w.pos(instrPos(call)))
					} else {
						r.violated("ORD-flat-use", fnKey(fn), c2, "a bare class name (already separated from its namespace) is looked up in the registry of short names of configured classes of every frame, and the answer is used as it is: a configured class of another frame makes a same-named user class count as configured", w.pos(instrPos(call)))
					}
					continue
				}
				// does the true edge lead (directly) to the constant "Builtin" being chosen?
				tb := b.Succs[0]
				redirects := false
				isBuiltinConst := func(v ssa.Value) bool {
					k, ok := v.(*ssa.Const)
					return ok && constVal(k).k == kStr && constVal(k).s == "Builtin"
				}
				for _, ti := range tb.Instrs {
					if st, ok := ti.(*ssa.Store); ok && isBuiltinConst(st.Val) {
						redirects = true
					}
					// a helper that answers the frame: `return "Builtin"`
					if rt, ok := ti.(*ssa.Return); ok {
						for _, rv := range rt.Results {
							if isBuiltinConst(rv) {
								redirects = true
							}
						}
					}
				}
				for _, sb := range append([]*ssa.BasicBlock{tb}, tb.Succs...) {
					for _, si := range sb.Instrs {
						if ph, ok := si.(*ssa.Phi); ok {
							for ei, e := range ph.Edges {
								if isBuiltinConst(e) && (sb.Preds[ei] == tb || sb.Preds[ei] == b) {
									redirects = true
								}
							}
						}
					}
				}
				pos := w.pos(instrPos(call))
				// an empty-string comparison in the same && chain: a dominating true edge of  x == ""  or the test in a successor
				emptyTest := func(v ssa.Value) bool {
					bo, ok := v.(*ssa.BinOp)
					if !ok || bo.Op.String() != "==" {
						return false
					}
					for _, o := range []ssa.Value{bo.X, bo.Y} {
						if k, ok := o.(*ssa.Const); ok && constVal(k).k == kStr && constVal(k).s == "" {
							return true
						}
					}
					return false
				}
				guarded := false
				if len(b.Preds) == 1 {
					if pi, ok := b.Preds[0].Instrs[len(b.Preds[0].Instrs)-1].(*ssa.If); ok && b.Preds[0].Succs[0] == b && emptyTest(pi.Cond) {
						guarded = true
					}
				}
				if ti, ok := tb.Instrs[len(tb.Instrs)-1].(*ssa.If); ok && emptyTest(ti.Cond) && len(tb.Instrs) <= 3 {
					guarded = true
				}
				if !redirects {
					// any other answer drawn from the short-name registry ("is this class
					// configured / defined?") is an answer about every frame at once. It is
					// legitimate for the text of an identifier token as written (a qualified
					// name never equals a short name) or next to the same emptiness test.
					nRead++
					ordRead++
					c2 := fmt.Sprintf("membership test on the short-name registry#%d", ordRead)
					tokenText := false
					if nc, ok := call.Call.Args[1].(*ssa.Call); ok {
						if cal := nc.Call.StaticCallee(); cal != nil && cal.Name() == "ToString" && cal.Signature.Recv() != nil && isPtrToNamed(cal.Signature.Recv().Type(), modulePath+"/base", "T") {
							tokenText = true
						}
					}
					switch {
					case tokenText:
						r.holds("ORD-flat-use", fnKey(fn), c2, "the name tested is the text of a value as written (ToString()): a qualified name never equals a short name", pos)
					case guarded:
						r.holds("ORD-flat-use", fnKey(fn), c2, "the membership test is conjoined with a test that the frame or namespace at hand is empty", pos)
					default:
						r.violated("ORD-flat-use", fnKey(fn), c2, "a bare class name (already separated from its namespace) is looked up in the registry of short names of configured classes of every frame, without testing that it was written unqualified: a configured class of another frame makes a same-named user class count as configured", pos)
					}
					continue
				}
				nUse++
				ord++
				construct := fmt.Sprintf("redirect to the Builtin frame#%d", ord)
				if guarded {
					r.holds("ORD-flat-use", fnKey(fn), construct, "the membership test is conjoined with a test that the frame or namespace at hand is empty: only unqualified names are redirected", pos)
				} else {
					r.violated("ORD-flat-use", fnKey(fn), construct, "a class is redirected to the Builtin frame because its short name is in the registry, without testing that it was written unqualified: a qualified user class (App::Util) that shares its short name with any configured class loses its own frame", pos)
				}
			}
		}
	}
	r.Stats["builtin_frame_redirects"] = nUse
	r.Stats["short_name_registry_reads"] = nRead
	r.floor("builtin_frame_redirects", 1)
}

// ---- ORD-lastwins (C19) ----

// In the configuration loader every store into a package-level keyed table must not be a
// plain overwrite: it is either guarded by a test that reads the same table (set-if-absent
// / keep-the-documented-one) or accumulates onto the entry it replaces (append). A plain
// overwrite makes the last file loaded win, i.e. the result depends on file names.
func ordLastWins(w *World, r *EngineResult) {
	n := 0
	for _, fn := range w.Funcs {
		if pkgShort(fn) != "builtin" {
			continue
		}
		ord := map[string]int{}
		for _, b := range fn.Blocks {
			for _, ins := range b.Instrs {
				mu, ok := ins.(*ssa.MapUpdate)
				if !ok {
					continue
				}
				g := rootGlobal(mu.Map)
				if g == nil || g.Pkg == nil || !inModule(g.Pkg.Pkg.Path()) {
					continue
				}
				n++
				construct := "store into " + globalName(g)
				ord[construct]++
				if ord[construct] > 1 {
					construct = fmt.Sprintf("%s#%d", construct, ord[construct])
				}
				pos := w.pos(instrPos(mu))
				// accumulation: the value is append(load of the same entry, …)
				accum := false
				if call, ok := mu.Value.(*ssa.Call); ok {
					if bi, ok := call.Call.Value.(*ssa.Builtin); ok && bi.Name() == "append" && len(call.Call.Args) > 0 {
						if lk, ok := call.Call.Args[0].(*ssa.Lookup); ok && rootGlobal(lk.X) == g {
							accum = true
						}
					}
				}
				// guarded by a condition that reads the same table
				guarded := false
				for cur := b; cur != nil && !guarded; cur = cur.Idom() {
					d := cur.Idom()
					if d == nil {
						break
					}
					iff, ok := d.Instrs[len(d.Instrs)-1].(*ssa.If)
					if !ok {
						continue
					}
					var visit func(v ssa.Value, depth int) bool
					visit = func(v ssa.Value, depth int) bool {
						if depth > 6 {
							return false
						}
						if lk, ok := v.(*ssa.Lookup); ok && rootGlobal(lk.X) == g {
							return true
						}
						if ph, ok := v.(*ssa.Phi); ok {
							for _, e := range ph.Edges {
								if visit(e, depth+1) {
									return true
								}
							}
							// short-circuit conditions: look at the tests of the predecessors
							for _, p := range ph.Block().Preds {
								if pi, ok := p.Instrs[len(p.Instrs)-1].(*ssa.If); ok && visit(pi.Cond, depth+1) {
									return true
								}
							}
							return false
						}
						if insn, ok := v.(ssa.Instruction); ok {
							var ops []*ssa.Value
							for _, op := range insn.Operands(ops) {
								if *op != nil && visit(*op, depth+1) {
									return true
								}
							}
						}
						return false
					}
					if visit(iff.Cond, 0) {
						guarded = true
					}
				}
				// one arm of an || chain: a predecessor's test reads the table
				if !guarded {
					for _, pb := range b.Preds {
						if pi, ok := pb.Instrs[len(pb.Instrs)-1].(*ssa.If); ok {
							var reads func(v ssa.Value, depth int) bool
							reads = func(v ssa.Value, depth int) bool {
								if depth > 6 {
									return false
								}
								if lk, ok := v.(*ssa.Lookup); ok && rootGlobal(lk.X) == g {
									return true
								}
								if insn, ok := v.(ssa.Instruction); ok {
									var ops []*ssa.Value
									for _, op := range insn.Operands(ops) {
										if *op != nil && reads(*op, depth+1) {
											return true
										}
									}
								}
								return false
							}
							if reads(pi.Cond, 0) {
								guarded = true
							}
						}
					}
				}
				switch {
				case accum:
					r.holds("ORD-lastwins", fnKey(fn), construct, "accumulates onto the entry it replaces", pos)
				case guarded:
					r.holds("ORD-lastwins", fnKey(fn), construct, "dominated by a test that reads the same table entry", pos)
				default:
					r.violated("ORD-lastwins", fnKey(fn), construct, "the loader overwrites a shared table entry unconditionally: when two configuration files declare the same key, the file loaded last wins, so renaming files or splitting a class changes the result", pos)
				}
			}
		}
	}
	r.Stats["loader_table_stores"] = n
	r.floor("loader_table_stores", 1)
}
