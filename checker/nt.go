package main

// NT — no dereference on the nil path of a token read or of a failed lookup.

import (
	"fmt"
	"os"
	"go/token"
	"go/types"
	"sort"
	"strings"

	"golang.org/x/tools/go/ssa"
)

var ntPackages = map[string]bool{"parser": true, "eval": true, "eval/method_evaluator": true, "cmd": true, "main": true}

func derefConstruct(d Deref) string {
	s := d.What
	if len(d.Chain) > 0 {
		s += " via " + strings.Join(d.Chain, ">")
	}
	return s
}

const queryModeMark = " [query-mode only]"

// queryModeOnly: the instruction runs only when the parser's requested LSP row equals the
// current row, i.e. only under --suggest/--hover/--define --row=N.
func queryModeOnly(ins ssa.Instruction) bool {
	if ins == nil || ins.Block() == nil {
		return false
	}
	isRowField := func(v ssa.Value) bool {
		u, ok := v.(*ssa.UnOp)
		if !ok {
			return false
		}
		fa, ok := u.X.(*ssa.FieldAddr)
		return ok && fieldNameOf(fa) == "LspTargetRow"
	}
	for cur := ins.Block(); cur != nil; cur = cur.Idom() {
		d := cur.Idom()
		if d == nil {
			break
		}
		iff, ok := d.Instrs[len(d.Instrs)-1].(*ssa.If)
		if !ok || len(cur.Preds) != 1 || d.Succs[0] != cur {
			continue
		}
		if bo, ok := iff.Cond.(*ssa.BinOp); ok && bo.Op.String() == "==" && (isRowField(bo.X) || isRowField(bo.Y)) {
			return true
		}
	}
	return false
}

// tokenReadSite: the call returns a token (first result *base.T) and is a reader
// primitive or a parser helper that reads.
func (a *AE) tokenReadSite(c *ssa.Call) bool {
	cal := c.Call.StaticCallee()
	if cal == nil {
		return false
	}
	if a.isTokenReader(cal) {
		return true
	}
	if cal.Pkg == nil || cal.Pkg.Pkg.Path() != modulePath+"/parser" {
		return false
	}
	res := cal.Signature.Results()
	if res.Len() == 0 || !isPtrToNamed(res.At(0).Type(), modulePath+"/base", "T") {
		return false
	}
	return a.reads(cal, 0)
}

func engineNT(w *World, tier string) *EngineResult {
	r := newResult("NT", "for every call site of a token reader in parser, eval, method_evaluator, cmd and main: abstract execution from that call in the EOF environment (this and every later read yields a nil token); every instruction that definitely dereferences a nil that originates from a read (field access, load, method whose body dereferences its nil receiver/argument, at any call depth) is a violation. For every call site of a lookup that may return nil (derived: *base.T functions with a nil/map-miss return path), the same with that one result forced to nil")
	a := newAE(w, envEOF, tier)
	sites, clean := 0, 0
	type dkey struct{ fn, construct, pos string }
	seen := map[dkey]bool{}
	for _, fn := range w.Funcs {
		if !ntPackages[pkgShort(fn)] {
			continue
		}
		ord := map[string]int{}
		for _, b := range fn.Blocks {
			for i, ins := range b.Instrs {
				c, ok := ins.(*ssa.Call)
				if !ok || !a.tokenReadSite(c) {
					continue
				}
				sites++
				name := c.Call.StaticCallee().Name()
				ord[name]++
				fr := newFrame(fn, a.budget*4)
				a.explore(fr, b, i, aenv{}, nil)
				if fr.over {
					r.undecided("NT", fnKey(fn), fmt.Sprintf("read %s#%d", name, ord[name]), "state budget exhausted", w.pos(instrPos(c)))
					continue
				}
				n := 0
				for _, d := range fr.derefs {
					if d.Org <= 0 {
						continue
					}
					n++
					k := dkey{fnKey(fn), derefConstruct(d), w.pos(d.Top)}
					if seen[k] {
						continue
					}
					seen[k] = true
					src := fr.sites[d.Org-1]
					r.violated("NT", fnKey(fn), derefConstruct(d),
						fmt.Sprintf("at end of input the token read at %s (%s) is nil and is dereferenced at %s (statement at %s)%s", w.pos(instrPos(src)), src.Call.StaticCallee().Name(), w.pos(d.Pos), w.pos(d.Top), map[bool]string{true: queryModeMark, false: ""}[queryModeOnly(d.Ins)]),
						w.pos(d.Top))
				}
				if n == 0 {
					clean++
					r.holds("NT", fnKey(fn), fmt.Sprintf("read %s#%d", name, ord[name]), "no nil dereference on any EOF path from this read", w.pos(instrPos(c)))
				}
			}
		}
	}
	r.Stats["token_read_sites"] = sites
	r.Stats["token_read_sites_clean"] = clean
	r.floor("token_read_sites", 110)

	// lookups
	al := newAE(w, envNone, tier)
	may := mayReturnNil(w)
	var names []string
	for f := range may {
		names = append(names, fnKey(f))
	}
	sort.Strings(names)
	r.Notes = append(r.Notes, "may-return-nil lookups (derived): "+strings.Join(names, ", "))
	lsites := 0
	for _, fn := range w.Funcs {
		if !ntPackages[pkgShort(fn)] && pkgShort(fn) != "base" {
			continue
		}
		ord := map[string]int{}
		for _, b := range fn.Blocks {
			for i, ins := range b.Instrs {
				c, ok := ins.(*ssa.Call)
				if !ok {
					continue
				}
				cal := c.Call.StaticCallee()
				if cal == nil || len(may[cal]) == 0 {
					continue
				}
				lsites++
				ord[cal.Name()]++
				construct := fmt.Sprintf("lookup %s#%d", cal.Name(), ord[cal.Name()])
				fr := newFrame(fn, al.budget*4)
				al.forced = map[*ssa.Call]Val{c: missValue(cal, may[cal], 0)}
				al.memo = map[string]*summary{} // forced results are per site
				al.explore(fr, b, i, aenv{}, nil)
				al.forced = map[*ssa.Call]Val{}
				if fr.over {
					r.undecided("NT-lookup", fnKey(fn), construct, "state budget exhausted", w.pos(instrPos(c)))
					continue
				}
				var ds []Deref
				for _, d := range fr.derefs {
					if d.Org > 0 && fr.sites[d.Org-1] == c {
						ds = append(ds, d)
					}
				}
				if len(ds) == 0 {
					r.holds("NT-lookup", fnKey(fn), construct, "a miss is never dereferenced", w.pos(instrPos(c)))
					continue
				}
				d := ds[0]
				mark := ""
				if queryModeOnly(d.Ins) {
					mark = queryModeMark
				}
				key := "NT-lookup|" + fnKey(fn) + "|" + construct
				premiseGone := ""
				if why, ok := ntReviewed[key]; ok {
					if chk, has := ntPremise[key]; has {
						if good, what := chk(w); !good {
							premiseGone = " — the reviewed argument for this site no longer applies: " + what
							ok = false
						}
					}
					if !ok {
						goto report
					}
					r.Reviewed[key] = why
					r.add(Obligation{Rule: "NT-lookup", Func: fnKey(fn), Construct: construct, Verdict: Holds, Detail: "reviewed exception", Pos: w.pos(instrPos(c)), Reviewed: why})
					continue
				}
			report:
				r.violated("NT-lookup", fnKey(fn), construct,
					fmt.Sprintf("when %s finds nothing its nil result is dereferenced at %s: %s%s%s", cal.Name(), w.pos(d.Pos), derefConstruct(d), mark, premiseGone), w.pos(instrPos(c)))
			}
		}
	}
	r.Stats["lookup_call_sites"] = lsites
	r.Stats["may_return_nil_functions"] = len(may)
	r.floor("lookup_call_sites", 60)
	r.Stats["ae_function_evaluations"] = a.Evaluated + al.Evaluated
	for k := range ntReviewed {
		if _, used := r.Reviewed[k]; !used {
			r.Notes = append(r.Notes, "reviewed entry without a matching site (stale): "+k)
		}
	}
	r.finish()
	return r
}

// ntReviewed: lookups whose miss is excluded by an invariant that was read and confirmed.
var ntReviewed = map[string]string{
	"NT-lookup|eval/method_evaluator.evaluateUnionInstanceMethod|lookup checkAndPropagateArgsForUnionWithReturnT#1": "the result is nil only when the list of method entries is empty; the only caller (unionInstanceStrategy.evaluate) returns before the call in that case, and with a non-empty list the first iteration assigns a deep copy of a non-nil entry",
	"NT-lookup|eval.(*Evaluator).referenceEvaluation|lookup GetConstValueT#1": "a nil constant reaches generalReferenceEvaluation only if the configuration declares a class literally named \"Unknown\" with a [] method (TypeToString(nil) = \"Unknown\"); C01 quantifies over source files under a given configuration and the shipped configurations have no such class",
	"NT-lookup|eval/method_evaluator.checkAndPropagateArgs|lookup getDefinedArgT#1": "with a nil definedArgT propagationForCalledTo returns true (continue) unless argT has identifier type; then checkArgType returns at its case argT.IsUnknownType() (same test: tType == UNKNOWN) before definedArgT is dereferenced — the two predicates are correlated, which the evaluator cannot see",
}

// ntPremise: machine-checked premises of reviewed exceptions. A reviewed argument that
// leans on a guard elsewhere in the code is only as good as that guard; when the premise
// stops holding the exception is withdrawn and the site is reported.
var ntPremise = map[string]func(w *World) (bool, string){
	"NT-lookup|eval/method_evaluator.evaluateUnionInstanceMethod|lookup checkAndPropagateArgsForUnionWithReturnT#1": func(w *World) (bool, string) {
		// every static caller of evaluateUnionInstanceMethod passes, as class list and entry
		// list, two results of one call (built in pairs), and the call is dominated by the
		// false edge of a len(entries) == 0 test of that very value
		callee := w.FuncByKey("eval/method_evaluator.evaluateUnionInstanceMethod")
		if callee == nil {
			return false, "evaluateUnionInstanceMethod not found"
		}
		nd := w.CallGraph().Nodes[callee]
		if nd == nil || len(nd.In) == 0 {
			return false, "no caller of evaluateUnionInstanceMethod found"
		}
		for _, e := range nd.In {
			if e.Site == nil {
				continue
			}
			args := e.Site.Common().Args
			var lists []ssa.Value
			for _, a := range args {
				if _, ok := a.Type().Underlying().(*types.Slice); ok {
					lists = append(lists, a)
				}
			}
			if len(lists) < 2 {
				return false, "caller " + fnKey(e.Caller.Func) + " does not pass two lists"
			}
			ex0, ok0 := lists[0].(*ssa.Extract)
			ex1, ok1 := lists[1].(*ssa.Extract)
			if !ok0 || !ok1 || ex0.Tuple != ex1.Tuple {
				return false, "in " + fnKey(e.Caller.Func) + " the class list and the entry list are no longer the two results of one call (one of them is rebuilt before the call)"
			}
			guarded := false
			blk := e.Site.(ssa.Instruction).Block()
			for cur := blk; cur != nil && cur.Idom() != nil; cur = cur.Idom() {
				d := cur.Idom()
				iff, ok := d.Instrs[len(d.Instrs)-1].(*ssa.If)
				if !ok || len(cur.Preds) != 1 {
					continue
				}
				bo, ok := iff.Cond.(*ssa.BinOp)
				if !ok {
					continue
				}
				call, ok := bo.X.(*ssa.Call)
				if !ok {
					continue
				}
				if bi, ok := call.Call.Value.(*ssa.Builtin); !ok || bi.Name() != "len" || (call.Call.Args[0] != lists[0] && call.Call.Args[0] != lists[1]) {
					continue
				}
				k, ok := bo.Y.(*ssa.Const)
				if !ok || k.Int64() != 0 {
					continue
				}
				if (bo.Op == token.EQL && d.Succs[1] == cur) || ((bo.Op == token.NEQ || bo.Op == token.GTR) && d.Succs[0] == cur) {
					guarded = true
				}
			}
			if !guarded {
				return false, "the call in " + fnKey(e.Caller.Func) + " is not dominated by a non-emptiness test of the lists it passes"
			}
		}
		return true, ""
	},
}

// mayReturnNil derives the table lookups of module ti that can return nil: functions
// with a *base.T result (possibly inside a tuple) that (through static calls) index a
// package-level map and for which abstract evaluation in the "every lookup misses"
// environment has a path that returns nil in that position with a nil error. Fixed point
// over callees. The value is the set of nil-able result positions.
func mayReturnNil(w *World) map[*ssa.Function]map[int]bool {
	may := map[*ssa.Function]map[int]bool{}
	isT := func(t types.Type) bool { return isPtrToNamed(t, modulePath+"/base", "T") }
	idx := map[*ssa.Function]bool{}
	var indexes func(fn *ssa.Function, d int) bool
	indexes = func(fn *ssa.Function, d int) bool {
		if v, ok := idx[fn]; ok {
			return v
		}
		if d > 4 || fn == nil {
			return false
		}
		idx[fn] = false
		for _, b := range fn.Blocks {
			for _, ins := range b.Instrs {
				switch x := ins.(type) {
				case *ssa.Lookup:
					if u, ok := x.X.(*ssa.UnOp); ok {
						if _, ok := u.X.(*ssa.Global); ok {
							idx[fn] = true
							return true
						}
					}
				case *ssa.Call:
					if cal := x.Call.StaticCallee(); cal != nil && cal.Pkg != nil && inModule(cal.Pkg.Pkg.Path()) && indexes(cal, d+1) {
						idx[fn] = true
						return true
					}
				}
			}
		}
		return false
	}
	var cands []*ssa.Function
	for _, fn := range w.Funcs {
		res := fn.Signature.Results()
		hasT := false
		for i := 0; i < res.Len(); i++ {
			if isT(res.At(i).Type()) {
				hasT = true
			}
		}
		if hasT && fn.Parent() == nil && indexes(fn, 0) {
			cands = append(cands, fn)
		}
	}
	for changed := true; changed; {
		changed = false
		a := newAE(w, envNone, "quick")
		a.missAll = true
		a.missFns = may
		for _, fn := range cands {
			s := a.evalFunc(fn, make([]Val, len(fn.Params)))
			for p := range s.nilPos {
				if !isT(fn.Signature.Results().At(p).Type()) {
					continue
				}
				if may[fn] == nil {
					may[fn] = map[int]bool{}
				}
				if !may[fn][p] {
					may[fn][p] = true
					changed = true
					if os.Getenv("VERIF_DEBUG") == "nt" {
						fmt.Fprintf(os.Stderr, "may-nil(1) %s #%d\n", fn, p)
					}
				}
			}
		}
	}
	// second derivation: constructors / combinators that can return a nil *T although every
	// pointer they receive is non-nil (a result variable that is only assigned on some paths):
	// abstract evaluation in the ordinary environment with non-nil pointer parameters.
	for changed := true; changed; {
		changed = false
		a := newAE(w, envNone, "quick")
		a.missFns = may
		for _, fn := range w.Funcs {
			if fn.Parent() != nil || len(fn.Blocks) == 0 {
				continue
			}
			res := fn.Signature.Results()
			hasT := false
			for i := 0; i < res.Len(); i++ {
				if isT(res.At(i).Type()) {
					hasT = true
				}
			}
			if !hasT {
				continue
			}
			switch pkgShort(fn) {
			case "cmd/rbs2json", "cmd/c2json":
				continue
			}
			args := make([]Val, len(fn.Params))
			for i, prm := range fn.Params {
				if _, ok := prm.Type().Underlying().(*types.Pointer); ok {
					args[i] = Val{k: kNonNil}
				}
			}
			s := a.evalFunc(fn, args)
			for p := range s.nilPos {
				if !isT(fn.Signature.Results().At(p).Type()) {
					continue
				}
				if may[fn] == nil {
					may[fn] = map[int]bool{}
				}
				if !may[fn][p] {
					may[fn][p] = true
					changed = true
					if os.Getenv("VERIF_DEBUG") == "nt" {
						fmt.Fprintf(os.Stderr, "may-nil(2) %s #%d\n", fn, p)
					}
				}
			}
		}
	}
	// closure: a function that hands on the result of such a function can return nil too
	for changed := true; changed; {
		changed = false
		for _, fn := range w.Funcs {
			if fn.Parent() != nil {
				continue
			}
			for _, b := range fn.Blocks {
				rt, ok := b.Instrs[len(b.Instrs)-1].(*ssa.Return)
				if !ok {
					continue
				}
				for ri, rv := range rt.Results {
					if ri >= fn.Signature.Results().Len() || !isT(fn.Signature.Results().At(ri).Type()) {
						continue
					}
					var src *ssa.Call
					pos := 0
					switch x := rv.(type) {
					case *ssa.Call:
						src = x
					case *ssa.Extract:
						if c, ok := x.Tuple.(*ssa.Call); ok {
							src, pos = c, x.Index
						}
					}
					if src == nil {
						continue
					}
					if cal := src.Call.StaticCallee(); cal != nil && may[cal][pos] {
						if nilCheckedTwin(w, src, b) {
							continue // `if f(x) == nil { … }; return f(x)` on a pure accessor
						}
						if nilTestedOnPath(rv, b) {
							continue // `v := f(x); if v != nil { return v }`: the miss value is not handed on
						}
						if guardedByTupleFlag(src, b) {
							continue // `if v, ok := f(x); ok { return v }`: the miss value is not handed on
						}
						if may[fn] == nil {
							may[fn] = map[int]bool{}
						}
						if !may[fn][ri] {
							may[fn][ri] = true
							changed = true
							if os.Getenv("VERIF_DEBUG") == "nt" {
								fmt.Fprintf(os.Stderr, "may-nil(3) %s #%d via %s\n", fn, ri, cal)
							}
						}
					}
				}
			}
		}
	}
	return may
}

// nilCheckedTwin: block b is only reached when a call with the same canonical expression
// as src (a pure accessor with the same arguments) was tested to be non-nil.
func nilCheckedTwin(w *World, src *ssa.Call, b *ssa.BasicBlock) bool {
	c := &ixCtx{w: w, pure: map[*ssa.Function]int8{}, predSumm: map[*ssa.Function]map[string]int{}, inProg: map[*ssa.Function]bool{}}
	cal := src.Call.StaticCallee()
	if cal == nil || !c.isPure(cal, 0) {
		return false
	}
	key := c.exprKey(src, nil, 0)
	for cur := b; cur != nil && cur.Idom() != nil; cur = cur.Idom() {
		d := cur.Idom()
		iff, ok := d.Instrs[len(d.Instrs)-1].(*ssa.If)
		if !ok || len(cur.Preds) != 1 || cur.Preds[0] != d {
			continue
		}
		bo, ok := iff.Cond.(*ssa.BinOp)
		if !ok || (bo.Op != token.EQL && bo.Op != token.NEQ) {
			continue
		}
		k, isC := bo.Y.(*ssa.Const)
		if !isC || !k.IsNil() {
			continue
		}
		if c.exprKey(bo.X, nil, 0) != key {
			continue
		}
		if (bo.Op == token.EQL && d.Succs[1] == cur) || (bo.Op == token.NEQ && d.Succs[0] == cur) {
			return true
		}
	}
	return false
}

// nilTestedOnPath: block b is only reached on the non-nil edge of a nil test of v itself.
func nilTestedOnPath(v ssa.Value, b *ssa.BasicBlock) bool {
	for cur := b; cur != nil && cur.Idom() != nil; cur = cur.Idom() {
		d := cur.Idom()
		iff, ok := d.Instrs[len(d.Instrs)-1].(*ssa.If)
		if !ok || len(cur.Preds) != 1 || cur.Preds[0] != d {
			continue
		}
		bo, ok := iff.Cond.(*ssa.BinOp)
		if !ok || (bo.Op != token.EQL && bo.Op != token.NEQ) {
			continue
		}
		k, isC := bo.Y.(*ssa.Const)
		if !isC || !k.IsNil() || bo.X != v {
			continue
		}
		if (bo.Op == token.EQL && d.Succs[1] == cur) || (bo.Op == token.NEQ && d.Succs[0] == cur) {
			return true
		}
	}
	return false
}

// guardedByTupleFlag: block b is only reached through a test of another component of the
// tuple src returns (a found flag, an error).
func guardedByTupleFlag(src *ssa.Call, b *ssa.BasicBlock) bool {
	if src.Referrers() == nil {
		return false
	}
	flags := map[ssa.Value]bool{}
	for _, ref := range *src.Referrers() {
		if ex, ok := ref.(*ssa.Extract); ok {
			flags[ex] = true
		}
	}
	for cur := b; cur != nil && cur.Idom() != nil; cur = cur.Idom() {
		d := cur.Idom()
		iff, ok := d.Instrs[len(d.Instrs)-1].(*ssa.If)
		if !ok || len(cur.Preds) != 1 || cur.Preds[0] != d {
			continue
		}
		cond := iff.Cond
		if u, ok := cond.(*ssa.UnOp); ok {
			cond = u.X
		}
		if bo, ok := cond.(*ssa.BinOp); ok {
			if flags[bo.X] || flags[bo.Y] {
				if _, isT := bo.X.Type().Underlying().(*types.Pointer); !isT { // an error / flag test, not a test of the value itself
					return true
				}
			}
		}
		if flags[cond] {
			if bt, ok := cond.Type().Underlying().(*types.Basic); ok && bt.Kind() == types.Bool {
				return true
			}
		}
	}
	return false
}
