package main

import (
	"fmt"
	"go/types"

	"golang.org/x/tools/go/ssa"
)

// SLOT — the assignable value handed out by the parser is a live slot, not a value.
//
// The parser method that returns the last evaluated value as `any` hands out the pointer (or
// list of pointers) an assignment will write through: for a bare variable it is the
// variable's own entry in the frame table, and a later assignment overwrites it in place.
// Rule: a pointer obtained from that getter is written through, read (copied), collected
// into a list and republished through the parser — it is never retained inside a type value
// (argument of a module function that keeps that parameter, other than the parser's own
// methods). A retained slot makes the container change type when the variable is
// reassigned.
func init() { engines["SLOT"] = engineSLOT }

func engineSLOT(w *World, tier string) *EngineResult {
	r := newResult("SLOT", "every use of a pointer obtained from the parser's assignable-value getter (method of *parser.Parser returning `any`) is a write through it, a read, a collection into a local list or a republication through a parser method; it is not passed to a module function that retains that parameter and not stored into a field")
	kp := newKeeper(w)
	isGetter := func(f *ssa.Function) bool {
		if f == nil || f.Signature.Recv() == nil || !isPtrToNamed(f.Signature.Recv().Type(), modulePath+"/parser", "Parser") {
			return false
		}
		if f.Signature.Params().Len() != 0 || f.Signature.Results().Len() != 1 {
			return false
		}
		it, ok := f.Signature.Results().At(0).Type().Underlying().(*types.Interface)
		return ok && it.NumMethods() == 0
	}
	isParserMethod := func(f *ssa.Function) bool {
		return f != nil && f.Signature.Recv() != nil && isPtrToNamed(f.Signature.Recv().Type(), modulePath+"/parser", "Parser")
	}
	nSrc, nUses := 0, 0
	// slotWalk: forward closure of the values that are the slot (or lists of slots) from
	// start; bad lists retentions, returned the result positions of the enclosing function
	// a slot (list) is returned at.
	var slotWalk func(start ssa.Value, level int) (bad []string, returned map[int]bool)
	slotWalk = func(start ssa.Value, level int) (bad []string, returned map[int]bool) {
		returned = map[int]bool{}
		slot := map[ssa.Value]bool{}
		var walk func(v ssa.Value, depth int)
		walk = func(v ssa.Value, depth int) {
			if slot[v] || depth > 12 || v.Referrers() == nil {
				return
			}
			slot[v] = true
			for _, ref := range *v.Referrers() {
				nUses++
				switch x := ref.(type) {
				case *ssa.Return:
					for ri, rv := range x.Results {
						if rv == v {
							returned[ri] = true
						}
					}
				case *ssa.TypeAssert:
					walk(x, depth+1)
				case *ssa.Extract:
					if x.Index == 0 {
						walk(x, depth+1)
					}
				case *ssa.Phi, *ssa.ChangeType, *ssa.MakeInterface, *ssa.ChangeInterface:
					walk(x.(ssa.Value), depth+1)
				case *ssa.Store:
					if x.Val == v {
						// into a local cell (variable, list element under construction): follow the cell
						switch a := x.Addr.(type) {
						case *ssa.Alloc:
							for _, r2 := range *a.Referrers() {
								if ld, ok := r2.(*ssa.UnOp); ok {
									walk(ld, depth+1)
								}
							}
						case *ssa.IndexAddr:
							if root, ok := a.X.(*ssa.Alloc); ok { // array backing a variadic/append list
								for _, r2 := range *root.Referrers() {
									if sl, ok := r2.(*ssa.Slice); ok {
										walk(sl, depth+1)
									}
								}
							} else {
								bad = append(bad, "stored into an element at "+w.pos(instrPos(x)))
							}
						case *ssa.FieldAddr:
							bad = append(bad, "stored into field "+fieldNameOf(a)+" at "+w.pos(instrPos(x)))
						default:
							bad = append(bad, "stored at "+w.pos(instrPos(x)))
						}
					}
				case *ssa.IndexAddr: // element of a list of slots
					for _, r2 := range *x.Referrers() {
						if ld, ok := r2.(*ssa.UnOp); ok {
							walk(ld, depth+1)
						}
					}
				case *ssa.Slice:
					walk(x, depth+1)
				case *ssa.Range, *ssa.Next:
				case *ssa.MapUpdate:
					if x.Value == v {
						bad = append(bad, "put into a map at "+w.pos(instrPos(x)))
					}
				case *ssa.MakeClosure:
					// captured by a closure of the same function: follow the free variable
				case *ssa.Call:
					if bi, ok := x.Call.Value.(*ssa.Builtin); ok {
						if bi.Name() == "append" {
							walk(x, depth+1)
						}
						continue
					}
					cal := x.Call.StaticCallee()
					if cal == nil || cal.Pkg == nil || !inModule(cal.Pkg.Pkg.Path()) || len(cal.Blocks) == 0 {
						continue
					}
					if isParserMethod(cal) {
						continue // republication
					}
					for ai, a := range x.Call.Args {
						if a != v {
							continue
						}
						if x.Call.Signature().Recv() != nil && ai == 0 {
							// receiver of a method: a mutator writes through the slot, which is what a slot is for
							continue
						}
						// a helper that only collects the slot into the list it returns is the local
						// collection, one call away: follow its result instead
						if kp.keeps(cal, ai, 0) {
							if level < 2 && ai < len(cal.Params) {
								cbad, cret := slotWalk(cal.Params[ai], level+1)
								if len(cbad) == 0 && len(cret) > 0 {
									if cal.Signature.Results().Len() == 1 {
										walk(x, depth+1)
									} else if x.Referrers() != nil {
										for _, r2 := range *x.Referrers() {
											if ex, ok := r2.(*ssa.Extract); ok && cret[ex.Index] {
												walk(ex, depth+1)
											}
										}
									}
									continue
								}
							}
							bad = append(bad, fmt.Sprintf("passed at %s to %s, which retains it (%s)", w.pos(instrPos(x)), fnKey(cal), kp.why[cal][ai]))
						}
					}
				}
			}
		}
		walk(start, 0)
		return
	}
	for _, fn := range w.Funcs {
		ord := 0
		for _, b := range fn.Blocks {
			for _, ins := range b.Instrs {
				c, ok := ins.(*ssa.Call)
				if !ok || !isGetter(c.Call.StaticCallee()) {
					continue
				}
				nSrc++
				ord++
				construct := "assignable slot from " + c.Call.StaticCallee().Name()
				if ord > 1 {
					construct += fmt.Sprintf("#%d", ord)
				}
				pos := w.pos(instrPos(c))
				bad, _ := slotWalk(c, 0)
				if len(bad) == 0 {
					r.holds("SLOT", fnKey(fn), construct, "the slot is only written through, read, collected locally or republished through the parser", pos)
				} else {
					r.violated("SLOT", fnKey(fn), construct, "the pointer an assignment will overwrite in place is retained inside another value: "+bad[0]+" — the container follows every later reassignment of the variable", pos)
				}
			}
		}
	}
	r.Stats["assignable_slot_reads"] = nSrc
	r.Stats["slot_uses_followed"] = nUses
	r.floor("assignable_slot_reads", 4)
	r.finish()
	return r
}
