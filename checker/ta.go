package main

// TA — type assertions on `any` state.

import (
	"fmt"
	"go/token"
	"go/types"
	"strings"

	"golang.org/x/tools/go/ssa"
)

var taReviewed = map[string]string{
	"TA|base.(*T).GetKeyValue|assert t.val.(*T)": "KEYVALUE values are built by MakeKeyValue with a *T payload; the one KEYVALUE with a string payload (MakeDoubleAsteriskKeyValue) is only rendered in signatures, never unpacked — read, not decided",
	"TA|eval.(*Bind).handleScalarAsigntment|assert p.GetLastEvaluatedTPointer().(*base.T)": "Bind.Evaluation dispatches on a type switch over the same parser field immediately before the call; nothing writes the field in between",
	"TA|eval.(*Bind).handleMultipleAsigntment|assert p.GetLastEvaluatedTPointer().([]*base.T)": "Bind.Evaluation dispatches on a type switch over the same parser field immediately before the call; nothing writes the field in between",
	"TA|parser.(*Parser).AppendLastReturnT|assert p.lastEvaluatedT.(*base.T)":   "called at the `end` of a method body, after the last statement completed: a []*T is held only between Comma's hand-over and Bind's consumption inside one statement — read, not decided",
	"TA|parser.(*Parser).AppendLastReturnT|assert p.lastEvaluatedT.(*base.T)#2": "same storage and reason as the first assertion of this function",
	"TA|parser.(*Parser).AppendLastReturnT|assert p.lastEvaluatedT.(*base.T)#3": "same storage and reason as the first assertion of this function",
}

func engineTA(w *World, tier string) *EngineResult {
	r := newResult("TA", "every type assertion without comma-ok must be dominated by the success edge of a comma-ok assertion (or type-switch arm) of the same type on the same storage, or assert a value whose dynamic type is fixed by construction in the same function, or be discharged by the lexer tok/val pairing analysis (TA-pair), or be a reviewed exception")
	c := &ixCtx{w: w, pure: map[*ssa.Function]int8{}, predSumm: map[*ssa.Function]map[string]int{}, inProg: map[*ssa.Function]bool{}}
	pairOK, pairDetail, pairSites := lexerPairing(w, r)
	n := 0
	for _, fn := range w.Funcs {
		ps := pkgShort(fn)
		if ps == "cmd/rbs2json" || ps == "cmd/c2json" {
			continue
		}
		ord := map[string]int{}
		for _, b := range fn.Blocks {
			for _, ins := range b.Instrs {
				ta, ok := ins.(*ssa.TypeAssert)
				if !ok || ta.CommaOk {
					continue
				}
				n++
				tname := types.TypeString(ta.AssertedType, func(p *types.Package) string { return p.Name() })
				src := c.exprKey(ta.X, nil, 0)
				src = strings.NewReplacer("p:", "", "*a:", "", "a:", "", "v:", "", "g:", "").Replace(src)
				construct := fmt.Sprintf("assert %s.(%s)", src, tname)
				if e := w.bracketExprAt(ta.Pos()); e != "" {
					construct = "assert " + e
				}
				ord[construct]++
				if ord[construct] > 1 {
					construct = fmt.Sprintf("%s#%d", construct, ord[construct])
				}
				pos := w.pos(instrPos(ta))
				if pairSites[ta] {
					if pairOK {
						r.holds("TA", fnKey(fn), construct, "discharged by the lexer tok/val pairing analysis: "+pairDetail, pos)
					} else {
						r.violated("TA", fnKey(fn), construct, "the lexer can deliver this token kind with a value of another dynamic type: "+pairDetail, pos)
					}
					continue
				}
				if why, ok := assertionGuarded(c, ta); ok {
					r.holds("TA", fnKey(fn), construct, why, pos)
					continue
				}
				if why, ok := containerInvariant(w, c, ta); ok {
					r.holds("TA", fnKey(fn), construct, why, pos)
					continue
				}
				key := "TA|" + fnKey(fn) + "|" + construct
				if why, ok := taReviewed[key]; ok {
					r.Reviewed[key] = why
					r.add(Obligation{Rule: "TA", Func: fnKey(fn), Construct: construct, Verdict: Holds, Detail: "reviewed exception", Pos: pos, Reviewed: why})
					continue
				}
				r.violated("TA", fnKey(fn), construct, "unchecked assertion on a value whose dynamic type is not established on the paths reaching it: a different dynamic type (or nil) panics", pos)
			}
		}
	}
	r.Stats["unchecked_assertions"] = n
	r.floor("unchecked_assertions", 4)
	for k := range taReviewed {
		if _, used := r.Reviewed[k]; !used {
			r.Notes = append(r.Notes, "reviewed entry without a matching site (stale): "+k)
		}
	}
	r.finish()
	return r
}

func assertionGuarded(c *ixCtx, ta *ssa.TypeAssert) (string, bool) {
	key := c.exprKey(ta.X, nil, 0)
	// dynamic type fixed by construction
	if mi, ok := ta.X.(*ssa.MakeInterface); ok && types.Identical(mi.X.Type(), ta.AssertedType) {
		return "the asserted value was boxed from this very type in the same function", true
	}
	for cur := ta.Block(); cur != nil; cur = cur.Idom() {
		d := cur.Idom()
		if d == nil {
			break
		}
		iff, ok := d.Instrs[len(d.Instrs)-1].(*ssa.If)
		if !ok || len(cur.Preds) != 1 || d.Succs[0] != cur {
			continue
		}
		ex, ok := iff.Cond.(*ssa.Extract)
		if !ok || ex.Index != 1 {
			continue
		}
		g, ok := ex.Tuple.(*ssa.TypeAssert)
		if !ok || !g.CommaOk || !types.Identical(g.AssertedType, ta.AssertedType) {
			continue
		}
		if c.exprKey(g.X, nil, 0) == key && (g.X == ta.X || !c.rewrittenBetween(cur, ta)) {
			return "dominated by the success edge of a comma-ok assertion / type-switch arm of the same type on the same storage", true
		}
	}
	return "", false
}

// rewrittenBetween: some path from the start of block from to the assertion passes a store
// or a call that is not pure — the storage that was tested may hold something else by then
// (`v, ok := p.Get().(*T)` … `e.Eval(…)` … `p.Get().(*T)`).
func (c *ixCtx) rewrittenBetween(from *ssa.BasicBlock, ta *ssa.TypeAssert) bool {
	target := ta.Block()
	// blocks reachable from `from` …
	fwd := map[*ssa.BasicBlock]bool{}
	var f func(b *ssa.BasicBlock)
	f = func(b *ssa.BasicBlock) {
		if fwd[b] {
			return
		}
		fwd[b] = true
		for _, s := range b.Succs {
			f(s)
		}
	}
	f(from)
	// … that reach the assertion's block
	bwd := map[*ssa.BasicBlock]bool{}
	var g func(b *ssa.BasicBlock)
	g = func(b *ssa.BasicBlock) {
		if bwd[b] {
			return
		}
		bwd[b] = true
		for _, p := range b.Preds {
			g(p)
		}
	}
	g(target)
	impure := func(ins ssa.Instruction) bool {
		switch x := ins.(type) {
		case *ssa.Store, *ssa.MapUpdate, *ssa.Go, *ssa.Defer, *ssa.Send:
			if st, ok := x.(*ssa.Store); ok {
				if _, local := st.Addr.(*ssa.Alloc); local {
					return false
				}
			}
			return true
		case *ssa.Call:
			cal := x.Call.StaticCallee()
			if cal == nil {
				return true
			}
			if cal.Pkg != nil && !inModule(cal.Pkg.Pkg.Path()) {
				return false // the standard library does not reach the analyser's state
			}
			return !c.isPure(cal, 0)
		}
		return false
	}
	// the assertion's block may lie on a cycle through itself: then all of it counts
	onCycle := false
	for _, s := range target.Succs {
		if fwd[s] && bwd[s] {
			onCycle = true
		}
	}
	for b := range fwd {
		if !bwd[b] {
			continue
		}
		for _, ins := range b.Instrs {
			if b == target && ins == ssa.Instruction(ta) && !onCycle {
				break
			}
			if ins == ssa.Instruction(ta) {
				continue
			}
			if impure(ins) {
				return true
			}
		}
	}
	return false
}

// lexerPairing: (kind, dynamic type of the value) agreement between what the lexer
// stores and what the read primitive asserts per kind. Returns the set of assertion
// sites it covers.
func lexerPairing(w *World, r *EngineResult) (ok bool, detail string, sites map[*ssa.TypeAssert]bool) {
	sites = map[*ssa.TypeAssert]bool{}
	a := newAE(w, envNone, "quick")
	var readFn *ssa.Function
	for f := range a.tokPrims {
		readFn = f
	}
	if readFn == nil {
		return false, "read primitive not resolved", sites
	}
	// assertions in the read primitive on the result of a parameterless Lexer method returning any
	want := map[int64]types.Type{} // kind -> asserted type
	// map each such assertion to the kind constant(s) whose comparison dominates it
	// (the conversion of the current token may live in a helper of the reader)
	var readBlocks []*ssa.BasicBlock
	{
		seen := map[*ssa.Function]bool{}
		var mark func(f *ssa.Function, d int)
		mark = func(f *ssa.Function, d int) {
			if f == nil || seen[f] || d > 3 || pkgShort(f) != "parser" {
				return
			}
			seen[f] = true
			readBlocks = append(readBlocks, f.Blocks...)
			for _, b := range f.Blocks {
				for _, ins := range b.Instrs {
					if c, ok := ins.(*ssa.Call); ok {
						mark(c.Call.StaticCallee(), d+1)
					}
				}
			}
		}
		for f := range a.tokPrims {
			mark(f, 0)
		}
	}
	for _, b := range readBlocks {
		for _, ins := range b.Instrs {
			ta, isTA := ins.(*ssa.TypeAssert)
			if !isTA || ta.CommaOk {
				continue
			}
			call, isCall := ta.X.(*ssa.Call)
			if !isCall || call.Call.StaticCallee() == nil || pkgShort(call.Call.StaticCallee()) != "lexer" {
				continue
			}
			sites[ta] = true
			// dominating  token == K  edge
			for cur := ta.Block(); cur != nil; cur = cur.Idom() {
				d := cur.Idom()
				if d == nil {
					break
				}
				iff, ok := d.Instrs[len(d.Instrs)-1].(*ssa.If)
				if !ok || len(cur.Preds) != 1 || d.Succs[0] != cur {
					continue
				}
				if bo, ok := iff.Cond.(*ssa.BinOp); ok && bo.Op.String() == "==" {
					if k, ok := bo.Y.(*ssa.Const); ok {
						if cv := constVal(k); cv.k == kInt {
							want[cv.i] = ta.AssertedType
						}
					}
				}
				break
			}
		}
	}
	if len(want) == 0 {
		return false, "no per-kind assertion found in the read primitive", sites
	}
	// lexer state analysis
	lp := w.Pkg("lexer")
	if lp == nil {
		return false, "package lexer not found", sites
	}
	var tokField, valField int = -1, -1
	if st, ok := lookupObj(lp, "Lexer").Type().Underlying().(*types.Struct); ok {
		for i := 0; i < st.NumFields(); i++ {
			if types.Identical(st.Field(i).Type(), types.Typ[types.Rune]) && tokField < 0 {
				tokField = i
			}
			if _, isIface := st.Field(i).Type().Underlying().(*types.Interface); isIface && valField < 0 {
				valField = i
			}
		}
	}
	if tokField < 0 || valField < 0 {
		return false, "kind/value fields of Lexer not resolved", sites
	}
	// relational state: set of "tok|val" pairs; "stale" = unchanged since function entry
	type state map[string]bool
	clone := func(s state) state {
		n := state{}
		for k := range s {
			n[k] = true
		}
		return n
	}
	join := func(a, b state) (state, bool) {
		changed := false
		for k := range b {
			if !a[k] {
				a[k] = true
				changed = true
			}
		}
		return a, changed
	}
	// pairs are "tok|val|tag": tag is the boolean result of the most recent lexer call on
	// the path ('-' none, T, F, ? unknown); in summaries it is the function's own result
	split3 := func(p string) (string, string, string) {
		parts := strings.SplitN(p, "|", 3)
		return parts[0], parts[1], parts[2]
	}
	split := func(p string) (string, string) {
		a, b, _ := split3(p)
		return a, b
	}
	isLexerRecv := func(fn *ssa.Function) bool {
		return fn != nil && fn.Signature.Recv() != nil && isPtrToNamed(fn.Signature.Recv().Type(), modulePath+"/lexer", "Lexer") && len(fn.Blocks) > 0
	}
	summ := map[*ssa.Function]state{} // exit pairs given entry = stale|stale (join over returns)
	var lexFns []*ssa.Function
	for _, fn := range w.Funcs {
		if isLexerRecv(fn) {
			lexFns = append(lexFns, fn)
			summ[fn] = state{}
		}
	}
	typeStr := func(t types.Type) string {
		return types.TypeString(t, func(p *types.Package) string { return p.Name() })
	}
	apply := func(cur state, s state) state {
		out := state{}
		for cp := range cur {
			ct, cv := split(cp)
			for sp := range s {
				st, sv, tag := split3(sp)
				if st == "stale" {
					st = ct
				}
				if sv == "stale" {
					sv = cv
				}
				out[st+"|"+sv+"|"+tag] = true
			}
		}
		return out
	}
	setTok := func(cur state, t string) state {
		out := state{}
		for cp := range cur {
			_, cv, tag := split3(cp)
			out[t+"|"+cv+"|"+tag] = true
		}
		return out
	}
	setVal := func(cur state, v string) state {
		out := state{}
		for cp := range cur {
			ct, _, tag := split3(cp)
			out[ct+"|"+v+"|"+tag] = true
		}
		return out
	}
	analyse := func(fn *ssa.Function) (state, map[*ssa.BasicBlock]state) {
		recv := fn.Params[0]
		in := map[*ssa.BasicBlock]state{}
		in[fn.Blocks[0]] = state{"stale|stale|-": true}
		exit := state{}
		retStates := map[*ssa.BasicBlock]state{}
		work := []*ssa.BasicBlock{fn.Blocks[0]}
		for len(work) > 0 {
			b := work[len(work)-1]
			work = work[:len(work)-1]
			cur := clone(in[b])
			var lastCall *ssa.Call // the lexer call whose boolean result the tags of cur describe
			for _, ins := range b.Instrs {
				switch x := ins.(type) {
				case *ssa.Store:
					if fa, ok := x.Addr.(*ssa.FieldAddr); ok && fa.X == ssa.Value(recv) {
						if fa.Field == tokField {
							t := "other"
							if k, ok := x.Val.(*ssa.Const); ok {
								if cv := constVal(k); cv.k == kInt {
									t = fmt.Sprintf("k:%d", cv.i)
								}
							}
							cur = setTok(cur, t)
						}
						if fa.Field == valField {
							v := "unknown"
							if mi, ok := x.Val.(*ssa.MakeInterface); ok {
								v = typeStr(mi.X.Type())
							}
							cur = setVal(cur, v)
						}
					}
				case *ssa.Call:
					if cal := x.Call.StaticCallee(); isLexerRecv(cal) && len(x.Call.Args) > 0 && x.Call.Args[0] == ssa.Value(recv) {
						cur = apply(cur, summ[cal]) // empty summary (not yet known) = bottom
						lastCall = x
					}
				case *ssa.Return:
					// tag the pairs with this function's own result
					tagged := state{}
					for cp := range cur {
						ct, cv, tag := split3(cp)
						rt := "?"
						if len(x.Results) == 1 {
							switch rv := x.Results[0].(type) {
							case *ssa.Const:
								if cvv := constVal(rv); cvv.k == kBool {
									if cvv.b {
										rt = "T"
									} else {
										rt = "F"
									}
								}
							case *ssa.Call:
								if isLexerRecv(rv.Call.StaticCallee()) && tag != "-" {
									rt = tag
								}
							}
						} else if len(x.Results) == 0 {
							rt = "-"
						}
						tagged[ct+"|"+cv+"|"+rt] = true
					}
					retStates[b] = tagged
					exit, _ = join(exit, tagged)
				}
			}
			// `if l.helper() { … }`: each edge only carries the states the helper left with
			// that answer
			var edge [2]state
			if iff, ok := b.Instrs[len(b.Instrs)-1].(*ssa.If); ok && lastCall != nil {
				cond, neg := iff.Cond, false
				if u, ok := cond.(*ssa.UnOp); ok && u.Op == token.NOT {
					cond, neg = u.X, true
				}
				if cond == ssa.Value(lastCall) {
					t, f := state{}, state{}
					for cp := range cur {
						_, _, tag := split3(cp)
						if tag != "F" {
							t[cp] = true
						}
						if tag != "T" {
							f[cp] = true
						}
					}
					if neg {
						t, f = f, t
					}
					edge = [2]state{t, f}
				}
			}
			for si, s := range b.Succs {
				out := cur
				if edge[0] != nil && si < 2 {
					out = edge[si]
					if len(out) == 0 {
						continue // edge not taken with any state seen so far
					}
				}
				if old, ok := in[s]; !ok {
					in[s] = clone(out)
					work = append(work, s)
				} else if n, ch := join(old, out); ch {
					in[s] = n
					work = append(work, s)
				}
			}
		}
		return exit, retStates
	}
	for iter := 0; iter < 12; iter++ {
		changed := false
		for _, fn := range lexFns {
			ex, _ := analyse(fn)
			if n, ch := join(summ[fn], ex); ch {
				summ[fn] = n
				changed = true
			}
		}
		if !changed {
			break
		}
	}
	// the token source: the method returning bool that the parser calls before reading kind/value
	var adv *ssa.Function
	for _, fn := range lexFns {
		if fn.Signature.Results().Len() == 1 && fn.Signature.Params().Len() == 0 {
			if b, ok := fn.Signature.Results().At(0).Type().Underlying().(*types.Basic); ok && b.Kind() == types.Bool {
				adv = fn
			}
		}
	}
	if adv == nil {
		return false, "token source method (bool, no parameters) of Lexer not resolved", sites
	}
	// returns of adv with value true (or unknown)
	_, rets := analyse(adv)
	var problems []string
	checked := 0
	for b, st := range rets {
		ret := b.Instrs[len(b.Instrs)-1].(*ssa.Return)
		checked++
		for pr := range st {
			tk, vt, rt := split3(pr)
			if rt == "F" {
				continue // no token delivered
			}
			if tk == "stale" {
				problems = append(problems, fmt.Sprintf("a path returning a token at %s leaves the kind of the previous token in place", w.pos(instrPos(ret))))
				continue
			}
			var kv int64
			if _, err := fmt.Sscanf(tk, "k:%d", &kv); err != nil {
				continue
			}
			wt, asserted := want[kv]
			if !asserted {
				continue
			}
			if vt != typeStr(wt) {
				problems = append(problems, fmt.Sprintf("kind %d can be delivered with a value of dynamic type %s (the read primitive asserts %s) on the path returning at %s", kv, vt, typeStr(wt), w.pos(instrPos(ret))))
			}
		}
	}
	r.Stats["lexer_return_paths_checked"] = checked
	r.Stats["asserted_kinds"] = len(want)
	r.floor("lexer_return_paths_checked", 2)
	r.floor("asserted_kinds", 4)
	if len(problems) > 0 {
		return false, strings.Join(dedupe(problems), "; "), sites
	}
	var ks []string
	for k, t := range want {
		ks = append(ks, fmt.Sprintf("%d→%s", k, typeStr(t)))
	}
	return true, fmt.Sprintf("on all %d token-returning paths of %s the stored kind and the dynamic type of the stored value agree with the assertions %v", checked, fnKey(adv), ks), sites
}

// containerInvariant: the asserted value is loaded from a struct field or a package-level
// map all of whose stores box exactly the asserted type (copies of the same field are
// allowed); a nil check (field != nil / map comma-ok) must dominate when the zero value
// is possible.
func containerInvariant(w *World, c *ixCtx, ta *ssa.TypeAssert) (string, bool) {
	conforms := func(v ssa.Value, self func(ssa.Value) bool) bool {
		switch x := v.(type) {
		case *ssa.MakeInterface:
			return types.Identical(x.X.Type(), ta.AssertedType)
		case *ssa.Const:
			return x.Value == nil // nil: needs the guard checked below
		}
		return self(v)
	}
	// (a) load of a struct field
	if u, ok := ta.X.(*ssa.UnOp); ok {
		if fa, ok := u.X.(*ssa.FieldAddr); ok {
			pt, _ := fa.X.Type().Underlying().(*types.Pointer)
			if pt == nil {
				return "", false
			}
			st, _ := pt.Elem().Underlying().(*types.Struct)
			if st == nil {
				return "", false
			}
			fld := st.Field(fa.Field)
			isSameField := func(v ssa.Value) bool {
				if uu, ok := v.(*ssa.UnOp); ok {
					if ff, ok := uu.X.(*ssa.FieldAddr); ok {
						if p2, ok := ff.X.Type().Underlying().(*types.Pointer); ok {
							if s2, ok := p2.Elem().Underlying().(*types.Struct); ok && s2.Field(ff.Field) == fld {
								return true
							}
						}
					}
				}
				return false
			}
			n := 0
			for _, fn := range w.Funcs {
				for _, b := range fn.Blocks {
					for _, ins := range b.Instrs {
						s, ok := ins.(*ssa.Store)
						if !ok {
							continue
						}
						ff, ok := s.Addr.(*ssa.FieldAddr)
						if !ok {
							continue
						}
						p2, ok := ff.X.Type().Underlying().(*types.Pointer)
						if !ok {
							continue
						}
						s2, ok := p2.Elem().Underlying().(*types.Struct)
						if !ok || s2.Field(ff.Field) != fld {
							continue
						}
						n++
						if !conforms(s.Val, isSameField) {
							return "", false
						}
					}
				}
			}
			// nil guard: dominated by  field != nil  on the same storage
			key := c.exprKey(ta.X, nil, 0)
			for cur := ta.Block(); cur != nil; cur = cur.Idom() {
				d := cur.Idom()
				if d == nil {
					break
				}
				iff, ok := d.Instrs[len(d.Instrs)-1].(*ssa.If)
				if !ok || len(cur.Preds) != 1 {
					continue
				}
				bo, ok := iff.Cond.(*ssa.BinOp)
				if !ok {
					continue
				}
				isNil := func(v ssa.Value) bool { k, ok := v.(*ssa.Const); return ok && k.Value == nil }
				var other ssa.Value
				if isNil(bo.Y) {
					other = bo.X
				} else if isNil(bo.X) {
					other = bo.Y
				} else {
					continue
				}
				if c.exprKey(other, nil, 0) != key {
					continue
				}
				if (bo.Op.String() == "==" && d.Succs[1] == cur) || (bo.Op.String() == "!=" && d.Succs[0] == cur) {
					return fmt.Sprintf("all %d stores into field %s box this type (or copy the field) and a nil check dominates the assertion", n, fld.Name()), true
				}
			}
			return "", false
		}
	}
	// (b) element of a package-level map obtained with comma-ok
	if ex, ok := ta.X.(*ssa.Extract); ok && ex.Index == 0 {
		if lk, ok := ex.Tuple.(*ssa.Lookup); ok && lk.CommaOk {
			g := rootGlobal(lk.X)
			if g == nil {
				return "", false
			}
			n := 0
			for _, fn := range w.Funcs {
				for _, b := range fn.Blocks {
					for _, ins := range b.Instrs {
						if mu, ok := ins.(*ssa.MapUpdate); ok && rootGlobal(mu.Map) == g {
							n++
							if mi, ok := mu.Value.(*ssa.MakeInterface); !ok || !types.Identical(mi.X.Type(), ta.AssertedType) {
								return "", false
							}
						}
					}
				}
			}
			// dominated by ok == true
			for cur := ta.Block(); cur != nil; cur = cur.Idom() {
				d := cur.Idom()
				if d == nil {
					break
				}
				iff, ok := d.Instrs[len(d.Instrs)-1].(*ssa.If)
				if !ok || len(cur.Preds) != 1 || d.Succs[0] != cur {
					continue
				}
				if e2, ok := iff.Cond.(*ssa.Extract); ok && e2.Tuple == ssa.Value(lk) && e2.Index == 1 && n > 0 {
					return fmt.Sprintf("all %d stores into %s box this type and the comma-ok presence test dominates the assertion", n, globalName(g)), true
				}
			}
		}
	}
	return "", false
}
