package main

import (
	"fmt"
	"os"
)

var debugAE = os.Getenv("VERIF_DEBUG") != ""

func dbgf(f string, a ...any) {
	if debugAE {
		fmt.Fprintf(os.Stderr, f+"\n", a...)
	}
}
