package main

// Effect summaries over the call graph: which functions can (transitively) write to
// stdout/stderr, store to package-level variables, update package-level maps.

import (
	"go/types"
	"sort"
	"strings"

	"golang.org/x/tools/go/callgraph"
	"golang.org/x/tools/go/ssa"
)

type fnEffects struct {
	prints       bool
	printVia     string          // one witness chain
	globalStores map[string]bool // non-map package-level variables stored (incl. through fields/elements)
	mapUpdates   map[string]bool // package-level maps updated
	mapDeletes   map[string]bool // package-level maps an entry is deleted from
	exits        bool
}

type effectTable struct {
	w      *World
	direct map[*ssa.Function]*fnEffects
	trans  map[*ssa.Function]*fnEffects
}

func isPrintFunc(fn *ssa.Function) bool {
	if fn == nil || fn.Pkg == nil {
		return false
	}
	p := fn.Pkg.Pkg.Path()
	n := fn.Name()
	if p == "fmt" && (strings.HasPrefix(n, "Print") || strings.HasPrefix(n, "Fprint")) {
		return true
	}
	if p == "os" && fn.Signature.Recv() != nil && (n == "Write" || n == "WriteString") {
		return true
	}
	if p == "log" {
		return true
	}
	return false
}

// rootGlobal follows FieldAddr/IndexAddr/loads to the package-level variable an address
// is rooted in, if any.
func rootGlobal(v ssa.Value) *ssa.Global {
	for i := 0; i < 10; i++ {
		switch x := v.(type) {
		case *ssa.Global:
			return x
		case *ssa.FieldAddr:
			v = x.X
		case *ssa.IndexAddr:
			v = x.X
		case *ssa.UnOp:
			v = x.X
		case *ssa.Slice:
			v = x.X
		default:
			return nil
		}
	}
	return nil
}

func globalName(g *ssa.Global) string {
	if g.Pkg == nil {
		return g.Name()
	}
	p := strings.TrimPrefix(g.Pkg.Pkg.Path(), modulePath+"/")
	if g.Pkg.Pkg.Path() == modulePath {
		p = "main"
	}
	return p + "." + g.Name()
}

func (w *World) Effects() *effectTable {
	if w.eff != nil {
		return w.eff
	}
	t := &effectTable{w: w, direct: map[*ssa.Function]*fnEffects{}, trans: map[*ssa.Function]*fnEffects{}}
	for _, fn := range w.Funcs {
		e := &fnEffects{globalStores: map[string]bool{}, mapUpdates: map[string]bool{}, mapDeletes: map[string]bool{}}
		for _, b := range fn.Blocks {
			for _, ins := range b.Instrs {
				switch x := ins.(type) {
				case *ssa.Store:
					if g := rootGlobal(x.Addr); g != nil && g.Pkg != nil && inModule(g.Pkg.Pkg.Path()) {
						e.globalStores[globalName(g)] = true
					}
				case *ssa.MapUpdate:
					if g := rootGlobal(x.Map); g != nil && g.Pkg != nil && inModule(g.Pkg.Pkg.Path()) {
						e.mapUpdates[globalName(g)] = true
					}
				case *ssa.Call:
					if bi, ok := x.Call.Value.(*ssa.Builtin); ok && bi.Name() == "delete" && len(x.Call.Args) > 0 {
						if g := rootGlobal(x.Call.Args[0]); g != nil && g.Pkg != nil && inModule(g.Pkg.Pkg.Path()) {
							e.mapDeletes[globalName(g)] = true
						}
					}
					if cal := x.Call.StaticCallee(); cal != nil {
						if isPrintFunc(cal) {
							e.prints = true
							e.printVia = fnKey(fn) + " calls " + cal.String()
						}
						if cal.String() == "os.Exit" {
							e.exits = true
						}
					}
				case *ssa.Panic:
					e.exits = true
				}
			}
		}
		t.direct[fn] = e
	}
	w.eff = t
	return t
}

// Of returns the transitive effects of fn over the VTA call graph (module functions only).
func (t *effectTable) Of(fn *ssa.Function) *fnEffects {
	if e, ok := t.trans[fn]; ok {
		return e
	}
	res := &fnEffects{globalStores: map[string]bool{}, mapUpdates: map[string]bool{}, mapDeletes: map[string]bool{}}
	cg := t.w.CallGraph()
	seen := map[*ssa.Function]bool{}
	var visit func(f *ssa.Function, chain string)
	visit = func(f *ssa.Function, chain string) {
		if seen[f] {
			return
		}
		seen[f] = true
		if d := t.direct[f]; d != nil {
			if d.prints && !res.prints {
				res.prints = true
				res.printVia = chain + d.printVia
			}
			if d.exits {
				res.exits = true
			}
			for k := range d.globalStores {
				res.globalStores[k] = true
			}
			for k := range d.mapUpdates {
				res.mapUpdates[k] = true
			}
			for k := range d.mapDeletes {
				res.mapDeletes[k] = true
			}
		}
		n := cg.Nodes[f]
		if n == nil {
			return
		}
		var outs []*callgraph.Edge
		outs = append(outs, n.Out...)
		sort.Slice(outs, func(i, j int) bool { return outs[i].Callee.Func.String() < outs[j].Callee.Func.String() })
		for _, e := range outs {
			c := e.Callee.Func
			if c.Pkg == nil || !inModule(c.Pkg.Pkg.Path()) {
				if isPrintFunc(c) && !res.prints {
					res.prints = true
					res.printVia = chain + fnKey(f) + " calls " + c.String()
				}
				continue
			}
			visit(c, chain+fnKey(f)+" > ")
		}
		// anonymous functions defined in f run (at most) when f runs
		for _, an := range f.AnonFuncs {
			visit(an, chain+fnKey(f)+" > ")
		}
	}
	visit(fn, "")
	t.trans[fn] = res
	return res
}

func sortedKeys(m map[string]bool) []string {
	var ks []string
	for k := range m {
		ks = append(ks, k)
	}
	sort.Strings(ks)
	return ks
}

// calleesOfObj returns the SSA function for a types.Func if it has a body in the module.
func (w *World) fnOfObj(obj types.Object) *ssa.Function {
	f, ok := obj.(*types.Func)
	if !ok {
		return nil
	}
	return w.SSAFunc(f)
}
