package main

// REG — registries and tables agree.

import (
	"fmt"
	"go/ast"
	"go/constant"
	"go/token"
	"go/types"
	"sort"
	"strings"

	"golang.org/x/tools/go/packages"
	"golang.org/x/tools/go/ssa"
	"golang.org/x/tools/go/types/typeutil"
)

func constInt(info *types.Info, e ast.Expr) (int64, bool) {
	tv, ok := info.Types[e]
	if !ok || tv.Value == nil {
		return 0, false
	}
	if tv.Value.Kind() == constant.Int {
		return cInt64(tv.Value)
	}
	return 0, false
}

func tokName(v int64) string {
	if v >= 32 && v < 127 {
		return fmt.Sprintf("%q", rune(v))
	}
	if v == '\n' {
		return `'\n'`
	}
	return fmt.Sprint(v)
}

// structField resolves a field of a named struct by name; nil if absent.
func structField(p *packages.Package, typeName, field string) *types.Var {
	obj := lookupObj(p, typeName)
	if obj == nil {
		return nil
	}
	st, ok := obj.Type().Underlying().(*types.Struct)
	if !ok {
		return nil
	}
	for i := 0; i < st.NumFields(); i++ {
		if st.Field(i).Name() == field {
			return st.Field(i)
		}
	}
	return nil
}

func engineREG(w *World, tier string) *EngineResult {
	r := newResult("REG", "exhaustiveness/agreement rules over resolved constants: token kinds produced by the lexer ⊆ kinds consumed by the parser's read switch (REG-tok); the end-of-input sentinel of the rune reader lies outside the rune range (REG-eos); unchecked registry lookups use keys that are registered, and every evaluator type is registered (REG-dyn); every kind a T can be built with is rendered by the type-rendering switch, and every placeholder kind only the configuration can produce is referenced by the resolvers (REG-type); abnormal exits are exactly the reviewed set (REG-exit); round names compared are round names produced (REG-rounds)")
	regTok(w, r)
	regEos(w, r)
	regDyn(w, r)
	regType(w, r)
	regExit(w, r)
	regRounds(w, r)
	r.finish()
	return r
}

// ---- REG-tok ----

func regTok(w *World, r *EngineResult) {
	lp, pp := w.Pkg("lexer"), w.Pkg("parser")
	if lp == nil || pp == nil {
		r.undecided("REG-tok", "lexer", "anchors", "unresolved anchor: packages lexer/parser", "-")
		return
	}
	// the lexer's token-kind field: field of lexer.Lexer of type rune returned by a
	// parameterless method that the parser's getToken stores into its own rune field
	var tokField *types.Var
	if lx := lookupObj(lp, "Lexer"); lx != nil {
		if st, ok := lx.Type().Underlying().(*types.Struct); ok {
			for i := 0; i < st.NumFields(); i++ {
				if types.Identical(st.Field(i).Type(), types.Typ[types.Rune]) {
					tokField = st.Field(i)
					break
				}
			}
		}
	}
	if tokField == nil {
		r.undecided("REG-tok", "lexer", "token kind field", "unresolved anchor: rune field of lexer.Lexer", "-")
		return
	}
	produced := map[int64]string{} // kind -> where
	undec := []string{}
	// values of the reserved-word table (map[string]any with rune values)
	reservedVals := map[int64]bool{}
	for _, file := range lp.Syntax {
		ast.Inspect(file, func(n ast.Node) bool {
			as, ok := n.(*ast.AssignStmt)
			if !ok || len(as.Lhs) != 1 || len(as.Rhs) != 1 {
				return true
			}
			if ix, ok := as.Lhs[0].(*ast.IndexExpr); ok {
				if id, ok := ix.X.(*ast.Ident); ok {
					if v, ok := lp.TypesInfo.ObjectOf(id).(*types.Var); ok && v.Parent() == lp.Types.Scope() {
						if c, ok := constInt(lp.TypesInfo, as.Rhs[0]); ok {
							reservedVals[c] = true
						}
					}
				}
			}
			return true
		})
	}
	// … or of its composite-literal initialiser (`var reserved = map[string]rune{"nil": NIL, …}`)
	for _, file := range lp.Syntax {
		for _, d := range file.Decls {
			gd, ok := d.(*ast.GenDecl)
			if !ok {
				continue
			}
			for _, sp := range gd.Specs {
				vs, ok := sp.(*ast.ValueSpec)
				if !ok {
					continue
				}
				for _, v := range vs.Values {
					cl, ok := ast.Unparen(v).(*ast.CompositeLit)
					if !ok {
						continue
					}
					if _, isMap := lp.TypesInfo.TypeOf(cl).Underlying().(*types.Map); !isMap {
						continue
					}
					for _, el := range cl.Elts {
						if kv, ok := el.(*ast.KeyValueExpr); ok {
							if c, ok := constInt(lp.TypesInfo, kv.Value); ok {
								reservedVals[c] = true
							}
						}
					}
				}
			}
		}
	}
	for _, file := range lp.Syntax {
		var stack []ast.Node
		ast.Inspect(file, func(n ast.Node) bool {
			if n == nil {
				stack = stack[:len(stack)-1]
				return true
			}
			stack = append(stack, n)
			as, ok := n.(*ast.AssignStmt)
			if !ok {
				return true
			}
			for i, l := range as.Lhs {
				sel, ok := l.(*ast.SelectorExpr)
				if !ok || lp.TypesInfo.ObjectOf(sel.Sel) != tokField || i >= len(as.Rhs) && len(as.Rhs) != 1 {
					continue
				}
				var rhs ast.Expr
				if len(as.Rhs) == len(as.Lhs) {
					rhs = as.Rhs[i]
				} else {
					rhs = as.Rhs[0]
				}
				where := w.pos(as.Pos())
				if c, ok := constInt(lp.TypesInfo, rhs); ok {
					produced[c] = where
					continue
				}
				// tok = x  inside  switch x { case c1, c2: … }
				if id, ok := rhs.(*ast.Ident); ok {
					obj := lp.TypesInfo.ObjectOf(id)
					found := false
					for j := len(stack) - 1; j >= 0 && !found; j-- {
						cc, ok := stack[j].(*ast.CaseClause)
						if !ok || j == 0 {
							continue
						}
						// find the switch
						for k := j - 1; k >= 0; k-- {
							if sw, ok := stack[k].(*ast.SwitchStmt); ok {
								if tid, ok := sw.Tag.(*ast.Ident); ok && lp.TypesInfo.ObjectOf(tid) == obj && len(cc.List) > 0 {
									for _, e := range cc.List {
										if c, ok := constInt(lp.TypesInfo, e); ok {
											produced[c] = where
										} else {
											undec = append(undec, "non-constant case label at "+w.pos(e.Pos()))
										}
									}
									found = true
								}
								break
							}
						}
					}
					if found {
						continue
					}
				}
				// tok = reserved[name], or tok = v with v, ok := reserved[name]
				fromTable := func(e ast.Expr) bool {
					ix, ok := ast.Unparen(e).(*ast.IndexExpr)
					if !ok {
						return false
					}
					id, ok := ix.X.(*ast.Ident)
					if !ok {
						return false
					}
					v, ok := lp.TypesInfo.ObjectOf(id).(*types.Var)
					return ok && v.Parent() == lp.Types.Scope()
				}
				tableValue := fromTable(rhs)
				if id, ok := rhs.(*ast.Ident); ok && !tableValue {
					obj := lp.TypesInfo.ObjectOf(id)
					defs, fromTab := 0, 0
					ast.Inspect(file, func(m ast.Node) bool {
						as2, ok := m.(*ast.AssignStmt)
						if !ok {
							return true
						}
						for li, l2 := range as2.Lhs {
							if id2, ok := l2.(*ast.Ident); ok && lp.TypesInfo.ObjectOf(id2) == obj {
								defs++
								if len(as2.Rhs) == 1 && li == 0 && fromTable(as2.Rhs[0]) {
									fromTab++
								}
							}
						}
						return true
					})
					tableValue = defs > 0 && defs == fromTab
				}
				if tableValue && len(reservedVals) > 0 {
					for c := range reservedVals {
						produced[c] = where + " (reserved word table)"
					}
					continue
				}
				// tok = v.(rune) where v comes from the reserved table
				if ta, ok := rhs.(*ast.TypeAssertExpr); ok {
					_ = ta
					for c := range reservedVals {
						produced[c] = where + " (reserved word table)"
					}
					if len(reservedVals) > 0 {
						continue
					}
				}
				undec = append(undec, "token kind stored at "+where+" is not a constant, a switched-on rune or a reserved-table value")
			}
			return true
		})
	}
	// the parser stores its own end marker when the lexer fails
	a := newAE(w, envNone, "quick")
	var readFn *ssa.Function
	for f := range a.tokPrims {
		readFn = f
	}
	if readFn == nil {
		r.undecided("REG-tok", "parser", "read primitive", "unresolved anchor: token reader", "-")
		return
	}
	// consumed kinds: case constants of switches in the read primitive whose tag is a rune field of Parser
	consumed := map[int64]bool{}
	hasDefaultErr := false
	// the read switch: the switch over a rune field of Parser with the most cases, in the
	// token reader or in a function of package parser it calls (the conversion may live in
	// a helper of its own)
	var readDecl *ast.FuncDecl
	var readSwitch *ast.SwitchStmt
	reach := map[*ssa.Function]bool{}
	var mark func(f *ssa.Function, d int)
	mark = func(f *ssa.Function, d int) {
		if f == nil || reach[f] || d > 3 || pkgShort(f) != "parser" {
			return
		}
		reach[f] = true
		for _, b := range f.Blocks {
			for _, ins := range b.Instrs {
				if c, ok := ins.(*ssa.Call); ok {
					mark(c.Call.StaticCallee(), d+1)
				}
			}
		}
	}
	for f := range a.tokPrims {
		mark(f, 0)
	}
	w.eachFuncDecl(func(p *packages.Package, d *ast.FuncDecl) {
		obj, ok := p.TypesInfo.Defs[d.Name].(*types.Func)
		if !ok || !reach[w.SSAFunc(obj)] {
			return
		}
		ast.Inspect(d.Body, func(n ast.Node) bool {
			sw, ok := n.(*ast.SwitchStmt)
			if !ok || sw.Tag == nil {
				return true
			}
			sel, ok := sw.Tag.(*ast.SelectorExpr)
			if !ok {
				return true
			}
			if v, ok := pp.TypesInfo.ObjectOf(sel.Sel).(*types.Var); !ok || !v.IsField() || !types.Identical(v.Type(), types.Typ[types.Rune]) {
				return true
			}
			if readSwitch == nil || len(sw.Body.List) > len(readSwitch.Body.List) {
				readSwitch, readDecl = sw, d
				readFn = w.SSAFunc(obj)
			}
			return true
		})
	})
	if readDecl == nil {
		r.undecided("REG-tok", fnKey(readFn), "read switch", "syntax of the read primitive not found", "-")
		return
	}
	parserTokenStores := map[int64]string{}
	for _, file := range pp.Syntax {
		ast.Inspect(file, func(n ast.Node) bool {
			as, ok := n.(*ast.AssignStmt)
			if !ok || len(as.Lhs) != 1 || len(as.Rhs) != 1 {
				return true
			}
			if sel, ok := as.Lhs[0].(*ast.SelectorExpr); ok {
				if v, ok := pp.TypesInfo.ObjectOf(sel.Sel).(*types.Var); ok && v.IsField() && types.Identical(v.Type(), types.Typ[types.Rune]) {
					if c, ok := constInt(pp.TypesInfo, as.Rhs[0]); ok {
						parserTokenStores[c] = w.pos(as.Pos())
					}
				}
			}
			return true
		})
	}
	{
		sw := readSwitch
		for _, c := range sw.Body.List {
			cc := c.(*ast.CaseClause)
			if cc.List == nil {
				hasDefaultErr = true
			}
			for _, e := range cc.List {
				if v, ok := constInt(pp.TypesInfo, e); ok {
					consumed[v] = true
				}
			}
		}
	}
	for c, where := range parserTokenStores {
		produced[c] = where + " (parser end marker)"
	}
	var ks []int64
	for k := range produced {
		ks = append(ks, k)
	}
	sort.Slice(ks, func(i, j int) bool { return ks[i] < ks[j] })
	for _, k := range ks {
		construct := "token kind " + tokName(k)
		if consumed[k] {
			r.holds("REG-tok", "lexer", construct, "produced at "+produced[k]+" and consumed by a case of the read switch", produced[k])
		} else {
			d := "the lexer produces this kind (" + produced[k] + ") but the read switch of " + fnKey(readFn) + " has no case for it"
			if hasDefaultErr {
				d += ": it falls into the default arm (read error)"
			}
			r.violated("REG-tok", "lexer", construct, d, produced[k])
		}
	}
	for _, u := range undec {
		r.undecided("REG-tok", "lexer", "token kind store", u, "-")
	}
	r.Stats["token_kinds_produced"] = len(produced)
	r.Stats["token_kinds_consumed"] = len(consumed)
	r.floor("token_kinds_produced", 15)
	r.floor("token_kinds_consumed", 20)
}

// ---- REG-eos ----

func regEos(w *World, r *EngineResult) {
	a := newAE(w, envNone, "quick")
	n := 0
	for fn := range a.runePrims {
		n++
		// constants returned by the rune reader
		for _, b := range fn.Blocks {
			ret, ok := b.Instrs[len(b.Instrs)-1].(*ssa.Return)
			if !ok || len(ret.Results) != 1 {
				continue
			}
			c, ok := ret.Results[0].(*ssa.Const)
			if !ok {
				continue
			}
			v := constVal(c)
			if v.k != kInt {
				continue
			}
			construct := "end-of-input sentinel"
			pos := w.pos(instrPos(ret))
			if v.i >= 0 && v.i <= 0x10FFFF {
				r.violated("REG-eos", fnKey(fn), construct, fmt.Sprintf("the rune reader signals end of input with the constant %d, which is a rune the input itself can contain (a NUL byte in the file is indistinguishable from end of input: the rest of the file is silently dropped)", v.i), pos)
			} else {
				r.holds("REG-eos", fnKey(fn), construct, fmt.Sprintf("sentinel %d lies outside the rune range", v.i), pos)
			}
			r.Stats["sentinels"]++
		}
	}
	r.Stats["rune_readers"] = n
	r.floor("rune_readers", 1)
	r.floor("sentinels", 1)
}

// ---- REG-dyn ----

// literalPredicates: methods of *base.T whose body is `return recv.P("lit")` (or || of
// such), where P is the base predicate comparing recv.ToString() with its argument.
func literalPredicates(w *World) (map[types.Object][]string, types.Object) {
	bp := w.Pkg("base")
	out := map[types.Object][]string{}
	if bp == nil {
		return out, nil
	}
	info := bp.TypesInfo
	// base predicate: method with one string param, whose body contains recv.ToString() == param
	var basePred types.Object
	for _, file := range bp.Syntax {
		for _, d := range file.Decls {
			fd, ok := d.(*ast.FuncDecl)
			if !ok || fd.Recv == nil || fd.Body == nil || fd.Type.Params.NumFields() != 1 {
				continue
			}
			params := fd.Type.Params.List[0]
			if len(params.Names) != 1 {
				continue
			}
			pobj := info.ObjectOf(params.Names[0])
			if b, ok := pobj.Type().Underlying().(*types.Basic); !ok || b.Kind() != types.String {
				continue
			}
			found := false
			ast.Inspect(fd.Body, func(n ast.Node) bool {
				be, ok := n.(*ast.BinaryExpr)
				if !ok || be.Op != token.EQL {
					return true
				}
				for _, pair := range [][2]ast.Expr{{be.X, be.Y}, {be.Y, be.X}} {
					call, ok := pair[0].(*ast.CallExpr)
					id, ok2 := pair[1].(*ast.Ident)
					if ok && ok2 && info.ObjectOf(id) == pobj {
						if sel, ok := call.Fun.(*ast.SelectorExpr); ok && sel.Sel.Name == "ToString" {
							found = true
						}
					}
				}
				return true
			})
			if found {
				basePred = info.ObjectOf(fd.Name)
			}
		}
	}
	if basePred == nil {
		return out, nil
	}
	// plural base predicate: method with one []string parameter whose body tests
	// slices.Contains(param, recv.ToString())
	basePredPlural = nil
	for _, file := range bp.Syntax {
		for _, d := range file.Decls {
			fd, ok := d.(*ast.FuncDecl)
			if !ok || fd.Recv == nil || fd.Body == nil || fd.Type.Params.NumFields() != 1 || len(fd.Type.Params.List[0].Names) != 1 {
				continue
			}
			pobj := info.ObjectOf(fd.Type.Params.List[0].Names[0])
			sl, ok := pobj.Type().Underlying().(*types.Slice)
			if !ok {
				continue
			}
			if b, ok := sl.Elem().Underlying().(*types.Basic); !ok || b.Kind() != types.String {
				continue
			}
			// every return is `false` or the membership test
			okBody, hasTest := true, false
			ast.Inspect(fd.Body, func(n ast.Node) bool {
				ret, ok := n.(*ast.ReturnStmt)
				if !ok || len(ret.Results) != 1 {
					return true
				}
				if tv := info.Types[ret.Results[0]]; tv.Value != nil && tv.Value.Kind() == constant.Bool && !cBool(tv.Value) {
					return true
				}
				call, ok := ast.Unparen(ret.Results[0]).(*ast.CallExpr)
				if ok && len(call.Args) == 2 {
					if fn, _ := typeutil.Callee(info, call).(*types.Func); fn != nil && fn.FullName() == "slices.Contains" {
						id, ok1 := ast.Unparen(call.Args[0]).(*ast.Ident)
						c2, ok2 := ast.Unparen(call.Args[1]).(*ast.CallExpr)
						if ok1 && ok2 && info.ObjectOf(id) == pobj {
							if sel, ok := c2.Fun.(*ast.SelectorExpr); ok && sel.Sel.Name == "ToString" && len(c2.Args) == 0 {
								hasTest = true
								return true
							}
						}
					}
				}
				okBody = false
				return true
			})
			if okBody && hasTest {
				basePredPlural = info.ObjectOf(fd.Name)
			}
		}
	}
	var lits func(e ast.Expr) ([]string, bool)
	lits = func(e ast.Expr) ([]string, bool) {
		switch x := e.(type) {
		case *ast.ParenExpr:
			return lits(x.X)
		case *ast.BinaryExpr:
			if x.Op == token.LOR {
				a, ok1 := lits(x.X)
				b, ok2 := lits(x.Y)
				return append(a, b...), ok1 && ok2
			}
		case *ast.CallExpr:
			if callee := typeutil.Callee(info, x); callee != nil {
				if callee == basePred && len(x.Args) == 1 {
					if tv := info.Types[x.Args[0]]; tv.Value != nil && tv.Value.Kind() == constant.String {
						return []string{constant.StringVal(tv.Value)}, true
					}
				}
				if basePredPlural != nil && callee == basePredPlural && len(x.Args) == 1 {
					if ls, ok := stringListLit(info, x.Args[0]); ok {
						return ls, true
					}
				}
				if ls, ok := out[callee]; ok && len(x.Args) == 0 {
					return ls, true
				}
			}
		}
		return nil, false
	}
	for changed := true; changed; {
		changed = false
		for _, file := range bp.Syntax {
			for _, d := range file.Decls {
				fd, ok := d.(*ast.FuncDecl)
				if !ok || fd.Recv == nil || fd.Body == nil || len(fd.Body.List) != 1 {
					continue
				}
				obj := info.ObjectOf(fd.Name)
				if _, done := out[obj]; done {
					continue
				}
				ret, ok := fd.Body.List[0].(*ast.ReturnStmt)
				if !ok || len(ret.Results) != 1 {
					continue
				}
				if ls, ok := lits(ret.Results[0]); ok {
					out[obj] = ls
					changed = true
				}
			}
		}
	}
	return out, basePred
}

func regDyn(w *World, r *EngineResult) {
	regs := findRegistries(w)
	preds, basePred := literalPredicates(w)
	if basePred == nil {
		r.undecided("REG-dyn", "base", "base predicate", "unresolved anchor: method comparing ToString() with its string parameter", "-")
		return
	}
	for _, reg := range regs {
		// registered constant keys
		keys := map[string]bool{}
		registeredTypes := map[string]bool{}
		for _, fn := range w.Funcs {
			for _, b := range fn.Blocks {
				for _, ins := range b.Instrs {
					mu, ok := ins.(*ssa.MapUpdate)
					if !ok || rootGlobal(mu.Map) != reg.global {
						continue
					}
					keys[ssaConstKey(mu.Key)] = true
					for _, t := range dynamicTypesOf(mu.Value, 0) {
						registeredTypes[t] = true
					}
				}
			}
		}
		r.Stats["registered_keys"] += len(keys)
		// every implementer registered
		for _, T := range implementers(w, reg.iface) {
			name := T.Obj().Name()
			tname := strings.TrimPrefix(T.Obj().Pkg().Path(), modulePath+"/") + "." + name
			if registeredTypes[tname] {
				r.holds("REG-dyn", tname, "registered in "+globalName(reg.global), "an init function stores a value of this type into the registry", w.pos(T.Obj().Pos()))
				continue
			}
			// types allocated outside init (fallback strategies) are not singletons of the registry
			if allocatedOutsideInit(w, T) {
				r.holds("REG-dyn", tname, "registered in "+globalName(reg.global), "not registered, but constructed directly where it is used (fallback strategy)", w.pos(T.Obj().Pos()))
				continue
			}
			r.violated("REG-dyn", tname, "registered in "+globalName(reg.global), "type implements "+reg.iface.Obj().Name()+" but no init function registers it and nothing else constructs it: its keyword/method is silently unhandled", w.pos(T.Obj().Pos()))
		}
		// unchecked lookups
		mapObjName := reg.global.Name()
		dominatingLits := func(info *types.Info, stack []ast.Node, at ast.Node, recvObj types.Object) (need []string, found bool) {
			for j := len(stack) - 1; j >= 0; j-- {
				var cond ast.Expr
				switch x := stack[j].(type) {
				case *ast.CaseClause:
					if len(x.List) == 1 {
						cond = x.List[0]
					}
				case *ast.IfStmt:
					if x.Body.Pos() <= at.Pos() && at.End() <= x.Body.End() {
						cond = x.Cond
					}
				}
				if cond == nil {
					continue
				}
				for _, cj := range conjuncts(cond) {
					ls, ok := litsOn(info, cj, recvObj, preds, basePred)
					if ok {
						need = ls
						found = true
					}
				}
				if found {
					break
				}
			}
			return
		}
		w.eachFuncDecl(func(p *packages.Package, d *ast.FuncDecl) {
			info := p.TypesInfo
			var stack []ast.Node
			ast.Inspect(d.Body, func(n ast.Node) bool {
				if n == nil {
					stack = stack[:len(stack)-1]
					return true
				}
				stack = append(stack, n)
				ix, ok := n.(*ast.IndexExpr)
				if !ok {
					return true
				}
				var mo types.Object
				switch x := ix.X.(type) {
				case *ast.Ident:
					mo = info.ObjectOf(x)
				case *ast.SelectorExpr:
					mo = info.ObjectOf(x.Sel)
				}
				if mo == nil || mo.Name() != mapObjName || mo.Pkg() == nil || mo.Pkg().Path() != reg.global.Pkg.Pkg.Path() {
					return true
				}
				// comma-ok or assignment target?
				if len(stack) >= 2 {
					if as, ok := stack[len(stack)-2].(*ast.AssignStmt); ok {
						for _, l := range as.Lhs {
							if l == ast.Expr(ix) {
								return true // a store
							}
						}
						if len(as.Lhs) == 2 && len(as.Rhs) == 1 {
							r.holds("REG-dyn", declKey(w, p, d), "lookup "+types.ExprString(ix), "comma-ok lookup", w.pos(ix.Pos()))
							r.Stats["registry_lookups"]++
							return true
						}
					}
				}
				r.Stats["registry_lookups"]++
				r.Stats["unchecked_registry_lookups"]++
				construct := "lookup " + types.ExprString(ix)
				// key must be recv.ToString() with a dominating literal predicate on recv
				call, ok := ix.Index.(*ast.CallExpr)
				var recvObj types.Object
				if ok {
					if sel, ok := call.Fun.(*ast.SelectorExpr); ok && sel.Sel.Name == "ToString" {
						if id, ok := sel.X.(*ast.Ident); ok {
							recvObj = info.ObjectOf(id)
						}
					}
				}
				if recvObj == nil {
					r.violated("REG-dyn", declKey(w, p, d), construct, "registry lookup without comma-ok whose key is not provably registered: a missing key yields a nil evaluator and the call on it panics", w.pos(ix.Pos()))
					return true
				}
				need, found := dominatingLits(info, stack, ix, recvObj)
				if !found {
					// the key is a parameter: every call site must fix it (helper extracted
					// from the dispatcher)
					need, found = litsAtCallers(w, info, d, recvObj, dominatingLits)
				}
				if !found {
					r.violated("REG-dyn", declKey(w, p, d), construct, "registry lookup without comma-ok and without a dominating predicate that fixes the key to registered literals", w.pos(ix.Pos()))
					return true
				}
				var missing []string
				for _, l := range need {
					if !keys[fmt.Sprintf("%q", l)] {
						missing = append(missing, l)
					}
				}
				if len(missing) > 0 {
					r.violated("REG-dyn", declKey(w, p, d), construct, fmt.Sprintf("the dominating predicate admits key(s) %q that no init function registers: nil evaluator, the call on it panics", missing), w.pos(ix.Pos()))
				} else {
					r.holds("REG-dyn", declKey(w, p, d), construct, fmt.Sprintf("dominating predicate fixes the key to %q, all registered", need), w.pos(ix.Pos()))
				}
				return true
			})
		})
	}
	r.floor("registered_keys", 40)
	r.floor("registry_lookups", 5)
}

func conjuncts(e ast.Expr) []ast.Expr {
	switch x := e.(type) {
	case *ast.ParenExpr:
		return conjuncts(x.X)
	case *ast.BinaryExpr:
		if x.Op == token.LAND {
			return append(conjuncts(x.X), conjuncts(x.Y)...)
		}
	}
	return []ast.Expr{e}
}

// litsOn: e is P(recv) / recv.P("lit") / disjunction of those, all on recvObj.
func litsOn(info *types.Info, e ast.Expr, recvObj types.Object, preds map[types.Object][]string, basePred types.Object) ([]string, bool) {
	switch x := e.(type) {
	case *ast.ParenExpr:
		return litsOn(info, x.X, recvObj, preds, basePred)
	case *ast.BinaryExpr:
		if x.Op == token.LOR {
			a, ok1 := litsOn(info, x.X, recvObj, preds, basePred)
			b, ok2 := litsOn(info, x.Y, recvObj, preds, basePred)
			return append(a, b...), ok1 && ok2
		}
	case *ast.CallExpr:
		sel, ok := x.Fun.(*ast.SelectorExpr)
		if !ok {
			return nil, false
		}
		id, ok := sel.X.(*ast.Ident)
		if !ok || info.ObjectOf(id) != recvObj {
			return nil, false
		}
		callee := info.ObjectOf(sel.Sel)
		if callee == basePred && len(x.Args) == 1 {
			if tv := info.Types[x.Args[0]]; tv.Value != nil && tv.Value.Kind() == constant.String {
				return []string{constant.StringVal(tv.Value)}, true
			}
		}
		if basePredPlural != nil && callee == basePredPlural && len(x.Args) == 1 {
			if ls, ok := stringListLit(info, x.Args[0]); ok {
				return ls, true
			}
		}
		if ls, ok := preds[callee]; ok {
			return ls, true
		}
	}
	return nil, false
}

// basePredPlural: the base method that tests recv.ToString() ∈ its []string parameter.
var basePredPlural types.Object

// stringListLit: []string{"a", "b"} with constant elements.
func stringListLit(info *types.Info, e ast.Expr) ([]string, bool) {
	cl, ok := ast.Unparen(e).(*ast.CompositeLit)
	if !ok || len(cl.Elts) == 0 {
		return nil, false
	}
	var out []string
	for _, el := range cl.Elts {
		tv := info.Types[el]
		if tv.Value == nil || tv.Value.Kind() != constant.String {
			return nil, false
		}
		out = append(out, constant.StringVal(tv.Value))
	}
	return out, true
}

func ssaConstKey(v ssa.Value) string {
	switch x := v.(type) {
	case *ssa.Const:
		if x.Value != nil {
			return x.Value.ExactString()
		}
	case *ssa.UnOp:
		// [2]string{"a","b"} built in an Alloc: render stores
		if al, ok := x.X.(*ssa.Alloc); ok {
			var parts []string
			for _, ref := range *al.Referrers() {
				if ia, ok := ref.(*ssa.IndexAddr); ok {
					for _, r2 := range *ia.Referrers() {
						if st, ok := r2.(*ssa.Store); ok {
							parts = append(parts, ssaConstKey(ia.Index)+":"+ssaConstKey(st.Val))
						}
					}
				}
			}
			sort.Strings(parts)
			return "[" + strings.Join(parts, ",") + "]"
		}
	case *ssa.MakeInterface:
		return ssaConstKey(x.X)
	}
	return "?" + v.Name()
}

// dynamicTypesOf: concrete types a registry value may hold.
func dynamicTypesOf(v ssa.Value, depth int) []string {
	if depth > 4 {
		return nil
	}
	switch x := v.(type) {
	case *ssa.MakeInterface:
		if n := namedOf(x.X.Type()); n != nil && n.Obj().Pkg() != nil {
			return []string{strings.TrimPrefix(n.Obj().Pkg().Path(), modulePath+"/") + "." + n.Obj().Name()}
		}
	case *ssa.Call:
		if cal := x.Call.StaticCallee(); cal != nil {
			var out []string
			for _, b := range cal.Blocks {
				if ret, ok := b.Instrs[len(b.Instrs)-1].(*ssa.Return); ok && len(ret.Results) == 1 {
					out = append(out, dynamicTypesOf(ret.Results[0], depth+1)...)
				}
			}
			return out
		}
	case *ssa.Phi:
		var out []string
		for _, e := range x.Edges {
			out = append(out, dynamicTypesOf(e, depth+1)...)
		}
		return out
	case *ssa.UnOp:
		// load of a local holding the value
		if al, ok := x.X.(*ssa.Alloc); ok {
			var out []string
			for _, ref := range *al.Referrers() {
				if st, ok := ref.(*ssa.Store); ok {
					out = append(out, dynamicTypesOf(st.Val, depth+1)...)
				}
			}
			return out
		}
	}
	return nil
}

func allocatedOutsideInit(w *World, T *types.Named) bool {
	cg := w.CallGraph()
	initOnly := func(fn *ssa.Function) bool {
		if strings.HasPrefix(fn.Name(), "init") {
			return true
		}
		n := cg.Nodes[fn]
		if n == nil || len(n.In) == 0 {
			return false
		}
		for _, in := range n.In {
			if !strings.HasPrefix(in.Caller.Func.Name(), "init") {
				return false
			}
		}
		return true
	}
	for _, fn := range w.Funcs {
		if initOnly(fn) {
			continue
		}
		for _, b := range fn.Blocks {
			for _, ins := range b.Instrs {
				if al, ok := ins.(*ssa.Alloc); ok && al.Heap {
					if n := namedOf(al.Type()); n != nil && n.Obj() == T.Obj() {
						return true
					}
				}
			}
		}
	}
	return false
}

// ---- REG-type ----

func regType(w *World, r *EngineResult) {
	bp := w.Pkg("base")
	if bp == nil {
		r.undecided("REG-type", "base", "anchors", "unresolved anchor: package base", "-")
		return
	}
	// the T constructor: function of base returning *T with an int parameter stored to the kind field
	tObj := lookupObj(bp, "T")
	if tObj == nil {
		r.undecided("REG-type", "base", "T", "unresolved anchor: type T", "-")
		return
	}
	st := tObj.Type().Underlying().(*types.Struct)
	var kindField *types.Var
	for i := 0; i < st.NumFields(); i++ {
		if b, ok := st.Field(i).Type().(*types.Basic); ok && b.Kind() == types.Int {
			kindField = st.Field(i)
			break
		}
	}
	// renderer: function in base that panics in the default arm of a switch on the kind field
	var renderer *ssa.Function
	for _, fn := range w.Funcs {
		if pkgShort(fn) != "base" || fn.Parent() != nil {
			continue
		}
		hasPanic := false
		for _, b := range fn.Blocks {
			for _, ins := range b.Instrs {
				if _, ok := ins.(*ssa.Panic); ok {
					hasPanic = true
				}
			}
		}
		if hasPanic {
			renderer = fn
		}
	}
	if kindField == nil || renderer == nil {
		r.undecided("REG-type", "base", "renderer", "unresolved anchor: kind field / rendering switch with panicking default", "-")
		return
	}
	// rendered kinds: case constants in the renderer's switch on the kind field
	rendered := map[int64]bool{}
	w.eachFuncDecl(func(p *packages.Package, d *ast.FuncDecl) {
		if obj, ok := p.TypesInfo.Defs[d.Name].(*types.Func); !ok || w.SSAFunc(obj) != renderer {
			return
		}
		ast.Inspect(d.Body, func(n ast.Node) bool {
			sw, ok := n.(*ast.SwitchStmt)
			if !ok || sw.Tag == nil {
				return true
			}
			if sel, ok := sw.Tag.(*ast.SelectorExpr); !ok || p.TypesInfo.ObjectOf(sel.Sel) != kindField {
				return true
			}
			for _, c := range sw.Body.List {
				for _, e := range c.(*ast.CaseClause).List {
					if v, ok := constInt(p.TypesInfo, e); ok {
						rendered[v] = true
					}
				}
			}
			return true
		})
	})
	// kinds that can be constructed: constant second argument of the constructor (function
	// whose int parameter is stored into the kind field)
	var ctor *ssa.Function
	ctorParam := -1
	for _, fn := range w.Funcs {
		if pkgShort(fn) != "base" || fn.Parent() != nil || fn.Signature.Recv() != nil {
			continue
		}
		for _, b := range fn.Blocks {
			for _, ins := range b.Instrs {
				if s, ok := ins.(*ssa.Store); ok {
					if fa, ok := s.Addr.(*ssa.FieldAddr); ok {
						if pt, ok := fa.X.Type().Underlying().(*types.Pointer); ok {
							if stt, ok := pt.Elem().Underlying().(*types.Struct); ok && stt.Field(fa.Field) == kindField {
								for pi, prm := range fn.Params {
									if s.Val == ssa.Value(prm) {
										ctor, ctorParam = fn, pi
									}
								}
							}
						}
					}
				}
			}
		}
	}
	if ctor == nil {
		r.undecided("REG-type", "base", "constructor", "unresolved anchor: function storing its int parameter into the kind field", "-")
		return
	}
	constName := map[int64]string{}
	for _, n := range bp.Types.Scope().Names() {
		if c, ok := bp.Types.Scope().Lookup(n).(*types.Const); ok {
			if v, ok := cInt64(c.Val()); ok && c.Val().Kind() == constant.Int {
				if _, dup := constName[v]; !dup || strings.ToUpper(n) == n {
					constName[v] = n
				}
			}
		}
	}
	built := map[int64][]string{} // kind -> factories
	factoryOf := map[int64][]*ssa.Function{}
	for _, fn := range w.Funcs {
		for _, b := range fn.Blocks {
			for _, ins := range b.Instrs {
				c, ok := ins.(*ssa.Call)
				if !ok || c.Call.StaticCallee() != ctor || ctorParam >= len(c.Call.Args) {
					continue
				}
				k, ok := c.Call.Args[ctorParam].(*ssa.Const)
				if !ok {
					r.undecided("REG-type", fnKey(fn), "kind argument", "a T is built with a non-constant kind", w.pos(instrPos(c)))
					continue
				}
				if v := constVal(k); v.k == kInt {
					built[v.i] = append(built[v.i], fnKey(fn))
					factoryOf[v.i] = append(factoryOf[v.i], fn)
				}
			}
		}
	}
	var ks []int64
	for k := range built {
		ks = append(ks, k)
	}
	sort.Slice(ks, func(i, j int) bool { return ks[i] < ks[j] })
	for _, k := range ks {
		name := constName[k]
		if name == "" {
			name = fmt.Sprint(k)
		}
		if rendered[k] {
			r.holds("REG-type", fnKey(renderer), "kind "+name+" rendered", "built by "+strings.Join(dedupe(built[k]), ",")+"; the rendering switch has a case for it", w.pos(renderer.Pos()))
		} else {
			r.violated("REG-type", fnKey(renderer), "kind "+name+" rendered", "values of this kind are built by "+strings.Join(dedupe(built[k]), ",")+" but the rendering switch has no case: its default arm panics", w.pos(renderer.Pos()))
		}
	}
	r.Stats["kinds_built"] = len(built)
	r.Stats["kinds_rendered"] = len(rendered)
	r.floor("kinds_built", 25)

	// placeholder kinds: factories called only from package builtin (the configuration
	// vocabulary); each must be referenced by a comparison/case in eval or method_evaluator
	cg := w.CallGraph()
	uses := map[int64][]string{}
	for _, short := range []string{"eval", "eval/method_evaluator"} {
		p := w.Pkg(short)
		if p == nil {
			continue
		}
		for id, obj := range p.TypesInfo.Uses {
			c, ok := obj.(*types.Const)
			if !ok || c.Pkg() == nil || c.Pkg().Path() != bp.PkgPath {
				continue
			}
			if v, ok := cInt64(c.Val()); ok {
				// must be in a case clause or a comparison
				if inCaseOrCompare(p, id) {
					uses[v] = append(uses[v], w.pos(id.Pos()))
				}
			}
		}
	}
	nPlace := 0
	for _, k := range ks {
		only := true
		any := false
		for _, f := range factoryOf[k] {
			n := cg.Nodes[f]
			if n == nil {
				continue
			}
			for _, in := range n.In {
				any = true
				cp := pkgShort(in.Caller.Func)
				if cp != "builtin" {
					only = false
				}
			}
		}
		if !any || !only {
			continue
		}
		nPlace++
		name := constName[k]
		if len(uses[k]) > 0 {
			sort.Strings(uses[k])
			r.holds("REG-type", "eval", "placeholder "+name+" resolved", "only the configuration vocabulary builds this kind; resolvers reference it at "+strings.Join(uses[k], ","), uses[k][0])
		} else {
			r.violated("REG-type", "eval", "placeholder "+name+" resolved", "only the configuration vocabulary builds this kind and no comparison or case in eval/method_evaluator refers to it: a configured type of this kind is never resolved and leaks into inferred types", "-")
		}
	}
	r.Stats["placeholder_kinds"] = nPlace
	r.floor("placeholder_kinds", 9)
}

func inCaseOrCompare(p *packages.Package, id *ast.Ident) bool {
	f := fileOf(p, id.Pos())
	if f == nil {
		return false
	}
	ok := false
	var stack []ast.Node
	ast.Inspect(f, func(n ast.Node) bool {
		if n == nil {
			stack = stack[:len(stack)-1]
			return true
		}
		if n.Pos() > id.Pos() || n.End() < id.End() {
			return false
		}
		stack = append(stack, n)
		if n == ast.Node(id) {
			for j := len(stack) - 2; j >= 0 && j >= len(stack)-4; j-- {
				switch x := stack[j].(type) {
				case *ast.CaseClause:
					ok = true
				case *ast.BinaryExpr:
					if x.Op == token.EQL || x.Op == token.NEQ {
						ok = true
					}
				}
			}
		}
		return true
	})
	return ok
}

// ---- REG-exit ----

var regExitReviewed = map[string]string{
	"main.main|os.Exit":                 "watchdog: prints timeout and exits 1 (C02 is about never getting here)",
	"cmd.ValidateArgs|os.Exit":          "usage error when no file argument is given (not an analysed input)",
	"loader.GetPreloadFiles|os.Exit":    "malformed .ti-loader.json (configuration error, outside C01's input space)",
	"builtin.init|panic":                "malformed .ti-config JSON (configuration error, outside C01's input space)",
	"base.TypeToString|panic":           "default arm of the rendering switch: unreachable because REG-type shows every constructible kind has a case",
}

func regExit(w *World, r *EngineResult) {
	cg := w.CallGraph()
	var mainFn *ssa.Function
	for _, fn := range w.Funcs {
		if fnKey(fn) == "main.main" {
			mainFn = fn
		}
	}
	if mainFn == nil {
		r.undecided("REG-exit", "main", "main", "unresolved anchor: main.main", "-")
		return
	}
	reach := map[*ssa.Function]bool{}
	var visit func(f *ssa.Function)
	visit = func(f *ssa.Function) {
		if reach[f] {
			return
		}
		reach[f] = true
		if n := cg.Nodes[f]; n != nil {
			for _, e := range n.Out {
				if c := e.Callee.Func; c.Pkg != nil && inModule(c.Pkg.Pkg.Path()) {
					visit(c)
				}
			}
		}
		for _, an := range f.AnonFuncs {
			visit(an)
		}
	}
	visit(mainFn)
	// package initialisers run before main
	for _, fn := range w.Funcs {
		if strings.HasPrefix(fn.Name(), "init") && fn.Parent() == nil && pkgShort(fn) != "cmd/rbs2json" && pkgShort(fn) != "cmd/c2json" {
			visit(fn)
		}
	}
	n := 0
	for _, fn := range w.Funcs {
		if !reach[fn] {
			continue
		}
		for _, b := range fn.Blocks {
			for _, ins := range b.Instrs {
				kind := ""
				switch x := ins.(type) {
				case *ssa.Panic:
					if !x.Pos().IsValid() {
						continue // synthetic (blocking select without matching case)
					}
					kind = "panic"
				case *ssa.Call:
					if cal := x.Call.StaticCallee(); cal != nil {
						if cal.String() == "os.Exit" {
							if c, ok := x.Call.Args[0].(*ssa.Const); ok {
								if v := constVal(c); v.k == kInt && v.i == 0 {
									continue
								}
							}
							kind = "os.Exit"
						}
						if cal.Pkg != nil && cal.Pkg.Pkg.Path() == "log" && (strings.HasPrefix(cal.Name(), "Fatal") || strings.HasPrefix(cal.Name(), "Panic")) {
							kind = "log." + cal.Name()
						}
					}
				}
				if kind == "" {
					continue
				}
				n++
				top := fn
				for top.Parent() != nil {
					top = top.Parent()
				}
				name := fnKey(top)
				if strings.HasPrefix(top.Name(), "init") {
					name = pkgShort(top) + ".init"
				}
				key := name + "|" + kind
				if why, ok := regExitReviewed[key]; ok {
					r.Reviewed["REG-exit|"+key] = why
					r.add(Obligation{Rule: "REG-exit", Func: name, Construct: kind, Verdict: Holds, Detail: "reviewed abnormal exit", Pos: w.pos(instrPos(ins)), Reviewed: why})
				} else {
					r.violated("REG-exit", name, kind, "abnormal termination ("+kind+") reachable from main that is not in the reviewed set: an input that reaches it ends the run with a crash or non-zero status", w.pos(instrPos(ins)))
				}
			}
		}
	}
	r.Stats["abnormal_exit_sites"] = n
	r.Stats["functions_reachable_from_main"] = len(reach)
	r.floor("abnormal_exit_sites", 5)
	r.floor("functions_reachable_from_main", 400)
}

// ---- REG-rounds ----

func regRounds(w *World, r *EngineResult) {
	cp := w.Pkg("context")
	if cp == nil {
		r.undecided("REG-rounds", "context", "anchors", "unresolved anchor: package context", "-")
		return
	}
	roundField := structField(cp, "Context", "round")
	if roundField == nil {
		// by role: the only string field compared with literals in predicate methods
		r.undecided("REG-rounds", "context", "round field", "unresolved anchor: round field of Context", "-")
		return
	}
	// produced: the string slice literal returned by the parameterless function returning []string
	var rounds []string
	for _, file := range cp.Syntax {
		for _, d := range file.Decls {
			fd, ok := d.(*ast.FuncDecl)
			if !ok || fd.Recv != nil || fd.Body == nil || fd.Type.Params.NumFields() != 0 || fd.Type.Results.NumFields() != 1 {
				continue
			}
			ast.Inspect(fd.Body, func(n ast.Node) bool {
				if cl, ok := n.(*ast.CompositeLit); ok {
					if sl, ok := cp.TypesInfo.TypeOf(cl).Underlying().(*types.Slice); ok {
						if b, ok := sl.Elem().Underlying().(*types.Basic); ok && b.Kind() == types.String {
							for _, e := range cl.Elts {
								if tv := cp.TypesInfo.Types[e]; tv.Value != nil {
									rounds = append(rounds, constant.StringVal(tv.Value))
								}
							}
						}
					}
				}
				return true
			})
		}
	}
	if len(rounds) == 0 {
		r.undecided("REG-rounds", "context", "round list", "unresolved anchor: []string literal of round names", "-")
		return
	}
	isRound := map[string]bool{}
	for _, s := range rounds {
		isRound[s] = true
	}
	n := 0
	for _, p := range w.Pkgs {
		for _, file := range p.Syntax {
			var cur *ast.FuncDecl
			ast.Inspect(file, func(nd ast.Node) bool {
				if fd, ok := nd.(*ast.FuncDecl); ok {
					cur = fd
				}
				be, ok := nd.(*ast.BinaryExpr)
				if !ok || (be.Op != token.EQL && be.Op != token.NEQ) {
					return true
				}
				for _, pair := range [][2]ast.Expr{{be.X, be.Y}, {be.Y, be.X}} {
					isRoundExpr := false
					switch x := pair[0].(type) {
					case *ast.SelectorExpr:
						isRoundExpr = p.TypesInfo.ObjectOf(x.Sel) == roundField
					case *ast.Ident:
						// a parameter named by role: the 'round' parameter of main.evaluationLoop
						if v, ok := p.TypesInfo.ObjectOf(x).(*types.Var); ok && v.Name() == "round" {
							isRoundExpr = true
						}
					}
					tv := p.TypesInfo.Types[pair[1]]
					if !isRoundExpr || tv.Value == nil || tv.Value.Kind() != constant.String {
						continue
					}
					n++
					lit := constant.StringVal(tv.Value)
					fname := "?"
					if cur != nil {
						fname = declKey(w, p, cur)
					}
					if isRound[lit] {
						r.holds("REG-rounds", fname, fmt.Sprintf("round == %q", lit), "the literal is one of the rounds "+fmt.Sprint(rounds), w.pos(be.Pos()))
					} else {
						r.violated("REG-rounds", fname, fmt.Sprintf("round == %q", lit), "compared with a round name that the round list "+fmt.Sprint(rounds)+" never produces: the branch is dead or always taken", w.pos(be.Pos()))
					}
				}
				return true
			})
		}
	}
	// the reporting round (the one in which Fatal records) must be the last round
	last := rounds[len(rounds)-1]
	pp := w.Pkg("parser")
	if pp != nil {
		found := false
		// the reporting predicate, by role: the parameterless Context method tested by the
		// parser method that takes an error and appends to a []error field
		var pred types.Object
		for _, file := range pp.Syntax {
			for _, d := range file.Decls {
				fd, ok := d.(*ast.FuncDecl)
				if !ok || fd.Body == nil || fd.Recv == nil {
					continue
				}
				takesErr := false
				for _, f := range fd.Type.Params.List {
					if t := pp.TypesInfo.TypeOf(f.Type); t != nil && types.Identical(t, errorType) {
						takesErr = true
					}
				}
				if !takesErr {
					continue
				}
				// the function records: it appends to a []error field somewhere in its body
				records := false
				ast.Inspect(fd.Body, func(m ast.Node) bool {
					if as, ok := m.(*ast.AssignStmt); ok && len(as.Lhs) == 1 {
						if sel, ok := as.Lhs[0].(*ast.SelectorExpr); ok {
							if v, ok := pp.TypesInfo.ObjectOf(sel.Sel).(*types.Var); ok && v.IsField() {
								if sl, ok := v.Type().Underlying().(*types.Slice); ok && types.Identical(sl.Elem(), errorType) {
									records = true
								}
							}
						}
					}
					return true
				})
				if !records {
					continue
				}
				// the round test that guards it: `if ctx.P() { record }` or `if !ctx.P() { return }`
				ast.Inspect(fd.Body, func(nd ast.Node) bool {
					ifs, ok := nd.(*ast.IfStmt)
					if !ok {
						return true
					}
					for _, cj := range conjuncts(ifs.Cond) {
						e := ast.Unparen(cj)
						if u, ok := e.(*ast.UnaryExpr); ok && u.Op == token.NOT {
							e = ast.Unparen(u.X)
						}
						if call, ok := e.(*ast.CallExpr); ok && len(call.Args) == 0 {
							if sel, ok := call.Fun.(*ast.SelectorExpr); ok {
								if fo, ok := pp.TypesInfo.ObjectOf(sel.Sel).(*types.Func); ok && fo.Pkg() != nil && fo.Pkg().Path() == cp.PkgPath {
									pred = fo
								}
							}
						}
					}
					return true
				})
			}
		}
		for _, file := range cp.Syntax {
			for _, d := range file.Decls {
				fd, ok := d.(*ast.FuncDecl)
				if !ok || fd.Body == nil || pred == nil || cp.TypesInfo.ObjectOf(fd.Name) != pred {
					continue
				}
				fname := declKey(w, cp, fd)
				ast.Inspect(fd.Body, func(nd ast.Node) bool {
					be, ok := nd.(*ast.BinaryExpr)
					if !ok || be.Op != token.EQL {
						return true
					}
					for _, pair := range [][2]ast.Expr{{be.X, be.Y}, {be.Y, be.X}} {
						sel, ok := pair[0].(*ast.SelectorExpr)
						if !ok || cp.TypesInfo.ObjectOf(sel.Sel) != roundField {
							continue
						}
						tv := cp.TypesInfo.Types[pair[1]]
						if tv.Value == nil || tv.Value.Kind() != constant.String {
							continue
						}
						found = true
						if constant.StringVal(tv.Value) == last {
							r.holds("REG-rounds", fname, "reporting round is last", "diagnostics are recorded in round "+last+", the last element of the round list", w.pos(be.Pos()))
						} else {
							r.violated("REG-rounds", fname, "reporting round is last", "diagnostics are recorded in a round that is not the last of "+fmt.Sprint(rounds), w.pos(be.Pos()))
						}
					}
					return true
				})
			}
		}
		if !found {
			r.undecided("REG-rounds", "context", "reporting round", "unresolved anchor: the predicate that selects the reporting round", "-")
		}
	}
	r.Stats["round_comparisons"] = n
	r.Stats["rounds"] = len(rounds)
	r.floor("round_comparisons", 5)
}


// litsAtCallers: recvObj is a parameter of d; every call of d in the module passes an
// identifier on which a dominating predicate fixes the key. The literals of all call sites
// are joined; no call site, a call site without such a predicate, or a use of d as a value
// gives no answer.
func litsAtCallers(w *World, info *types.Info, d *ast.FuncDecl, recvObj types.Object, dom func(*types.Info, []ast.Node, ast.Node, types.Object) ([]string, bool)) ([]string, bool) {
	fobj := info.ObjectOf(d.Name)
	idx := -1
	n := 0
	if d.Type.Params != nil {
		for _, f := range d.Type.Params.List {
			for _, nm := range f.Names {
				if info.ObjectOf(nm) == recvObj {
					idx = n
				}
				n++
			}
		}
	}
	if fobj == nil || idx < 0 {
		return nil, false
	}
	var all []string
	sites, bad := 0, false
	w.eachFuncDecl(func(p2 *packages.Package, d2 *ast.FuncDecl) {
		info2 := p2.TypesInfo
		var stack []ast.Node
		ast.Inspect(d2.Body, func(n ast.Node) bool {
			if n == nil {
				stack = stack[:len(stack)-1]
				return true
			}
			stack = append(stack, n)
			switch x := n.(type) {
			case *ast.CallExpr:
				var callee types.Object
				switch f := ast.Unparen(x.Fun).(type) {
				case *ast.Ident:
					callee = info2.ObjectOf(f)
				case *ast.SelectorExpr:
					callee = info2.ObjectOf(f.Sel)
				}
				if callee != fobj {
					return true
				}
				sites++
				if idx >= len(x.Args) {
					bad = true
					return true
				}
				id, ok := ast.Unparen(x.Args[idx]).(*ast.Ident)
				if !ok {
					bad = true
					return true
				}
				ls, ok := dom(info2, stack, x, info2.ObjectOf(id))
				if !ok {
					bad = true
					return true
				}
				all = append(all, ls...)
			case *ast.Ident:
				// the function used as a value (not the Fun of a call): unknown callers
				if info2.Uses[x] == fobj && len(stack) >= 2 {
					isFun := false
					switch par := stack[len(stack)-2].(type) {
					case *ast.CallExpr:
						isFun = ast.Unparen(par.Fun) == ast.Expr(x)
					case *ast.SelectorExpr:
						if len(stack) >= 3 {
							if c, ok := stack[len(stack)-3].(*ast.CallExpr); ok && ast.Unparen(c.Fun) == ast.Expr(par) {
								isFun = true
							}
						}
					}
					if !isFun {
						bad = true
					}
				}
			}
			return true
		})
	})
	if bad || sites == 0 {
		return nil, false
	}
	sort.Strings(all)
	return dedupe(all), true
}
