package main

import (
	"fmt"
	"go/types"
	"strings"

	"golang.org/x/tools/go/ssa"
)

// MEMO — a memo table is keyed by everything the memoised computation depends on.
//
// Pattern: `v, ok := cache[k]; if !ok { v = f(a1 … an); cache[k] = v }`. Inside the loop
// (or function) that uses the cache, every argument of f that varies from one use to the
// next must be determined by k: its backward slice ends in k itself (the same canonical
// expression), in values that do not vary, or in look-ups keyed by those. An argument that
// varies independently of the key makes the second use return the first use's result.
func init() { engines["MEMO"] = engineMEMO }

func engineMEMO(w *World, tier string) *EngineResult {
	r := newResult("MEMO", "for every memo table (look-up with presence test, computation and store of its result under the same key on the miss path): each argument of the memoised call is the key, is determined by the key, or does not vary between the uses of the table")
	ix := &ixCtx{w: w, pure: map[*ssa.Function]int8{}, predSumm: map[*ssa.Function]map[string]int{}, inProg: map[*ssa.Function]bool{}}
	n := 0
	examined := map[string]int{}
	found := map[string]int{}
	for _, fn := range w.Funcs {
		loops := findLoops(fn)
		ord := 0
		examined[pkgShort(fn)] += 0
		for _, b := range fn.Blocks {
			for _, ins := range b.Instrs {
				lk, ok := ins.(*ssa.Lookup)
				if !ok || !lk.CommaOk {
					continue
				}
				if _, isMap := lk.X.Type().Underlying().(*types.Map); !isMap {
					continue
				}
				// the presence test
				var okv ssa.Value
				for _, ref := range *lk.Referrers() {
					if ex, isEx := ref.(*ssa.Extract); isEx && ex.Index == 1 {
						okv = ex
					}
				}
				iff, isIf := b.Instrs[len(b.Instrs)-1].(*ssa.If)
				if okv == nil || !isIf {
					continue
				}
				examined[pkgShort(fn)]++
				miss := (*ssa.BasicBlock)(nil)
				switch c := iff.Cond.(type) {
				case *ssa.UnOp:
					if c.X == okv {
						miss = b.Succs[0]
					}
				default:
					if iff.Cond == okv {
						miss = b.Succs[1]
					}
				}
				if miss == nil {
					continue
				}
				// on the miss path: a call whose result is stored into the same map under the same key
				keyK := ix.exprKey(lk.Index, nil, 0)
				mapK := ix.exprKey(lk.X, nil, 0)
				var call *ssa.Call
				for _, mb := range fn.Blocks {
					if mb != miss && !miss.Dominates(mb) {
						continue
					}
					for _, mi := range mb.Instrs {
						mu, isMU := mi.(*ssa.MapUpdate)
						if !isMU || ix.exprKey(mu.Map, nil, 0) != mapK || ix.exprKey(mu.Key, nil, 0) != keyK {
							continue
						}
						// the stored value comes from a module call made on the miss path
						v := mu.Value
						if ld, isLd := v.(*ssa.UnOp); isLd {
							// value kept in a local cell: find the call stored into it on the miss path
							for _, ref := range *ld.X.Referrers() {
								if st, isSt := ref.(*ssa.Store); isSt && (st.Block() == miss || miss.Dominates(st.Block())) {
									v = st.Val
								}
							}
						}
						if c, isC := v.(*ssa.Call); isC && (c.Block() == miss || miss.Dominates(c.Block())) {
							if cal := c.Call.StaticCallee(); cal != nil && cal.Pkg != nil && inModule(cal.Pkg.Pkg.Path()) {
								call = c
							}
						}
					}
				}
				if call == nil {
					continue
				}
				n++
				ord++
				found[pkgShort(fn)]++
				tbl := w.bracketExprAt(lk.Pos())
				if i := strings.IndexByte(tbl, '['); i > 0 {
					tbl = tbl[:i]
				}
				if tbl == "" {
					tbl = "(table)"
				}
				construct := "memo table " + tbl + " of " + call.Call.StaticCallee().Name()
				if ord > 1 {
					construct += fmt.Sprintf("#%d", ord)
				}
				pos := w.pos(instrPos(lk))
				// scope of variation: the innermost loop containing the look-up whose body does not
				// contain the definition of the map (the table outlives an iteration)
				var scope *natLoop
				for _, l := range loops {
					if !l.body[b] {
						continue
					}
					if def, isIns := rootMapDef(lk.X).(ssa.Instruction); isIns && l.body[def.Block()] {
						continue
					}
					if scope == nil || len(l.body) < len(scope.body) {
						scope = l
					}
				}
				varies := func(v ssa.Value) bool {
					if scope == nil {
						// the table is used once per call of fn: parameters and what derives from
						// them vary between uses only if the table outlives the call (a global)
						return rootGlobal(lk.X) != nil && !isConstLike(v)
					}
					insn, isIns := v.(ssa.Instruction)
					return isIns && scope.body[insn.Block()]
				}
				bad := ""
				for ai, a := range call.Call.Args {
					if why := uncovered(ix, a, keyK, varies, 0, map[ssa.Value]bool{}); why != "" {
						bad = fmt.Sprintf("argument #%d of %s", ai+1, w.bracketExprAt(call.Pos()))
						_ = why
						break
					}
				}
				if bad == "" {
					r.holds("MEMO", fnKey(fn), construct, "every argument of the memoised call is the key, determined by the key, or invariant across the uses of the table", pos)
				} else {
					r.violated("MEMO", fnKey(fn), construct, "the memoised call depends on "+bad+", which varies from one use of the table to the next and is not determined by the key: the second use with the same key returns the first use's result", pos)
				}
			}
		}
	}
	// a package without memo tables satisfies the rule trivially; say so explicitly (the
	// positive example is the seeded variant that the self-test applies)
	for pkg, k := range examined {
		if found[pkg] == 0 {
			r.holds("MEMO", pkg+".(package)", "memo tables", fmt.Sprintf("none: %d map look-ups with a presence test examined, none is followed on its miss path by a module call whose result is stored under the same key", k), "-")
		}
	}
	r.Stats["memo_tables"] = n
	r.finish()
	return r
}

func rootMapDef(v ssa.Value) ssa.Value {
	for i := 0; i < 6; i++ {
		switch x := v.(type) {
		case *ssa.UnOp:
			v = x.X
		case *ssa.ChangeType:
			v = x.X
		default:
			return v
		}
	}
	return v
}

func isConstLike(v ssa.Value) bool {
	switch v.(type) {
	case *ssa.Const, *ssa.Global, *ssa.Function:
		return true
	}
	return false
}

// uncovered: "" if v is the key, determined by the key, or does not vary; otherwise what
// it hangs on.
func uncovered(ix *ixCtx, v ssa.Value, keyK string, varies func(ssa.Value) bool, depth int, seen map[ssa.Value]bool) string {
	if seen[v] || depth > 10 {
		return ""
	}
	seen[v] = true
	if ix.exprKey(v, nil, 0) == keyK {
		return ""
	}
	if !varies(v) {
		return ""
	}
	switch x := v.(type) {
	case *ssa.UnOp:
		// a load: of a field / element of something that varies
		if ix.exprKey(x, nil, 0) == keyK {
			return ""
		}
		if _, isAlloc := x.X.(*ssa.Alloc); isAlloc {
			// a local variable: look at what is stored into it
			for _, ref := range *x.X.Referrers() {
				if st, ok := ref.(*ssa.Store); ok {
					if why := uncovered(ix, st.Val, keyK, varies, depth+1, seen); why != "" {
						return why
					}
				}
			}
			return ""
		}
		return "the value of " + ix.exprKey(x, nil, 0)
	case *ssa.Lookup:
		// a table look-up: determined by its index if the table does not vary
		if why := uncovered(ix, x.Index, keyK, varies, depth+1, seen); why != "" {
			return why
		}
		return uncovered(ix, x.X, keyK, varies, depth+1, seen)
	case *ssa.Extract:
		return uncovered(ix, x.Tuple, keyK, varies, depth+1, seen)
	case *ssa.Field:
		if ix.exprKey(x, nil, 0) == keyK {
			return ""
		}
		return "the value of " + ix.exprKey(x, nil, 0)
	case *ssa.Phi:
		for _, e := range x.Edges {
			if why := uncovered(ix, e, keyK, varies, depth+1, seen); why != "" {
				return why
			}
		}
		return ""
	case *ssa.Call:
		for _, a := range x.Call.Args {
			if why := uncovered(ix, a, keyK, varies, depth+1, seen); why != "" {
				return why
			}
		}
		return ""
	case *ssa.BinOp:
		if why := uncovered(ix, x.X, keyK, varies, depth+1, seen); why != "" {
			return why
		}
		return uncovered(ix, x.Y, keyK, varies, depth+1, seen)
	case *ssa.MakeInterface:
		return uncovered(ix, x.X, keyK, varies, depth+1, seen)
	case *ssa.ChangeType:
		return uncovered(ix, x.X, keyK, varies, depth+1, seen)
	case *ssa.Convert:
		return uncovered(ix, x.X, keyK, varies, depth+1, seen)
	case *ssa.Slice:
		return uncovered(ix, x.X, keyK, varies, depth+1, seen)
	}
	return "a value computed in the loop"
}
