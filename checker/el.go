package main

// EL — an input-driven loop must leave when the input is exhausted.

import (
	"fmt"
	"go/token"
	"go/types"
	"sort"
	"strings"

	"golang.org/x/tools/go/ssa"
)

type natLoop struct {
	head *ssa.BasicBlock
	body map[*ssa.BasicBlock]bool
}

func findLoops(fn *ssa.Function) []*natLoop {
	byHead := map[*ssa.BasicBlock]*natLoop{}
	var order []*natLoop
	for _, b := range fn.Blocks {
		for _, s := range b.Succs {
			if s.Dominates(b) { // back edge b->s
				l := byHead[s]
				if l == nil {
					l = &natLoop{head: s, body: map[*ssa.BasicBlock]bool{s: true}}
					byHead[s] = l
					order = append(order, l)
				}
				stack := []*ssa.BasicBlock{b}
				for len(stack) > 0 {
					n := stack[len(stack)-1]
					stack = stack[:len(stack)-1]
					if l.body[n] {
						continue
					}
					l.body[n] = true
					stack = append(stack, n.Preds...)
				}
			}
		}
	}
	sort.Slice(order, func(i, j int) bool { return order[i].head.Index < order[j].head.Index })
	return order
}

func isRangeLoop(l *natLoop) bool {
	c := l.head.Comment
	return strings.HasPrefix(c, "rangeindex.") || strings.HasPrefix(c, "rangeiter.") || strings.HasPrefix(c, "rangeint.") || strings.HasPrefix(c, "rangechan.")
}

var elPackages = map[string]bool{"lexer": true, "lexer/reader": true, "parser": true, "eval": true, "eval/method_evaluator": true, "cmd": true, "main": true, "base": true, "builtin": true, "context": true, "loader": true}

type elLoopInfo struct {
	fn        *ssa.Function
	loop      *natLoop
	ordinal   int
	readers   []string // names of reader callees in the body
	direct    bool
	construct string
}

// loopReaders lists the reader callees called in the loop body.
func (a *AE) loopReaders(l *natLoop) (names []string, direct bool) {
	seen := map[string]bool{}
	for b := range l.body {
		for _, ins := range b.Instrs {
			c, ok := ins.(*ssa.Call)
			if !ok {
				continue
			}
			cal := c.Call.StaticCallee()
			if cal == nil {
				continue
			}
			if a.isReader(cal) {
				direct = true
				seen[cal.Name()] = true
			} else if cal.Pkg != nil && inModule(cal.Pkg.Pkg.Path()) && a.reads(cal, 0) {
				seen[cal.Name()] = true
			}
		}
	}
	for n := range seen {
		names = append(names, n)
	}
	sort.Strings(names)
	return
}

func engineEL(w *World, tier string) *EngineResult {
	r := newResult("EL", "every natural loop (non-range) whose body calls a reader primitive (directly or through a helper that reads) is abstractly executed from its header in the EOF environment with all loop-carried values unknown; a path that returns to the header in an abstract state already seen is a cycle that consumes nothing and never leaves: violation")
	a := newAE(w, envEOF, tier)
	nLoops, nInput, nNoInput := 0, 0, 0
	for _, fn := range w.Funcs {
		if !elPackages[pkgShort(fn)] {
			continue
		}
		loops := findLoops(fn)
		ord := 0
		for _, l := range loops {
			nLoops++
			if isRangeLoop(l) {
				r.Stats["range_loops_skipped"]++
				continue
			}
			ord++
			names, _ := a.loopReaders(l)
			construct := fmt.Sprintf("loop#%d", ord)
			if len(names) == 0 {
				nNoInput++
				elNoInput(w, r, fn, l, construct)
				continue
			}
			nInput++
			construct += "(reads " + strings.Join(names, ",") + ")"
			st, detail, path := a.checkLoop(fn, l)
			pos := w.pos(blockPos(l.head))
			switch st {
			case "exits":
				r.holds("EL", fnKey(fn), construct, "every EOF path leaves the loop", pos)
			case "noexit":
				if why, ok := elReviewed["EL|"+fnKey(fn)+"|"+construct]; ok && len(path) > 0 && hasUnknownCond(path) && visitedGuard(fn, l) {
					r.Reviewed["EL|"+fnKey(fn)+"|"+construct] = why
					r.add(Obligation{Rule: "EL", Func: fnKey(fn), Construct: construct, Verdict: Holds, Detail: "reviewed exception (cycle passes conditions that do not depend on the input)", Pos: pos, Reviewed: why})
					continue
				}
				r.violated("EL", fnKey(fn), construct, "at end of input an iteration returns to the loop header in an unchanged abstract state: "+detail, pos, path...)
			default:
				r.undecided("EL", fnKey(fn), construct, detail, pos)
			}
		}
	}
	r.Stats["loops_total"] = nLoops
	r.Stats["input_driven_loops"] = nInput
	r.Stats["non_input_loops"] = nNoInput
	r.Stats["functions_scanned"] = len(w.Funcs)
	r.Stats["ae_function_evaluations"] = a.Evaluated
	r.Stats["ae_states"] = a.States
	r.floor("input_driven_loops", 40)
	r.finish()
	return r
}

// elReviewed: cycles that pass only input-independent conditions and were read.
var elReviewed = map[string]string{
	"EL|eval.(*Def).getChainMethodReturnType|loop#1(reads Eval)": "the loop follows an identifier to what it evaluates to; its exit tests read the frame table, not the input, so the EOF argument does not apply. Since the repair of the `@a, @b = @b, @a` hang every identifier text is entered into a local visited set before it is followed and a repeat leaves the loop: the iterations are bounded by the number of distinct identifier texts. The premise (a look-up in a map made in this function exits the loop, and an update of that map lies on every way back to the header) is re-checked on every run; without it the exception is withdrawn",
}

// visitedGuard: the loop tests membership in a map made in this function and leaves when
// the key is present, and every way back to the header passes an update of that map.
func visitedGuard(fn *ssa.Function, l *natLoop) bool {
	for b := range l.body {
		iff, ok := b.Instrs[len(b.Instrs)-1].(*ssa.If)
		if !ok {
			continue
		}
		// `if visited[k]` (map[K]bool) or `if _, seen := visited[k]; seen` (set of struct{})
		lk, ok := iff.Cond.(*ssa.Lookup)
		if !ok {
			if ex, isEx := iff.Cond.(*ssa.Extract); isEx && ex.Index == 1 {
				lk, ok = ex.Tuple.(*ssa.Lookup)
			}
		}
		if !ok {
			continue
		}
		mk, ok := lk.X.(*ssa.MakeMap)
		if !ok || l.body[mk.Block()] {
			continue
		}
		// present → out of the loop (directly or through a block that only leaves)
		if l.body[b.Succs[0]] {
			onlyLeaves := true
			for _, s2 := range b.Succs[0].Succs {
				if l.body[s2] {
					onlyLeaves = false
				}
			}
			if !onlyLeaves {
				continue
			}
		}
		// an update of the same map on every way back
		var ups []*ssa.BasicBlock
		for ub := range l.body {
			for _, ins := range ub.Instrs {
				if mu, ok := ins.(*ssa.MapUpdate); ok && mu.Map == ssa.Value(mk) {
					ups = append(ups, ub)
				}
			}
		}
		all := len(ups) > 0
		for _, p := range l.head.Preds {
			if !l.body[p] {
				continue
			}
			dominated := false
			for _, u := range ups {
				if u == p || u.Dominates(p) {
					dominated = true
				}
			}
			if !dominated {
				all = false
			}
		}
		if all {
			return true
		}
	}
	return false
}

func hasUnknownCond(path []string) bool {
	for _, s := range path {
		if strings.HasPrefix(s, "cond@") {
			return true
		}
	}
	return false
}

// checkLoop explores the loop from its header in the EOF environment.
func (a *AE) checkLoop(fn *ssa.Function, l *natLoop) (status, detail string, path []string) {
	fr := newFrame(fn, a.budget*4)
	var bad [][]string
	hist := map[string]bool{}
	visited := map[string]bool{}
	var histKey []string

	var walk func(b, pred *ssa.BasicBlock, e aenv, path []string, onpath map[*ssa.BasicBlock]bool, first bool)
	walk = func(b, pred *ssa.BasicBlock, e aenv, path []string, onpath map[*ssa.BasicBlock]bool, first bool) {
		if fr.over || len(bad) >= 3 {
			return
		}
		if !l.body[b] {
			return // left the loop
		}
		e = e.clone()
		i := 0
		for ; i < len(b.Instrs); i++ {
			if ph, ok := b.Instrs[i].(*ssa.Phi); ok {
				a.phi(ph, pred, e)
				continue
			}
			break
		}
		if b == l.head && !first {
			dig := ""
			for _, ins := range b.Instrs {
				ph, ok := ins.(*ssa.Phi)
				if !ok {
					break
				}
				dig += a.get(e, ph).String() + ";"
			}
			if hist[dig] {
				bad = append(bad, append([]string{}, path...))
				return
			}
			hist[dig] = true
			histKey = append(histKey, dig)
			defer func() {
				delete(hist, dig)
				histKey = histKey[:len(histKey)-1]
			}()
			// a new iteration: forget which blocks were on the path and keep only the
			// loop-carried state
			onpath = map[*ssa.BasicBlock]bool{}
			ne := aenv{}
			for _, ins := range b.Instrs {
				ph, ok := ins.(*ssa.Phi)
				if !ok {
					break
				}
				if v, ok := e[ph]; ok {
					ne[ph] = v
				}
			}
			e = ne
		}
		if onpath[b] {
			return // inner cycle: checked as its own loop
		}
		k := fmt.Sprintf("%d|%s|%d:%s", b.Index, a.digestAt(b, e), len(histKey), strings.Join(histKey, "/"))
		if visited[k] {
			return
		}
		visited[k] = true
		fr.states++
		a.States++
		if fr.states > fr.limit {
			fr.over = true
			return
		}
		onpath[b] = true
		defer delete(onpath, b)
		path = append(path, fmt.Sprintf("b%d@%s", b.Index, a.w.pos(blockPos(b))))
		for ; i < len(b.Instrs); i++ {
			ins := b.Instrs[i]
			switch x := ins.(type) {
			case *ssa.Return, *ssa.Panic:
				return
			case *ssa.If:
				c := a.get(e, x.Cond)
				if c.k == kBool {
					if c.b {
						walk(b.Succs[0], b, e, path, onpath, false)
					} else {
						walk(b.Succs[1], b, e, path, onpath, false)
					}
				} else {
					cp := a.w.pos(instrPos(x))
					if cp == "-" {
						if v, ok := x.Cond.(ssa.Instruction); ok {
							cp = a.w.pos(instrPos(v))
						}
					}
					walk(b.Succs[0], b, e, append(path, "cond@"+cp+"=unknown:true"), onpath, false)
					walk(b.Succs[1], b, e, append(path, "cond@"+cp+"=unknown:false"), onpath, false)
				}
				return
			case *ssa.Jump:
				walk(b.Succs[0], b, e, path, onpath, false)
				return
			default:
				if dead := a.step(fr, ins, e); dead {
					return // the path crashes (reported by NT), it does not hang
				}
			}
		}
	}
	walk(l.head, nil, aenv{}, nil, map[*ssa.BasicBlock]bool{}, true)
	if len(bad) > 0 {
		sort.Slice(bad, func(i, j int) bool { return len(bad[i]) < len(bad[j]) })
		p := bad[0]
		var unk []string
		for _, s := range p {
			if strings.HasPrefix(s, "cond@") {
				unk = append(unk, s)
			}
		}
		d := "cycle " + summarisePath(p)
		if len(unk) == 0 {
			d += " (every branch condition on the cycle is known at EOF: unconditional)"
		} else {
			d += fmt.Sprintf(" (passes %d input-independent/unknown conditions)", len(unk))
		}
		return "noexit", d, p
	}
	if fr.over {
		return "undecided", fmt.Sprintf("state budget %d exhausted", fr.limit), nil
	}
	return "exits", "", nil
}

func summarisePath(p []string) string {
	var bs []string
	for _, s := range p {
		if strings.HasPrefix(s, "b") {
			if i := strings.Index(s, "@"); i > 0 {
				bs = append(bs, s[i+1:])
				continue
			}
		}
	}
	// compress consecutive duplicates
	var out []string
	for _, s := range bs {
		if len(out) == 0 || out[len(out)-1] != s {
			out = append(out, s)
		}
	}
	if len(out) > 8 {
		out = append(out[:4], append([]string{"…"}, out[len(out)-3:]...)...)
	}
	return strings.Join(out, " → ")
}

// elNoInput handles loops that are not driven by the reader: a small ranking
// recogniser; anything else must be in the reviewed table.
var elReviewedNoInput = map[string]string{
	"eval.(*Def).getChainMethodReturnType|loop#1": "see the entry of the same loop in elReviewed",
}

func elNoInput(w *World, r *EngineResult, fn *ssa.Function, l *natLoop, construct string) {
	pos := w.pos(blockPos(l.head))
	key := fnKey(fn) + "|" + construct
	if why, ok := rankingRecognised(l); ok {
		r.holds("EL-rank", fnKey(fn), construct, why, pos)
		return
	}
	if reason, ok := elReviewedNoInput[key]; ok {
		r.Reviewed["EL-rank|"+key] = reason
		r.add(Obligation{Rule: "EL-rank", Func: fnKey(fn), Construct: construct, Verdict: Holds, Detail: "reviewed exception", Pos: pos, Reviewed: reason})
		return
	}
	r.undecided("EL-rank", fnKey(fn), construct, "loop without reader call and without a recognised ranking function (integer/len compared with a bound and strictly growing on every back edge, bufio.Scanner.Scan, or shrinking slice)", pos)
}

// rankingRecognised accepts a loop whose exit test lies on every cycle and compares
// (a) a header phi (possibly plus a constant) that strictly grows on every back edge with
// a value the loop does not change, (b) bufio.Scanner.Scan, (c) len of a slice phi that is
// re-sliced [k:] with k>0 on every back edge.
func rankingRecognised(l *natLoop) (string, bool) {
	for b := range l.body {
		iff, ok := b.Instrs[len(b.Instrs)-1].(*ssa.If)
		if !ok {
			continue
		}
		exits := false
		for _, s := range b.Succs {
			if !l.body[s] {
				exits = true
			}
		}
		if !exits {
			continue
		}
		domAll := true
		for _, p := range l.head.Preds {
			if l.body[p] && b != l.head && !b.Dominates(p) {
				domAll = false
			}
		}
		if !domAll {
			continue
		}
		switch c := iff.Cond.(type) {
		case *ssa.BinOp:
			sides := []ssa.Value{c.X, c.Y}
			for i, side := range sides {
				other := sides[1-i]
				// the loop must be left once the growing side has passed the bound: an ordered
				// comparison whose exit edge is the one taken for large values of the growing side.
				// (`!=` / `==` are no ranking argument: a counter that starts above the bound, or
				// steps over it, never meets it.)
				growingExits := func() bool {
					op := c.Op
					if i == 1 { // bound OP growing  →  growing OP' bound
						switch op {
						case token.LSS:
							op = token.GTR
						case token.GTR:
							op = token.LSS
						case token.LEQ:
							op = token.GEQ
						case token.GEQ:
							op = token.LEQ
						}
					}
					exitOnTrue := !l.body[b.Succs[0]]
					exitOnFalse := !l.body[b.Succs[1]]
					switch op {
					case token.GEQ, token.GTR:
						return exitOnTrue
					case token.LSS, token.LEQ:
						return exitOnFalse
					}
					return false
				}
				if ph := counterRoot(l, side); ph != nil && invariantIn(l, other, 0) {
					if growsOnEveryBackEdge(l, ph) && growingExits() {
						return "exit test on every cycle compares a counter that strictly grows on every back edge with a loop-invariant bound, and the exit is taken once the counter has passed it", true
					}
				}
				// len(s) for a slice phi that is replaced by append(s, …) on every back edge
				if call, ok := side.(*ssa.Call); ok {
					if bi, ok := call.Call.Value.(*ssa.Builtin); ok && bi.Name() == "len" && len(call.Call.Args) == 1 {
						if ph, ok := call.Call.Args[0].(*ssa.Phi); ok && ph.Block() == l.head && appendGrownPhi(l, ph) && (invariantIn(l, other, 0) || pureInvariant(l, other)) && growingExits() {
							return "exit test compares the length of a slice that grows by an append on every back edge with a loop-invariant bound, and the exit is taken once the length has passed it", true
						}
					}
				}
				if call, ok := side.(*ssa.Call); ok {
					if bi, ok := call.Call.Value.(*ssa.Builtin); ok && bi.Name() == "len" && len(call.Call.Args) == 1 {
						if ph, ok := call.Call.Args[0].(*ssa.Phi); ok && ph.Block() == l.head && shrinkingPhi(l, ph) {
							return "exit test compares len of a slice that strictly shrinks on every back edge", true
						}
						// len(*cell) where every iteration stores append(*cell, …) back into the cell
						if ld, ok := call.Call.Args[0].(*ssa.UnOp); ok && invariantIn(l, other, 0) && growingCell(l, ld.X) && growingExits() {
							return "exit test compares the length of a slice variable that grows by an append on every iteration with a loop-invariant bound", true
						}
					}
				}
			}
		case *ssa.Call:
			if cal := c.Call.StaticCallee(); cal != nil && cal.String() == "(*bufio.Scanner).Scan" {
				return "exit test is bufio.Scanner.Scan (finite input)", true
			}
		}
	}
	return "", false
}

// counterRoot strips "+ const" and returns the header phi underneath, if any.
func counterRoot(l *natLoop, v ssa.Value) *ssa.Phi {
	for i := 0; i < 4; i++ {
		switch x := v.(type) {
		case *ssa.Phi:
			if x.Block() == l.head {
				return x
			}
			return nil
		case *ssa.BinOp:
			if x.Op.String() != "+" && x.Op.String() != "-" {
				return nil
			}
			if _, ok := x.Y.(*ssa.Const); ok {
				v = x.X
				continue
			}
			if _, ok := x.X.(*ssa.Const); ok && x.Op.String() == "+" {
				v = x.Y
				continue
			}
			return nil
		default:
			return nil
		}
	}
	return nil
}

// invariantIn: v is a constant, defined outside the loop, or len/cap of such a value.
func invariantIn(l *natLoop, v ssa.Value, depth int) bool {
	if depth > 3 {
		return false
	}
	switch x := v.(type) {
	case *ssa.Const, *ssa.Parameter, *ssa.FreeVar, *ssa.Global:
		return true
	case *ssa.Call:
		if bi, ok := x.Call.Value.(*ssa.Builtin); ok && (bi.Name() == "len" || bi.Name() == "cap") {
			return invariantIn(l, x.Call.Args[0], depth+1)
		}
	case *ssa.BinOp:
		if l.body[x.Block()] {
			return invariantIn(l, x.X, depth+1) && invariantIn(l, x.Y, depth+1)
		}
	case *ssa.Slice:
		if l.body[x.Block()] {
			for _, o := range []ssa.Value{x.X, x.Low, x.High, x.Max} {
				if o != nil && !invariantIn(l, o, depth+1) {
					return false
				}
			}
			return true
		}
	}
	if ins, ok := v.(ssa.Instruction); ok {
		return !l.body[ins.Block()]
	}
	return false
}

func growsOnEveryBackEdge(l *natLoop, ph *ssa.Phi) bool {
	var gt, ge func(v ssa.Value, d int) bool
	gt = func(v ssa.Value, d int) bool {
		if d > 8 {
			return false
		}
		switch x := v.(type) {
		case *ssa.BinOp:
			if x.Op.String() == "+" {
				if c, ok := x.Y.(*ssa.Const); ok {
					if cv := constVal(c); cv.k == kInt && cv.i > 0 {
						return ge(x.X, d+1)
					}
				}
				if c, ok := x.X.(*ssa.Const); ok {
					if cv := constVal(c); cv.k == kInt && cv.i > 0 {
						return ge(x.Y, d+1)
					}
				}
			}
		case *ssa.Phi:
			if x == ph || !l.body[x.Block()] {
				return false
			}
			for _, e := range x.Edges {
				if !gt(e, d+1) {
					return false
				}
			}
			return len(x.Edges) > 0
		case *ssa.Extract:
			// result #i of a static module call that is, on every return of the callee,
			// strictly greater than the parameter that receives a value ≥ the counter
			call, ok := x.Tuple.(*ssa.Call)
			if !ok {
				return false
			}
			cal := call.Call.StaticCallee()
			if cal == nil || len(cal.Blocks) == 0 || cal.Pkg == nil || !inModule(cal.Pkg.Pkg.Path()) {
				return false
			}
			// returns that carry a definite error do not count when the caller leaves on error
			// before it can come back to the header
			skipErr := callerLeavesOnError(l, call)
			for ai, a := range call.Call.Args {
				if ai < len(cal.Params) && isIntType(cal.Params[ai].Type()) && ge(a, d+1) && resultExceedsParam(cal, x.Index, cal.Params[ai], skipErr) {
					return true
				}
			}
		}
		return false
	}
	ge = func(v ssa.Value, d int) bool {
		if v == ssa.Value(ph) {
			return true
		}
		if d > 8 {
			return false
		}
		if x, ok := v.(*ssa.Phi); ok && l.body[x.Block()] && x != ph {
			for _, e := range x.Edges {
				if !ge(e, d+1) {
					return false
				}
			}
			return len(x.Edges) > 0
		}
		return gt(v, d)
	}
	n := 0
	for i, p := range ph.Block().Preds {
		if !l.body[p] {
			continue
		}
		n++
		if !gt(ph.Edges[i], 0) {
			return false
		}
	}
	return n > 0
}

// resultExceedsParam: on every return of fn, result #idx is p plus a positive amount (p + k,
// or a value at least p that is then increased by a positive constant).
func resultExceedsParam(fn *ssa.Function, idx int, p *ssa.Parameter, skipErrorReturns bool) bool {
	n := 0
	for _, b := range fn.Blocks {
		rt, ok := b.Instrs[len(b.Instrs)-1].(*ssa.Return)
		if !ok || idx >= len(rt.Results) {
			continue
		}
		if skipErrorReturns && definiteError(rt.Results[len(rt.Results)-1]) {
			continue
		}
		n++
		if !exceeds(rt.Results[idx], p, map[ssa.Value]bool{}, 0) {
			return false
		}
	}
	return n > 0
}

// definiteError: v is an error value that cannot be nil (built by fmt.Errorf / errors.New).
func definiteError(v ssa.Value) bool {
	if !isNamed(v.Type(), "", "error") && v.Type().String() != "error" {
		return false
	}
	switch x := v.(type) {
	case *ssa.Call:
		if cal := x.Call.StaticCallee(); cal != nil && cal.Pkg != nil {
			pp := cal.Pkg.Pkg.Path()
			return (pp == "fmt" && cal.Name() == "Errorf") || (pp == "errors" && cal.Name() == "New")
		}
	case *ssa.MakeInterface:
		return true
	case *ssa.UnOp:
		// a sentinel: package-level error variable whose every store is a definite error
		if g, ok := x.X.(*ssa.Global); ok && x.Op == token.MUL && g.Pkg != nil {
			n := 0
			for _, m := range g.Pkg.Members {
				f, ok := m.(*ssa.Function)
				if !ok {
					continue
				}
				fs := append([]*ssa.Function{f}, f.AnonFuncs...)
				for _, ff := range fs {
					for _, b := range ff.Blocks {
						for _, ins := range b.Instrs {
							if st, ok := ins.(*ssa.Store); ok && st.Addr == ssa.Value(g) {
								n++
								if _, again := st.Val.(*ssa.UnOp); again || !definiteError(st.Val) {
									return false
								}
							}
						}
					}
				}
			}
			return n > 0
		}
	}
	return false
}

// callerLeavesOnError: the error result of call is tested against nil and the loop header
// can only be reached again from the error-free side.
func callerLeavesOnError(l *natLoop, call *ssa.Call) bool {
	res := call.Call.Signature().Results()
	if res.Len() == 0 || res.At(res.Len()-1).Type().String() != "error" {
		return false
	}
	for _, ref := range *call.Referrers() {
		ex, ok := ref.(*ssa.Extract)
		if !ok || ex.Index != res.Len()-1 {
			continue
		}
		for _, r2 := range *ex.Referrers() {
			bo, ok := r2.(*ssa.BinOp)
			if !ok || bo.Op != token.NEQ {
				continue
			}
			k, isC := bo.Y.(*ssa.Const)
			if !isC || !k.IsNil() {
				continue
			}
			for _, r3 := range *bo.Referrers() {
				iff, ok := r3.(*ssa.If)
				if !ok {
					continue
				}
				// the error side must not come back to the header
				errSide := iff.Block().Succs[0]
				seen := map[*ssa.BasicBlock]bool{}
				var back func(b *ssa.BasicBlock) bool
				back = func(b *ssa.BasicBlock) bool {
					if b == l.head {
						return true
					}
					if seen[b] || !l.body[b] {
						return false
					}
					seen[b] = true
					for _, s2 := range b.Succs {
						if back(s2) {
							return true
						}
					}
					return false
				}
				if !back(errSide) {
					return true
				}
			}
		}
	}
	return false
}

// exceeds: v > p by shape.
func exceeds(v ssa.Value, p ssa.Value, assume map[ssa.Value]bool, depth int) bool {
	if depth > 12 {
		return false
	}
	switch x := v.(type) {
	case *ssa.BinOp:
		if x.Op == token.ADD {
			if k, ok := x.Y.(*ssa.Const); ok {
				if cv := constVal(k); cv.k == kInt {
					if cv.i > 0 && atLeast(x.X, p, map[ssa.Value]bool{}, 0) {
						return true
					}
					if cv.i >= 0 {
						return exceeds(x.X, p, assume, depth+1)
					}
				}
			}
		}
	case *ssa.Phi:
		if assume[x] {
			return true
		}
		assume[x] = true
		for _, e := range x.Edges {
			if !exceeds(e, p, assume, depth+1) {
				delete(assume, x)
				return false
			}
		}
		return true
	}
	return false
}

// growingCell: every back-edge source is dominated by a block of the loop that stores
// append(load(cell), …) into cell.
func growingCell(l *natLoop, cell ssa.Value) bool {
	// the same storage: the same address value, or the same field of the same
	// loop-invariant struct pointer (`s.ts` is re-addressed at every use)
	same := func(a ssa.Value) bool {
		if a == cell {
			return true
		}
		fa, ok1 := a.(*ssa.FieldAddr)
		fc, ok2 := cell.(*ssa.FieldAddr)
		return ok1 && ok2 && fa.X == fc.X && fa.Field == fc.Field && invariantIn(l, fc.X, 0)
	}
	var grow []*ssa.BasicBlock
	for b := range l.body {
		for _, ins := range b.Instrs {
			st, ok := ins.(*ssa.Store)
			if !ok || !same(st.Addr) {
				continue
			}
			call, ok := st.Val.(*ssa.Call)
			if !ok {
				return false // the cell is also overwritten with something else
			}
			if bi, ok := call.Call.Value.(*ssa.Builtin); !ok || bi.Name() != "append" || len(call.Call.Args) < 2 {
				return false
			}
			if ld, ok := call.Call.Args[0].(*ssa.UnOp); ok && same(ld.X) {
				grow = append(grow, b)
			} else {
				return false
			}
		}
	}
	if len(grow) == 0 {
		return false
	}
	for _, p := range l.head.Preds {
		if !l.body[p] {
			continue
		}
		ok := false
		for _, g := range grow {
			if g == p || g.Dominates(p) {
				ok = true
			}
		}
		if !ok {
			return false
		}
	}
	return true
}

// appendGrownPhi: every back edge of the header phi carries append(phi, …) with at least
// one element.
func appendGrownPhi(l *natLoop, ph *ssa.Phi) bool {
	ok := false
	for i, p := range ph.Block().Preds {
		if !l.body[p] {
			continue
		}
		call, isCall := ph.Edges[i].(*ssa.Call)
		if !isCall {
			return false
		}
		bi, isB := call.Call.Value.(*ssa.Builtin)
		if !isB || bi.Name() != "append" || len(call.Call.Args) < 2 || call.Call.Args[0] != ssa.Value(ph) {
			return false
		}
		// the appended list is a fresh non-empty variadic slice
		sl, isSl := call.Call.Args[1].(*ssa.Slice)
		if !isSl {
			return false
		}
		al, isAl := sl.X.(*ssa.Alloc)
		if !isAl {
			return false
		}
		at, isArr := al.Type().Underlying().(*types.Pointer).Elem().Underlying().(*types.Array)
		if !isArr || at.Len() < 1 {
			return false
		}
		ok = true
	}
	return ok
}

// pureInvariant: len(f(&local)) or f(&local) where f only reads and the local is not
// written inside the loop.
func pureInvariant(l *natLoop, v ssa.Value) bool {
	if call, ok := v.(*ssa.Call); ok {
		if bi, ok := call.Call.Value.(*ssa.Builtin); ok && bi.Name() == "len" && len(call.Call.Args) == 1 {
			return pureInvariant(l, call.Call.Args[0])
		}
		cal := call.Call.StaticCallee()
		if cal == nil || len(cal.Blocks) == 0 {
			return false
		}
		c := &ixCtx{pure: map[*ssa.Function]int8{}}
		if !c.isPure(cal, 0) {
			return false
		}
		for _, a := range call.Call.Args {
			switch x := a.(type) {
			case *ssa.Alloc:
				// not written inside the loop
				for _, ref := range *x.Referrers() {
					switch y := ref.(type) {
					case *ssa.Store:
						if y.Addr == ssa.Value(x) && l.body[y.Block()] {
							return false
						}
					case *ssa.FieldAddr, *ssa.IndexAddr:
						for _, r2 := range *y.(ssa.Value).Referrers() {
							if st, ok := r2.(*ssa.Store); ok && l.body[st.Block()] {
								return false
							}
						}
					case *ssa.Call:
						if l.body[y.Block()] && y != call {
							if c2 := y.Call.StaticCallee(); c2 == nil || !c.isPure(c2, 0) {
								return false
							}
						}
					}
				}
			default:
				if !invariantIn(l, a, 0) {
					return false
				}
			}
		}
		return true
	}
	return false
}

func shrinkingPhi(l *natLoop, ph *ssa.Phi) bool {
	ok := false
	for i, p := range ph.Block().Preds {
		if !l.body[p] {
			continue
		}
		sl, iss := ph.Edges[i].(*ssa.Slice)
		if !iss || sl.X != ssa.Value(ph) || sl.Low == nil {
			return false
		}
		c, isc := sl.Low.(*ssa.Const)
		if !isc {
			return false
		}
		if v := constVal(c); v.k != kInt || v.i <= 0 {
			return false
		}
		ok = true
	}
	return ok
}
