package main

import (
	"bufio"
	"encoding/json"
	"fmt"
	"os"
	"path/filepath"
	"sort"
	"strings"
)

// Verdicts of an obligation.
const (
	Holds     = "holds"
	Violated  = "violated"
	Undecided = "undecided"
)

// Obligation is one rule instance decided on the current tree. Its identity (Key) holds
// no line numbers: rule | package.function | construct.
type Obligation struct {
	Rule      string   `json:"rule"`
	Func      string   `json:"func"`      // fnKey of the function (or a package-level anchor)
	Construct string   `json:"construct"` // what inside the function, position-free
	Verdict   string   `json:"verdict"`
	Detail    string   `json:"detail,omitempty"` // human readable reason, may hold positions
	Pos       string   `json:"pos,omitempty"`    // file:line at the time of the run (informational)
	Path      []string `json:"path,omitempty"`   // block/condition path for path rules
	Reviewed  string   `json:"reviewed,omitempty"`
}

func (o Obligation) Key() string { return o.Rule + "|" + o.Func + "|" + o.Construct }

// Result of one engine run.
type EngineResult struct {
	Engine      string
	Obligations []Obligation
	Stats       map[string]int    // what was analysed (measured)
	Floors      map[string]int    // minimum instance counts confirmed by hand
	Notes       []string          // free text for evidence
	Reviewed    map[string]string // reviewed exceptions that were matched on this run
	Rule        string            // the rule applied, in words
}

func newResult(engine, rule string) *EngineResult {
	return &EngineResult{Engine: engine, Rule: rule, Stats: map[string]int{}, Floors: map[string]int{}, Reviewed: map[string]string{}}
}

func (r *EngineResult) add(o Obligation) { r.Obligations = append(r.Obligations, o) }

func (r *EngineResult) holds(rule, fn, construct, detail, pos string) {
	r.add(Obligation{Rule: rule, Func: fn, Construct: construct, Verdict: Holds, Detail: detail, Pos: pos})
}
func (r *EngineResult) violated(rule, fn, construct, detail, pos string, path ...string) {
	r.add(Obligation{Rule: rule, Func: fn, Construct: construct, Verdict: Violated, Detail: detail, Pos: pos, Path: path})
}
func (r *EngineResult) undecided(rule, fn, construct, detail, pos string) {
	r.add(Obligation{Rule: rule, Func: fn, Construct: construct, Verdict: Undecided, Detail: detail, Pos: pos})
}

// floor registers "at least n instances of kind k must have been analysed".
func (r *EngineResult) floor(k string, n int) { r.Floors[k] = n }

// dedupe makes obligation keys unique by numbering repeated constructs in position order.
func (r *EngineResult) finish() {
	sort.SliceStable(r.Obligations, func(i, j int) bool {
		a, b := r.Obligations[i], r.Obligations[j]
		if a.Key() != b.Key() {
			return a.Key() < b.Key()
		}
		return posLess(a.Pos, b.Pos)
	})
	seen := map[string]int{}
	for i := range r.Obligations {
		k := r.Obligations[i].Key()
		seen[k]++
		if seen[k] > 1 {
			r.Obligations[i].Construct = fmt.Sprintf("%s#%d", r.Obligations[i].Construct, seen[k])
		}
	}
}

func posLess(a, b string) bool {
	fa, la := splitPos(a)
	fb, lb := splitPos(b)
	if fa != fb {
		return fa < fb
	}
	return la < lb
}

func splitPos(p string) (string, int) {
	i := strings.LastIndex(p, ":")
	if i < 0 {
		return p, 0
	}
	n := 0
	fmt.Sscanf(p[i+1:], "%d", &n)
	return p[:i], n
}

// ---- known findings ----

type KnownFinding struct {
	Status   string `json:"status"` // "known" | "fixed"
	Property string `json:"property"`
	Key      string `json:"key"`
	What     string `json:"what"`
	Witness  string `json:"witness,omitempty"`
	Commit   string `json:"commit,omitempty"`
}

func verifDir() string {
	if d := os.Getenv("VERIF_DIR"); d != "" {
		return d
	}
	return "/verif"
}

func loadKnown() ([]KnownFinding, error) {
	f, err := os.Open(filepath.Join(verifDir(), "known_findings.jsonl"))
	if err != nil {
		if os.IsNotExist(err) {
			return nil, nil
		}
		return nil, err
	}
	defer f.Close()
	var out []KnownFinding
	sc := bufio.NewScanner(f)
	sc.Buffer(make([]byte, 1<<20), 1<<20)
	ln := 0
	for sc.Scan() {
		ln++
		line := strings.TrimSpace(sc.Text())
		if line == "" || strings.HasPrefix(line, "#") || strings.HasPrefix(line, "fixed:") {
			continue
		}
		var k KnownFinding
		if err := json.Unmarshal([]byte(line), &k); err != nil {
			return nil, fmt.Errorf("known_findings.jsonl:%d: %v", ln, err)
		}
		out = append(out, k)
	}
	return out, sc.Err()
}

// ---- evidence ----

type Evidence struct {
	PropertyID  string         `json:"property_id"`
	Tier        string         `json:"tier"`
	Seed        int            `json:"seed"`
	Level       string         `json:"level"`
	Coverage    map[string]any `json:"coverage"`
	Assumptions []string       `json:"assumptions"`
	WallS       float64        `json:"wall_s"`
	Violations  int            `json:"violations"`
}

func writeJSON(path string, v any) error {
	if err := os.MkdirAll(filepath.Dir(path), 0o755); err != nil {
		return err
	}
	b, err := json.MarshalIndent(v, "", " ")
	if err != nil {
		return err
	}
	tmp := path + ".tmp"
	if err := os.WriteFile(tmp, append(b, '\n'), 0o644); err != nil {
		return err
	}
	return os.Rename(tmp, path)
}
