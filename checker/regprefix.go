package main

import (
	"fmt"
	"go/constant"
	"go/token"
	"go/types"
	"strings"

	"golang.org/x/tools/go/ssa"
)

// REG-prefix (C26, C25): the loader reads the `?T` / `*T` prefix of an argument as
// "has a default" / "rest" only when the argument's type list has exactly one entry (in a
// longer list `?T` is the union of T and nil, and the argument is required). Whether that
// is so is derived from the loader on every run. If it is, every type list a converter tool
// stores into the `type` key must keep a prefixed entry alone: a list literal that may hold
// a prefixed constant has length 1, and no list that may hold one is extended afterwards.
func regPrefix(w *World, r *EngineResult) {
	bp := w.Pkg("builtin")
	if bp == nil {
		r.undecided("REG-prefix", "builtin", "anchors", "unresolved anchor: package builtin", "-")
		return
	}
	isTypeField := func(v ssa.Value) bool {
		fa, ok := v.(*ssa.FieldAddr)
		if !ok {
			return false
		}
		pt, ok := fa.X.Type().Underlying().(*types.Pointer)
		if !ok {
			return false
		}
		st, ok := pt.Elem().Underlying().(*types.Struct)
		if !ok || jsonTag(st, fa.Field) != "type" {
			return false
		}
		sl, ok := st.Field(fa.Field).Type().Underlying().(*types.Slice)
		return ok && isStringType(sl.Elem())
	}
	isTypeFieldVal := func(v ssa.Value) bool { // struct value field
		f, ok := v.(*ssa.Field)
		if !ok {
			return false
		}
		st, ok := f.X.Type().Underlying().(*types.Struct)
		return ok && jsonTag(st, f.Field) == "type"
	}
	// ---- loader side
	prefixTests, dominated := 0, 0
	var loaderFn string
	for _, fn := range w.Funcs {
		if pkgShort(fn) != "builtin" {
			continue
		}
		// len(<type field>) == 1 tests
		var lenOne []*ssa.BasicBlock // true successors
		for _, b := range fn.Blocks {
			iff, ok := b.Instrs[len(b.Instrs)-1].(*ssa.If)
			if !ok {
				continue
			}
			bo, ok := iff.Cond.(*ssa.BinOp)
			if !ok || bo.Op != token.EQL {
				continue
			}
			for _, pr := range [][2]ssa.Value{{bo.X, bo.Y}, {bo.Y, bo.X}} {
				k, ok := pr[1].(*ssa.Const)
				if !ok || k.Value == nil || k.Value.Kind() != constant.Int || k.Int64() != 1 {
					continue
				}
				c, ok := pr[0].(*ssa.Call)
				if !ok {
					continue
				}
				if bi, ok := c.Call.Value.(*ssa.Builtin); !ok || bi.Name() != "len" {
					continue
				}
				x := c.Call.Args[0]
				if u, ok := x.(*ssa.UnOp); ok && isTypeField(u.X) {
					lenOne = append(lenOne, b.Succs[0])
				} else if isTypeFieldVal(x) {
					lenOne = append(lenOne, b.Succs[0])
				}
			}
		}
		if len(lenOne) == 0 {
			continue
		}
		for _, b := range fn.Blocks {
			iff, ok := b.Instrs[len(b.Instrs)-1].(*ssa.If)
			if !ok {
				continue
			}
			bo, ok := iff.Cond.(*ssa.BinOp)
			if !ok || bo.Op != token.EQL {
				continue
			}
			for _, pr := range [][2]ssa.Value{{bo.X, bo.Y}, {bo.Y, bo.X}} {
				ix, ok := pr[0].(*ssa.Index)
				if !ok || !isStringType(ix.X.Type()) {
					continue
				}
				k, ok := pr[1].(*ssa.Const)
				if !ok || k.Value == nil || (k.Int64() != '?' && k.Int64() != '*') {
					continue
				}
				prefixTests++
				loaderFn = fnKey(fn)
				for _, t := range lenOne {
					if t.Dominates(b) {
						dominated++
						break
					}
				}
			}
		}
	}
	r.Stats["loader_argument_prefix_tests"] = prefixTests
	if prefixTests == 0 {
		r.undecided("REG-prefix", "builtin", "argument prefix tests", "unresolved anchor: no test of a type string's first character against `?` / `*` next to a len(type list) == 1 test in the loader", "-")
		return
	}
	singletonOnly := dominated == prefixTests
	r.Notes = append(r.Notes, fmt.Sprintf("loader (%s): %d of %d argument prefix tests are dominated by len(type list) == 1", loaderFn, dominated, prefixTests))

	// ---- tool side
	n := 0
	for _, short := range []string{"cmd/rbs2json", "cmd/c2json"} {
		// can a literal stored to a type field of this package hold a prefixed constant?
		type site struct {
			fn  *ssa.Function
			st  *ssa.Store
			len int // literal length, -1: not a literal
			pre []string
			app bool // append onto a type list
		}
		var sites []site
		anyPrefixed := []string{}
		for _, fn := range w.Funcs {
			if pkgShort(fn) != short {
				continue
			}
			for _, b := range fn.Blocks {
				for _, ins := range b.Instrs {
					st, ok := ins.(*ssa.Store)
					if !ok || !isTypeField(st.Addr) {
						continue
					}
					s := site{fn: fn, st: st, len: -1}
					switch v := st.Val.(type) {
					case *ssa.Slice:
						if al, ok := v.X.(*ssa.Alloc); ok {
							if at, ok := al.Type().Underlying().(*types.Pointer).Elem().Underlying().(*types.Array); ok {
								s.len = int(at.Len())
								for _, ref := range *al.Referrers() {
									if ia, ok := ref.(*ssa.IndexAddr); ok {
										for _, r2 := range *ia.Referrers() {
											if es, ok := r2.(*ssa.Store); ok && es.Addr == ia {
												for _, c := range possibleStrings(es.Val, 0, map[ssa.Value]bool{}) {
													if strings.HasPrefix(c, "?") || strings.HasPrefix(c, "*") {
														s.pre = append(s.pre, c)
													}
												}
											}
										}
									}
								}
							}
						}
					case *ssa.Call:
						if bi, ok := v.Call.Value.(*ssa.Builtin); ok && bi.Name() == "append" {
							if u, ok := v.Call.Args[0].(*ssa.UnOp); ok && isTypeField(u.X) {
								s.app = true
							}
						}
					}
					anyPrefixed = append(anyPrefixed, s.pre...)
					sites = append(sites, s)
				}
			}
		}
		ord := map[string]int{}
		for _, s := range sites {
			n++
			construct := "type list stored to the `type` key"
			if s.app {
				construct = "type list extended in place"
			}
			key := fnKey(s.fn) + construct
			ord[key]++
			if ord[key] > 1 {
				construct = fmt.Sprintf("%s#%d", construct, ord[key])
			}
			pos := w.pos(instrPos(s.st))
			switch {
			case !singletonOnly:
				r.holds("REG-prefix", fnKey(s.fn), construct, "the loader interprets argument prefixes in type lists of any length", pos)
			case s.app && len(anyPrefixed) > 0:
				r.violated("REG-prefix", fnKey(s.fn), construct, fmt.Sprintf("a type list that may hold the prefixed entry %q is extended: the loader reads `?T` / `*T` as default / rest only in a one-entry list, so the argument becomes a required union", anyPrefixed[0]), pos)
			case s.len > 1 && len(s.pre) > 0:
				r.violated("REG-prefix", fnKey(s.fn), construct, fmt.Sprintf("a list of %d entries may hold the prefixed entry %q: the loader reads the prefix as default / rest only in a one-entry list", s.len, s.pre[0]), pos)
			case len(s.pre) > 0:
				r.holds("REG-prefix", fnKey(s.fn), construct, fmt.Sprintf("one-entry list; may hold the prefixed entry %q", s.pre[0]), pos)
			default:
				r.holds("REG-prefix", fnKey(s.fn), construct, "no prefixed constant can be an entry of this list", pos)
			}
		}
	}
	r.Stats["type_list_stores_in_tools"] = n
	r.floor("type_list_stores_in_tools", 10)
}

// possibleStrings: string constants v can be (through phis); unknown parts are ignored.
func possibleStrings(v ssa.Value, depth int, seen map[ssa.Value]bool) []string {
	if seen[v] || depth > 6 {
		return nil
	}
	seen[v] = true
	switch x := v.(type) {
	case *ssa.Const:
		if x.Value != nil && x.Value.Kind() == constant.String {
			return []string{constant.StringVal(x.Value)}
		}
	case *ssa.Phi:
		var out []string
		for _, e := range x.Edges {
			out = append(out, possibleStrings(e, depth+1, seen)...)
		}
		return out
	case *ssa.BinOp:
		if x.Op == token.ADD {
			// "?" + t : the prefix is what matters
			l := possibleStrings(x.X, depth+1, seen)
			var out []string
			for _, s := range l {
				out = append(out, s+"…")
			}
			return out
		}
	case *ssa.UnOp:
		if al, ok := x.X.(*ssa.Alloc); ok && x.Op == token.MUL {
			var out []string
			for _, ref := range *al.Referrers() {
				if st, ok := ref.(*ssa.Store); ok && st.Addr == al {
					out = append(out, possibleStrings(st.Val, depth+1, seen)...)
				}
			}
			return out
		}
	}
	return nil
}
