package main

// TB — a shared configured *T is never written without a deep copy.

import (
	"fmt"
	"go/types"
	"sort"
	"strings"

	"golang.org/x/tools/go/ssa"
)

// unprotected fields of base.T: labels and per-use annotations that the evaluator
// rewrites at every lookup and that do not belong to the declared signature.
var tbUnprotected = map[string]bool{
	"beforeEvaluateCode": true, "IsBeforeSpace": true, "ID": true, "Round": true, "isInfferedFromCall": true,
	"isReadOnly": true, "owner": true, "IsExtend": true, "IsInclude": true,
}

type tbCtx struct {
	w            *World
	tType        *types.Named
	mutators     map[*ssa.Function]map[int]string // fn -> param index -> field written (transitively)
	retTaint     map[*ssa.Function]bool           // returns a pointer into the shared method table
	paramTaint   map[*ssa.Function]map[int]bool
	paramKinds   map[*ssa.Function]map[int]int
	aliasMemo    map[string]int
	sanitizers   map[*ssa.Function]bool // DeepCopy-like: returns a fresh deep copy of its receiver
	guardPreds   map[*ssa.Function]bool // IsBuiltin / IsBuiltinMethod
	publish      map[*ssa.Function]int  // function -> param index that is published as an assignable l-value
	tframe       *ssa.Global
}

func isTPtr(t types.Type) bool { return isPtrToNamed(t, modulePath+"/base", "T") }

func engineTB(w *World, tier string) *EngineResult {
	r := newResult("TB", "taint over go/ssa with per-function summaries: pointers obtained from the shared method table (map loads of the frame table in the method lookups, their callers' results, pointers into the variants of such entries, elements of slices they were appended to, parameters that receive them at some call site) must not reach (a) a store to a protected field of T, (b) a call of a method/function whose effect summary stores to a protected field of that argument, (c) publication as the parser's assignable last-evaluated value (assignment writes through it); a deep copy cleans the value, and so does the false edge of the is-builtin predicates (then the entry is not a configured one)")
	c := &tbCtx{w: w, mutators: map[*ssa.Function]map[int]string{}, retTaint: map[*ssa.Function]bool{}, paramTaint: map[*ssa.Function]map[int]bool{},
		paramKinds: map[*ssa.Function]map[int]int{}, aliasMemo: map[string]int{}, sanitizers: map[*ssa.Function]bool{}, guardPreds: map[*ssa.Function]bool{}, publish: map[*ssa.Function]int{}}
	bp := w.Prog.ImportedPackage(modulePath + "/base")
	if bp == nil {
		r.undecided("TB", "base", "anchors", "unresolved anchor: package base", "-")
		r.finish()
		return r
	}
	// frame table: package-level map[FrameKey]*T
	for _, m := range bp.Members {
		if g, ok := m.(*ssa.Global); ok {
			if mt, ok := g.Type().(*types.Pointer).Elem().Underlying().(*types.Map); ok && isTPtr(mt.Elem()) {
				c.tframe = g
			}
		}
	}
	if c.tframe == nil {
		r.undecided("TB", "base", "frame table", "unresolved anchor: package-level map[…]*T", "-")
		r.finish()
		return r
	}
	c.findSanitizers()
	c.findGuards()
	c.findMutators()
	c.findPublication()
	c.findReturnTaint()
	c.propagateParams()

	// report sinks
	nSrc, nSinks := 0, 0
	for _, fn := range w.Funcs {
		ps := pkgShort(fn)
		if ps == "builtin" || ps == "cmd/rbs2json" || ps == "cmd/c2json" || ps == "base" && strings.HasPrefix(fn.Name(), "init") {
			continue // the loader builds the entries; it is supposed to write them
		}
		taint := c.localTaint(fn)
		for v := range taint {
			if call, ok := v.(*ssa.Call); ok && c.isSourceCall(call) {
				nSrc++
			}
		}
		ownParam := func(v ssa.Value) bool {
			// strip element/field addressing: &t.variants[i] is still "the parameter's own state"
			for i := 0; i < 6; i++ {
				switch x := v.(type) {
				case *ssa.IndexAddr:
					v = x.X
					continue
				case *ssa.FieldAddr:
					v = x.X
					continue
				case *ssa.UnOp:
					v = x.X
					continue
				}
				break
			}
			for pi, prm := range fn.Params {
				if v == ssa.Value(prm) {
					if _, isMut := c.mutators[fn][pi]; isMut {
						return true // reported at the call sites of this mutator
					}
				}
			}
			return false
		}
		ord := map[string]int{}
		report := func(construct, detail, pos string) {
			ord[construct]++
			if ord[construct] > 1 {
				construct = fmt.Sprintf("%s#%d", construct, ord[construct])
			}
			nSinks++
			key := "TB|" + fnKey(fn) + "|" + construct
			if why, ok := tbReviewed[key]; ok {
				r.Reviewed[key] = why
				r.add(Obligation{Rule: "TB", Func: fnKey(fn), Construct: construct, Verdict: Holds, Detail: "reviewed exception", Pos: pos, Reviewed: why})
				return
			}
			r.violated("TB", fnKey(fn), construct, detail, pos)
		}
		for _, b := range fn.Blocks {
			for _, ins := range b.Instrs {
				switch x := ins.(type) {
				case *ssa.Store:
					fa, ok := x.Addr.(*ssa.FieldAddr)
					if !ok || !isTPtr(fa.X.Type()) {
						continue
					}
					fld := fieldNameOf(fa)
					if tbUnprotected[fld] || taint[fa.X] == 0 || ownParam(fa.X) {
						continue
					}
					report("store to ."+fld+" of "+c.describe(fa.X)+kindName(taint[fa.X]), "a field of a shared method-table entry is overwritten in place ("+taint.why(fa.X, w)+"): every later call of that configured method sees the change", w.pos(instrPos(x)))
				case *ssa.Call:
					cal := x.Call.StaticCallee()
					if cal == nil {
						continue
					}
					if idx, ok := c.publish[cal]; ok && idx < len(x.Call.Args) {
						arg := x.Call.Args[idx]
						if mi, isMI := arg.(*ssa.MakeInterface); isMI {
							arg = mi.X
						}
						if taint[arg] != 0 && !ownParam(arg) {
							report("publish "+c.describe(arg)+kindName(taint[arg])+" as last evaluated value", "a shared method-table entry becomes the parser's assignable last-evaluated value ("+taint.why(arg, w)+"); the next assignment writes through that pointer (`name = expr` overwrites the configured entry)", w.pos(instrPos(x)))
						}
						continue
					}
					for pi, fld := range c.mutators[cal] {
						if pi < len(x.Call.Args) && taint[x.Call.Args[pi]] != 0 && !ownParam(x.Call.Args[pi]) {
							report("call "+cal.Name()+" on "+c.describe(x.Call.Args[pi])+kindName(taint[x.Call.Args[pi]]), "a shared method-table entry is passed to "+fnKey(cal)+", which writes its field "+fld+" ("+taint.why(x.Call.Args[pi], w)+")", w.pos(instrPos(x)))
						}
					}
				}
			}
		}
	}
	// positive statement: the sanitised hand-offs
	nClean := 0
	for _, fn := range w.Funcs {
		for _, b := range fn.Blocks {
			for _, ins := range b.Instrs {
				if call, ok := ins.(*ssa.Call); ok && c.sanitizers[call.Call.StaticCallee()] && len(call.Call.Args) > 0 {
					taint := c.localTaint(fn)
					if taint[call.Call.Args[0]] != 0 {
						nClean++
						r.holds("TB", fnKey(fn), "deep copy of "+c.describe(call.Call.Args[0]), "a method-table entry is deep-copied before further use", w.pos(instrPos(call)))
					}
				}
			}
		}
	}
	var ms []string
	for f := range c.mutators {
		if f.Signature.Recv() != nil && isTPtr(f.Signature.Recv().Type()) {
			ms = append(ms, f.Name())
		}
	}
	sort.Strings(ms)
	r.Notes = append(r.Notes, "mutator methods of *T (derived from their field stores): "+strings.Join(ms, ", "))
	var rts []string
	for f := range c.retTaint {
		rts = append(rts, fnKey(f))
	}
	sort.Strings(rts)
	r.Notes = append(r.Notes, "functions returning pointers into the method table (derived): "+strings.Join(rts, ", "))
	r.Stats["source_call_sites"] = nSrc
	r.Stats["sink_sites_reached"] = nSinks
	r.Stats["sanitised_handoffs"] = nClean
	tbGuard(c, r)
	r.Stats["mutator_functions"] = len(c.mutators)
	r.Stats["table_returning_functions"] = len(c.retTaint)
	r.floor("source_call_sites", 30)
	r.floor("mutator_functions", 10)
	r.floor("table_returning_functions", 4)
	r.floor("sanitised_handoffs", 4)
	for k := range tbReviewed {
		if _, used := r.Reviewed[k]; !used {
			r.Notes = append(r.Notes, "reviewed entry without a matching site (stale): "+k)
		}
	}
	r.finish()
	return r
}

func kindName(k int) string {
	switch k {
	case tE:
		return " [entry]"
	case tV:
		return " [variant pointer]"
	case tE | tV:
		return " [entry or variant pointer]"
	}
	return ""
}

// tbReviewed: sinks that were read and accepted.
var tbReviewed = map[string]string{
	"TB|eval.(*Evaluator).generalReferenceEvaluation|publish result of GetMethodT [entry] as last evaluated value":   "publishes the [] / []= entry of the receiver's class: for configured classes this needs a class with such a method whose rendered type name equals its table key; in the shipped configurations the only candidates (JS::Object, ActiveRecord::Base) are not reachable on this path (their rendered name carries the frame), and a user-defined [] is not a configured entry — configuration-gated, outside C12's quantifier (programs under the shipped configuration)",
	"TB|eval.(*Evaluator).generalReferenceEvaluation|publish result of GetMethodT [entry] as last evaluated value#2": "same as the first site of this function (the []= arm)",
	"TB|eval.(*Evaluator).referenceEvaluation|call arrayReferenceEvaluation on t [entry]":                             "reaches a configured entry only through GetDynamicValueT's method fallback for a configured top-level method whose return type takes this arm (Array): no configured top-level method returns Array in the shipped configurations; otherwise t is a variable's own value, which assignment is meant to update",
	"TB|eval.(*Evaluator).referenceEvaluation|call hashReferenceEvaluation on t [entry]":                              "reaches a configured entry only through GetDynamicValueT's method fallback for a configured top-level method whose return type takes this arm (Hash): none in the shipped configurations",
	"TB|eval.(*Evaluator).integerReferenceEvaluation|publish parameter intT [entry] as last evaluated value":          "the `x[i] = v` arm returns `[]= is not defined method` before publishing unless Integer declares []=, which the shipped configurations do not; the neighbouring arm (#2) is a finding",
	"TB|eval.(*Evaluator).stringReferenceEvaluation|publish parameter stringT [entry] as last evaluated value#2":      "the `x[i] = v` arm: same pattern as the neighbouring findings (#1, #3); no input isolated that corrupts an entry through this arm alone — to be repaired together with them",
}

func (c *tbCtx) describe(v ssa.Value) string {
	switch x := v.(type) {
	case *ssa.Call:
		if cal := x.Call.StaticCallee(); cal != nil {
			return "result of " + cal.Name()
		}
	case *ssa.Parameter:
		return "parameter " + x.Name()
	case *ssa.Phi:
		if x.Comment != "" {
			return x.Comment
		}
	case *ssa.UnOp:
		return "element " + c.describe(x.X)
	case *ssa.IndexAddr:
		return c.describe(x.X) + "[…]"
	case *ssa.Extract:
		return c.describe(x.Tuple)
	}
	return "value"
}

func (c *tbCtx) findSanitizers() {
	// method of *T returning *T whose returned value is a fresh allocation on every non-nil path
	for _, fn := range c.w.Funcs {
		if fn.Signature.Recv() == nil || !isTPtr(fn.Signature.Recv().Type()) || fn.Signature.Results().Len() != 1 || !isTPtr(fn.Signature.Results().At(0).Type()) || fn.Signature.Params().Len() != 0 {
			continue
		}
		ok, n := true, 0
		for _, b := range fn.Blocks {
			ret, isRet := b.Instrs[len(b.Instrs)-1].(*ssa.Return)
			if !isRet {
				continue
			}
			switch v := ret.Results[0].(type) {
			case *ssa.Alloc:
				n++
			case *ssa.Const:
				_ = v
			default:
				ok = false
			}
		}
		// and it must copy the nested slices (calls itself or allocates new slices)
		deep := false
		var reachesSelf func(f *ssa.Function, depth int, seen map[*ssa.Function]bool) bool
		reachesSelf = func(f *ssa.Function, depth int, seen map[*ssa.Function]bool) bool {
			if seen[f] || depth > 2 {
				return false
			}
			seen[f] = true
			for _, b := range f.Blocks {
				for _, ins := range b.Instrs {
					call, isCall := ins.(*ssa.Call)
					if !isCall {
						continue
					}
					cal := call.Call.StaticCallee()
					if cal == fn {
						return true
					}
					// through a helper of the same package that copies the nested slices
					if cal != nil && cal.Pkg == fn.Pkg && len(cal.Blocks) > 0 && reachesSelf(cal, depth+1, seen) {
						return true
					}
				}
			}
			return false
		}
		deep = reachesSelf(fn, 0, map[*ssa.Function]bool{})
		if ok && n > 0 && deep {
			c.sanitizers[fn] = true
		}
	}
}

func (c *tbCtx) findGuards() {
	// predicates "is a configured builtin": bool methods of *T whose result depends on the
	// isBuiltin field or compares the frame with "Builtin"
	for _, fn := range c.w.Funcs {
		if fn.Signature.Recv() == nil || !isTPtr(fn.Signature.Recv().Type()) || fn.Signature.Results().Len() != 1 || fn.Signature.Params().Len() != 0 {
			continue
		}
		if b, ok := fn.Signature.Results().At(0).Type().Underlying().(*types.Basic); !ok || b.Kind() != types.Bool {
			continue
		}
		for _, b := range fn.Blocks {
			for _, ins := range b.Instrs {
				switch x := ins.(type) {
				case *ssa.FieldAddr:
					if fieldNameOf(x) == "isBuiltin" {
						c.guardPreds[fn] = true
					}
				case *ssa.BinOp:
					for _, o := range []ssa.Value{x.X, x.Y} {
						if k, ok := o.(*ssa.Const); ok && constVal(k).k == kStr && constVal(k).s == "Builtin" {
							c.guardPreds[fn] = true
						}
					}
				}
			}
		}
	}
}

func (c *tbCtx) findMutators() {
	// direct: store to a protected field of T through parameter i
	for changed := true; changed; {
		changed = false
		for _, fn := range c.w.Funcs {
			for pi, prm := range fn.Params {
				if !isTPtr(prm.Type()) {
					continue
				}
				if _, done := c.mutators[fn][pi]; done {
					continue
				}
				fld := ""
				for _, b := range fn.Blocks {
					for _, ins := range b.Instrs {
						switch x := ins.(type) {
						case *ssa.Store:
							if fa, ok := x.Addr.(*ssa.FieldAddr); ok && fa.X == ssa.Value(prm) && !tbUnprotected[fieldNameOf(fa)] {
								fld = fieldNameOf(fa)
							}
							// element of the variants slice of the parameter: t.variants[i] = …
							if ia, ok := x.Addr.(*ssa.IndexAddr); ok {
								if u, ok := ia.X.(*ssa.UnOp); ok {
									if fa, ok := u.X.(*ssa.FieldAddr); ok && fa.X == ssa.Value(prm) && !tbUnprotected[fieldNameOf(fa)] {
										fld = fieldNameOf(fa) + "[…]"
									}
								}
							}
						case *ssa.Call:
							cal := x.Call.StaticCallee()
							if cal == nil {
								continue
							}
							for ai, arg := range x.Call.Args {
								if arg == ssa.Value(prm) {
									if f, ok := c.mutators[cal][ai]; ok {
										fld = f + " (via " + cal.Name() + ")"
									}
								}
							}
						}
					}
				}
				if fld != "" {
					if c.mutators[fn] == nil {
						c.mutators[fn] = map[int]string{}
					}
					c.mutators[fn][pi] = fld
					changed = true
				}
			}
		}
	}
}

func (c *tbCtx) findPublication() {
	// the parser field holding the last evaluated value: a field of Parser of interface
	// type that some function loads, asserts to *T and stores through.
	writesThrough := false
	for _, fn := range c.w.Funcs {
		for _, b := range fn.Blocks {
			for _, ins := range b.Instrs {
				st, ok := ins.(*ssa.Store)
				if !ok {
					continue
				}
				ta, ok := st.Addr.(*ssa.TypeAssert)
				if ok && isTPtr(ta.AssertedType) {
					if _, whole := st.Val.Type().Underlying().(*types.Struct); whole {
						writesThrough = true
					}
				}
			}
		}
	}
	if !writesThrough {
		return
	}
	// setters: methods of *Parser with one interface parameter stored into a field
	for _, fn := range c.w.Funcs {
		if fn.Signature.Recv() == nil || !isPtrToNamed(fn.Signature.Recv().Type(), modulePath+"/parser", "Parser") || len(fn.Params) != 2 {
			continue
		}
		if _, isIface := fn.Params[1].Type().Underlying().(*types.Interface); !isIface {
			continue
		}
		for _, b := range fn.Blocks {
			for _, ins := range b.Instrs {
				if st, ok := ins.(*ssa.Store); ok && st.Val == ssa.Value(fn.Params[1]) {
					if fa, ok := st.Addr.(*ssa.FieldAddr); ok && fa.X == ssa.Value(fn.Params[0]) {
						c.publish[fn] = 1
					}
				}
			}
		}
	}
}

type taintSet map[ssa.Value]int

const (
	tE = 1 // pointer to a whole method-table entry
	tV = 2 // pointer into (or slice of) the variants of an entry
)

func (t taintSet) why(v ssa.Value, w *World) string {
	switch x := v.(type) {
	case *ssa.Call:
		if cal := x.Call.StaticCallee(); cal != nil {
			return "obtained from " + cal.Name() + " at " + w.pos(instrPos(x))
		}
	case *ssa.Parameter:
		return "received as parameter " + x.Name() + ", which some caller fills with a method-table entry"
	case *ssa.Phi:
		for _, e := range x.Edges {
			if t[e] != 0 {
				return t.why(e, w)
			}
		}
	case *ssa.UnOp:
		return t.why(x.X, w)
	case *ssa.IndexAddr:
		return "element of a slice holding method-table entries; " + t.why(x.X, w)
	case *ssa.Extract:
		return t.why(x.Tuple, w)
	}
	return "derived from a method-table entry"
}

func (c *tbCtx) isSourceCall(call *ssa.Call) bool {
	cal := call.Call.StaticCallee()
	return cal != nil && c.retTaint[cal]
}

// localTaint computes the tainted SSA values of fn given the current summaries.
func (c *tbCtx) localTaint(fn *ssa.Function) taintSet {
	t := taintSet{}
	for pi, prm := range fn.Params {
		if k := c.paramTaintKind(fn, pi); k != 0 {
			t[prm] = k
		}
	}
	// guarded-clean: on the false edge of an is-builtin predicate a whole entry is not a
	// configured one (pointers into variants carry no frame, so the predicate says nothing)
	cleanAt := func(v ssa.Value, b *ssa.BasicBlock) bool {
		for cur := b; cur != nil; cur = cur.Idom() {
			d := cur.Idom()
			if d == nil {
				break
			}
			iff, ok := d.Instrs[len(d.Instrs)-1].(*ssa.If)
			if !ok || len(cur.Preds) != 1 || d.Succs[1] != cur {
				continue
			}
			if call, ok := iff.Cond.(*ssa.Call); ok && c.guardPreds[call.Call.StaticCallee()] && len(call.Call.Args) > 0 && call.Call.Args[0] == v {
				return true
			}
		}
		return false
	}
	for changed := true; changed; {
		changed = false
		mark := func(v ssa.Value, k int) {
			if k != 0 && t[v]|k != t[v] {
				t[v] |= k
				changed = true
			}
		}
		for _, b := range fn.Blocks {
			for _, ins := range b.Instrs {
				switch x := ins.(type) {
				case *ssa.Lookup:
					if rootGlobal(x.X) == c.tframe {
						mark(x, tE)
					}
				case *ssa.Call:
					cal := x.Call.StaticCallee()
					if cal != nil && c.sanitizers[cal] {
						continue
					}
					if cal != nil && c.retTaint[cal] {
						mark(x, tE)
					}
					if bi, ok := x.Call.Value.(*ssa.Builtin); ok && bi.Name() == "append" {
						for _, a := range x.Call.Args {
							mark(x, t[a])
						}
					}
					if cal != nil && len(cal.Blocks) > 0 {
						for ai, a := range x.Call.Args {
							if t[a] == 0 {
								continue
							}
							switch c.returnsAliasKind(cal, ai) {
							case 1:
								mark(x, t[a])
							case 2:
								mark(x, tV)
							case 3:
								mark(x, t[a]|tV)
							}
						}
					}
				case *ssa.Extract:
					if isTPtr(x.Type()) || isTSlicePtr(x.Type()) || isTSliceVal(x.Type()) {
						mark(x, t[x.Tuple])
					}
				case *ssa.Phi:
					for i, e := range x.Edges {
						k := t[e]
						pred := x.Block().Preds[i]
						if k&tE != 0 {
							direct := false
							if iff, ok := pred.Instrs[len(pred.Instrs)-1].(*ssa.If); ok && len(pred.Succs) == 2 && pred.Succs[1] == x.Block() && pred.Succs[0] != x.Block() {
								if call, ok := iff.Cond.(*ssa.Call); ok && c.guardPreds[call.Call.StaticCallee()] && len(call.Call.Args) > 0 && call.Call.Args[0] == e {
									direct = true
								}
							}
							if direct || cleanAt(e, pred) {
								k &^= tE
							}
						}
						mark(x, k)
					}
				case *ssa.IndexAddr:
					mark(x, t[x.X])
				case *ssa.UnOp:
					if ia, ok := x.X.(*ssa.IndexAddr); ok && isTPtr(x.Type()) {
						mark(x, t[ia])
					}
					if fa, ok := x.X.(*ssa.FieldAddr); ok && t[fa.X] != 0 && fieldNameOf(fa) == "variants" {
						mark(x, tV)
					}
				case *ssa.Slice:
					mark(x, t[x.X])
				case *ssa.Store:
					if al, ok := x.Addr.(*ssa.Alloc); ok && t[x.Val] != 0 {
						for _, ref := range *al.Referrers() {
							if ld, ok := ref.(*ssa.UnOp); ok {
								mark(ld, t[x.Val])
							}
						}
					}
					if ia, ok := x.Addr.(*ssa.IndexAddr); ok && t[x.Val] != 0 {
						mark(ia.X, t[x.Val])
						if al, ok := ia.X.(*ssa.Alloc); ok {
							for _, ref := range *al.Referrers() {
								if sl, ok := ref.(*ssa.Slice); ok {
									mark(sl, t[x.Val])
								}
							}
						}
					}
				}
			}
		}
	}
	return t
}

func (c *tbCtx) paramTaintKind(fn *ssa.Function, pi int) int {
	return c.paramKinds[fn][pi]
}

func isTSliceVal(t types.Type) bool {
	sl, ok := t.Underlying().(*types.Slice)
	return ok && isNamed(sl.Elem(), modulePath+"/base", "T")
}

// returnsAliasKind: 0 none; 1 fn can return its parameter i itself; 2 it can return a
// pointer into / slice of that parameter's variants; 3 both.
func (c *tbCtx) returnsAliasKind(fn *ssa.Function, pi int) int {
	if pi >= len(fn.Params) || fn.Signature.Results().Len() == 0 {
		return 0
	}
	key := fmt.Sprintf("%p/%d", fn, pi)
	if v, ok := c.aliasMemo[key]; ok {
		return v
	}
	c.aliasMemo[key] = 0
	prm := fn.Params[pi]
	if !isTPtr(prm.Type()) && !isTSlicePtr(prm.Type()) {
		return 0
	}
	var alias func(v ssa.Value, d int, via bool) int
	alias = func(v ssa.Value, d int, via bool) int {
		if v == ssa.Value(prm) {
			if via {
				return 2
			}
			return 1
		}
		if d > 6 {
			return 0
		}
		r := 0
		switch x := v.(type) {
		case *ssa.Phi:
			for _, e := range x.Edges {
				r |= alias(e, d+1, via)
			}
		case *ssa.IndexAddr:
			r |= alias(x.X, d+1, via)
		case *ssa.UnOp:
			r |= alias(x.X, d+1, via)
		case *ssa.FieldAddr:
			if fieldNameOf(x) == "variants" {
				r |= alias(x.X, d+1, true)
			}
		case *ssa.Call:
			if cal := x.Call.StaticCallee(); cal != nil && !c.sanitizers[cal] && len(cal.Blocks) > 0 && cal != fn {
				for ai, a := range x.Call.Args {
					inner := alias(a, d+1, via)
					if inner == 0 {
						continue
					}
					k := c.returnsAliasKind(cal, ai)
					if k&1 != 0 {
						r |= inner
					}
					if k&2 != 0 {
						r |= 2
					}
				}
			}
		case *ssa.Alloc:
			for _, ref := range *x.Referrers() {
				if st, ok := ref.(*ssa.Store); ok && st.Addr == ssa.Value(x) {
					r |= alias(st.Val, d+1, via)
				}
			}
		}
		return r
	}
	res := 0
	for _, b := range fn.Blocks {
		if ret, ok := b.Instrs[len(b.Instrs)-1].(*ssa.Return); ok {
			for _, rv := range ret.Results {
				res |= alias(rv, 0, false)
			}
		}
	}
	c.aliasMemo[key] = res
	return res
}

func (c *tbCtx) findReturnTaint() {
	// functions of base whose *T result can be a value loaded from the frame table under a
	// method key (the lookups), closed under "returns the result of such a function".
	methodKeyFns := map[*ssa.Function]bool{}
	for _, fn := range c.w.Funcs {
		if pkgShort(fn) == "base" && fn.Signature.Results().Len() == 1 {
			if n := namedOf(fn.Signature.Results().At(0).Type()); n != nil && n.Obj().Name() == "FrameKey" {
				// key constructors that fill targetMethod and leave targetVariable empty
				setsMethod, setsVar := false, false
				for _, b := range fn.Blocks {
					for _, ins := range b.Instrs {
						if st, ok := ins.(*ssa.Store); ok {
							if fa, ok := st.Addr.(*ssa.FieldAddr); ok {
								switch fieldNameOf(fa) {
								case "targetMethod":
									setsMethod = true
								case "targetVariable":
									setsVar = true
								}
							}
						}
					}
				}
				if setsMethod && !setsVar {
					methodKeyFns[fn] = true
				}
			}
		}
	}
	for changed := true; changed; {
		changed = false
		for _, fn := range c.w.Funcs {
			if c.retTaint[fn] || c.sanitizers[fn] || fn.Signature.Results().Len() == 0 {
				continue
			}
			hasT := false
			for i := 0; i < fn.Signature.Results().Len(); i++ {
				if isTPtr(fn.Signature.Results().At(i).Type()) || isTSlicePtr(fn.Signature.Results().At(i).Type()) {
					hasT = true
				}
			}
			if !hasT {
				continue
			}
			var tainted func(v ssa.Value, d int) bool
			tainted = func(v ssa.Value, d int) bool {
				if d > 8 {
					return false
				}
				switch x := v.(type) {
				case *ssa.Lookup:
					if rootGlobal(x.X) != c.tframe {
						return false
					}
					// keyed by a method key?
					if call, ok := x.Index.(*ssa.Call); ok && methodKeyFns[call.Call.StaticCallee()] {
						return true
					}
					return false
				case *ssa.Extract:
					return tainted(x.Tuple, d+1)
				case *ssa.Phi:
					for _, e := range x.Edges {
						if tainted(e, d+1) {
							return true
						}
					}
				case *ssa.Call:
					cal := x.Call.StaticCallee()
					if cal != nil && c.retTaint[cal] {
						return true
					}
					if bi, ok := x.Call.Value.(*ssa.Builtin); ok && bi.Name() == "append" {
						for _, a := range x.Call.Args {
							if tainted(a, d+1) {
								return true
							}
						}
					}
				case *ssa.Slice:
					return tainted(x.X, d+1)
				case *ssa.IndexAddr:
					return tainted(x.X, d+1)
				case *ssa.UnOp:
					if al, ok := x.X.(*ssa.Alloc); ok {
						for _, ref := range *al.Referrers() {
							switch st := ref.(type) {
							case *ssa.Store:
								if st.Addr == ssa.Value(al) && tainted(st.Val, d+1) {
									return true
								}
							case *ssa.IndexAddr:
								for _, r2 := range *st.Referrers() {
									if s2, ok := r2.(*ssa.Store); ok && tainted(s2.Val, d+1) {
										return true
									}
								}
							}
						}
					}
				case *ssa.Alloc:
					for _, ref := range *x.Referrers() {
						if ia, ok := ref.(*ssa.IndexAddr); ok {
							for _, r2 := range *ia.Referrers() {
								if s2, ok := r2.(*ssa.Store); ok && tainted(s2.Val, d+1) {
									return true
								}
							}
						}
					}
				}
				return false
			}
			for _, b := range fn.Blocks {
				if ret, ok := b.Instrs[len(b.Instrs)-1].(*ssa.Return); ok {
					for _, rv := range ret.Results {
						if (isTPtr(rv.Type()) || isTSlicePtr(rv.Type())) && tainted(rv, 0) {
							if !c.retTaint[fn] {
								c.retTaint[fn] = true
								changed = true
							}
						}
					}
				}
			}
		}
	}
}

func (c *tbCtx) propagateParams() {
	cg := c.w.CallGraph()
	for iter := 0; iter < 20; iter++ {
		changed := false
		for _, fn := range c.w.Funcs {
			ps := pkgShort(fn)
			if ps == "builtin" || ps == "cmd/rbs2json" || ps == "cmd/c2json" {
				continue
			}
			t := c.localTaint(fn)
			for _, b := range fn.Blocks {
				for _, ins := range b.Instrs {
					site, ok := ins.(ssa.CallInstruction)
					if !ok {
						continue
					}
					var callees []*ssa.Function
					if cal := site.Common().StaticCallee(); cal != nil {
						callees = []*ssa.Function{cal}
					} else if n := cg.Nodes[fn]; n != nil {
						for _, e := range n.Out {
							if e.Site == site {
								callees = append(callees, e.Callee.Func)
							}
						}
					}
					args := site.Common().Args
					for _, cal := range callees {
						if cal.Pkg == nil || !inModule(cal.Pkg.Pkg.Path()) || len(cal.Blocks) == 0 || c.sanitizers[cal] {
							continue
						}
						off := 0
						if site.Common().IsInvoke() {
							off = 1 // receiver is not in Args for invoke mode
						}
						for ai, a := range args {
							pi := ai + off
							if pi >= len(cal.Params) || t[a] == 0 {
								continue
							}
							if !(isTPtr(a.Type()) || isTSlicePtr(a.Type())) {
								continue
							}
							if c.paramKinds[cal] == nil {
								c.paramKinds[cal] = map[int]int{}
							}
							if c.paramKinds[cal][pi]|t[a] != c.paramKinds[cal][pi] {
								c.paramKinds[cal][pi] |= t[a]
								changed = true
							}
						}
					}
				}
			}
		}
		if !changed {
			break
		}
	}
}
