package main

// SE — registered singleton evaluators must be re-entrant.

import (
	"fmt"
	"go/types"
	"sort"
	"strings"

	"golang.org/x/tools/go/ssa"
)

type registry struct {
	global *ssa.Global
	iface  *types.Named
	keys   int // number of MapUpdate registrations found
}

// findRegistries: package-level maps whose element type is an interface declared in the
// module and that are filled from init functions.
func findRegistries(w *World) []*registry {
	var out []*registry
	for _, p := range w.Prog.AllPackages() {
		if p.Pkg == nil || !inModule(p.Pkg.Path()) {
			continue
		}
		for _, m := range p.Members {
			g, ok := m.(*ssa.Global)
			if !ok {
				continue
			}
			mt, ok := g.Type().(*types.Pointer).Elem().Underlying().(*types.Map)
			if !ok {
				continue
			}
			named, ok := mt.Elem().(*types.Named)
			if !ok {
				continue
			}
			if _, isIface := named.Underlying().(*types.Interface); !isIface || named.Obj().Pkg() == nil || !inModule(named.Obj().Pkg().Path()) {
				continue
			}
			out = append(out, &registry{global: g, iface: named})
		}
	}
	for _, fn := range w.Funcs {
		for _, b := range fn.Blocks {
			for _, ins := range b.Instrs {
				if mu, ok := ins.(*ssa.MapUpdate); ok {
					if g := rootGlobal(mu.Map); g != nil {
						for _, r := range out {
							if r.global == g {
								r.keys++
							}
						}
					}
				}
			}
		}
	}
	sort.Slice(out, func(i, j int) bool { return globalName(out[i].global) < globalName(out[j].global) })
	return out
}

// implementers: named struct types T of the module such that *T implements iface.
func implementers(w *World, iface *types.Named) []*types.Named {
	it := iface.Underlying().(*types.Interface)
	var out []*types.Named
	for _, p := range w.Pkgs {
		sc := p.Types.Scope()
		for _, n := range sc.Names() {
			tn, ok := sc.Lookup(n).(*types.TypeName)
			if !ok {
				continue
			}
			named, ok := tn.Type().(*types.Named)
			if !ok {
				continue
			}
			if _, isStruct := named.Underlying().(*types.Struct); !isStruct {
				continue
			}
			if types.Implements(types.NewPointer(named), it) || types.Implements(named, it) {
				out = append(out, named)
			}
		}
	}
	return out
}

// recvRooted: does address v lead back (through FieldAddr/IndexAddr, and loads of map or
// slice fields) to base?
func recvRooted(v ssa.Value, base ssa.Value) (bool, string) {
	var fields []string
	for i := 0; i < 12; i++ {
		if v == base {
			for l, r := 0, len(fields)-1; l < r; l, r = l+1, r-1 {
				fields[l], fields[r] = fields[r], fields[l]
			}
			return true, strings.Join(fields, ".")
		}
		switch x := v.(type) {
		case *ssa.FieldAddr:
			if pt, ok := x.X.Type().Underlying().(*types.Pointer); ok {
				if st, ok := pt.Elem().Underlying().(*types.Struct); ok {
					fields = append(fields, st.Field(x.Field).Name())
				}
			}
			v = x.X
		case *ssa.IndexAddr:
			v = x.X
		case *ssa.UnOp:
			v = x.X
		default:
			return false, ""
		}
	}
	return false, ""
}

type seWrite struct {
	fn    *ssa.Function
	field string
	pos   string
}

func engineSE(w *World, tier string) *EngineResult {
	r := newResult("SE", "types registered in the evaluator/strategy registries are shared singletons and their entry method is re-entered through nested evaluation; in every method that can run with the singleton as receiver (entry methods of the registry interface, and methods they call on the same receiver) no store or map update may go through the receiver — unless the entry method saves the receiver state and restores it in a defer, or the work is delegated to a freshly allocated value")
	regs := findRegistries(w)
	nTypes, nMethods := 0, 0
	for _, reg := range regs {
		r.Notes = append(r.Notes, fmt.Sprintf("registry %s (interface %s): %d registrations", globalName(reg.global), reg.iface.Obj().Name(), reg.keys))
		r.Stats["registrations"] += reg.keys
		it := reg.iface.Underlying().(*types.Interface)
		for _, T := range implementers(w, reg.iface) {
			nTypes++
			ptr := types.NewPointer(T)
			// entry methods
			var entries []*ssa.Function
			for i := 0; i < it.NumMethods(); i++ {
				sel := w.Prog.MethodSets.MethodSet(ptr).Lookup(it.Method(i).Pkg(), it.Method(i).Name())
				if sel == nil {
					continue
				}
				if f := w.Prog.MethodValue(sel); f != nil {
					entries = append(entries, f)
				}
			}
			tainted := map[*ssa.Function]ssa.Value{} // method -> receiver value
			var work []*ssa.Function
			for _, f := range entries {
				if len(f.Params) > 0 {
					tainted[f] = f.Params[0]
					work = append(work, f)
				}
			}
			for len(work) > 0 {
				f := work[len(work)-1]
				work = work[:len(work)-1]
				recv := tainted[f]
				for _, b := range f.Blocks {
					for _, ins := range b.Instrs {
						switch x := ins.(type) {
						case *ssa.Call:
							cal := x.Call.StaticCallee()
							if cal == nil || len(cal.Blocks) == 0 {
								continue
							}
							for ai, arg := range x.Call.Args {
								if arg == recv && ai < len(cal.Params) {
									if _, ok := tainted[cal]; !ok {
										tainted[cal] = cal.Params[ai]
										work = append(work, cal)
									}
								}
							}
						case *ssa.Defer:
							if mc, ok := x.Call.Value.(*ssa.MakeClosure); ok {
								cf := mc.Fn.(*ssa.Function)
								for bi, bnd := range mc.Bindings {
									if bnd == recv {
										if _, ok := tainted[cf]; !ok {
											tainted[cf] = cf.FreeVars[bi]
											// deferred restore closures are examined separately
										}
									}
								}
							}
						case *ssa.MakeClosure:
							cf := x.Fn.(*ssa.Function)
							for bi, bnd := range x.Bindings {
								if bnd == recv {
									if _, ok := tainted[cf]; !ok {
										tainted[cf] = cf.FreeVars[bi]
										work = append(work, cf)
									}
								}
							}
						}
					}
				}
			}
			// writes
			var writes []seWrite
			for f, recv := range tainted {
				nMethods++
				if isRestoreClosure(f, recv) {
					continue
				}
				for _, b := range f.Blocks {
					for _, ins := range b.Instrs {
						switch x := ins.(type) {
						case *ssa.Store:
							if ok, fld := recvRooted(x.Addr, recv); ok {
								if fld == "" {
									fld = "*"
								}
								writes = append(writes, seWrite{f, fld, w.pos(instrPos(x))})
							}
						case *ssa.MapUpdate:
							if ok, fld := recvRooted(x.Map, recv); ok {
								writes = append(writes, seWrite{f, fld + "[…]", w.pos(instrPos(x))})
							}
						}
					}
				}
			}
			tname := strings.TrimPrefix(T.Obj().Pkg().Path(), modulePath+"/") + "." + T.Obj().Name()
			pos := w.pos(T.Obj().Pos())
			if len(writes) == 0 {
				r.holds("SE", tname, "receiver state", fmt.Sprintf("no store through the receiver in %d method(s) that run on the singleton", len(tainted)), pos)
				continue
			}
			// save/restore idiom on every entry method
			scoped := true
			for _, e := range entries {
				if !hasSaveRestore(e) {
					scoped = false
				}
			}
			sort.Slice(writes, func(i, j int) bool { return posLess(writes[i].pos, writes[j].pos) })
			fset := map[string]bool{}
			var ds []string
			for _, wr := range writes {
				fset[strings.TrimSuffix(wr.field, "[…]")] = true
				ds = append(ds, fmt.Sprintf("%s in %s @%s", wr.field, fnKey(wr.fn), wr.pos))
			}
			if scoped {
				r.holds("SE", tname, "receiver state", "receiver fields are written ("+strings.Join(sortedKeys(fset), ",")+") but every entry method saves the receiver and restores it in a defer", pos)
				continue
			}
			if len(ds) > 6 {
				ds = append(ds[:6], fmt.Sprintf("… %d more", len(ds)-6))
			}
			r.violated("SE", tname, "receiver state", "singleton state written during (re-entrant) evaluation: fields "+strings.Join(sortedKeys(fset), ",")+": "+strings.Join(ds, "; "), pos)
		}
	}
	r.Stats["registries"] = len(regs)
	r.Stats["singleton_types"] = nTypes
	r.Stats["methods_on_singletons"] = nMethods
	r.floor("singleton_types", 35)
	r.floor("registries", 2)
	r.floor("registrations", 40)
	r.finish()
	return r
}

// isRestoreClosure: a closure whose only effect through recv is storing captured values
// back (the deferred half of the save/restore idiom).
func isRestoreClosure(f *ssa.Function, recv ssa.Value) bool {
	if f.Parent() == nil {
		return false
	}
	stores := 0
	for _, b := range f.Blocks {
		for _, ins := range b.Instrs {
			if st, ok := ins.(*ssa.Store); ok {
				if ok, _ := recvRooted(st.Addr, recv); ok {
					// stored value must come from a captured variable
					v := st.Val
					if u, ok := v.(*ssa.UnOp); ok {
						v = u.X
					}
					if _, isFree := v.(*ssa.FreeVar); !isFree {
						return false
					}
					stores++
				}
			}
		}
	}
	if stores == 0 {
		return false
	}
	// it must be used in a defer of its parent
	for _, b := range f.Parent().Blocks {
		for _, ins := range b.Instrs {
			if d, ok := ins.(*ssa.Defer); ok {
				if mc, ok := d.Call.Value.(*ssa.MakeClosure); ok && mc.Fn == f {
					return true
				}
			}
		}
	}
	return false
}

// hasSaveRestore: the entry block loads the whole receiver struct (saved := *recv) and a
// deferred closure stores a captured value back into *recv.
func hasSaveRestore(f *ssa.Function) bool {
	if len(f.Params) == 0 || len(f.Blocks) == 0 {
		return false
	}
	recv := f.Params[0]
	saved := false
	for _, ins := range f.Blocks[0].Instrs {
		if u, ok := ins.(*ssa.UnOp); ok && u.X == ssa.Value(recv) {
			if _, isStruct := u.Type().Underlying().(*types.Struct); isStruct {
				saved = true
			}
		}
		if _, ok := ins.(*ssa.Call); ok && !saved {
			// a call before the save: nested evaluation could already have run
			if c := ins.(*ssa.Call); c.Call.StaticCallee() == nil || len(c.Call.StaticCallee().Blocks) > 0 {
				// calls to module functions before saving are not accepted
				if cal := c.Call.StaticCallee(); cal == nil || (cal.Pkg != nil && inModule(cal.Pkg.Pkg.Path())) {
					break
				}
			}
		}
	}
	if !saved {
		return false
	}
	for _, b := range f.Blocks {
		for _, ins := range b.Instrs {
			d, ok := ins.(*ssa.Defer)
			if !ok {
				continue
			}
			mc, ok := d.Call.Value.(*ssa.MakeClosure)
			if !ok {
				continue
			}
			cf := mc.Fn.(*ssa.Function)
			for bi, bnd := range mc.Bindings {
				if bnd == ssa.Value(recv) && isRestoreClosure(cf, cf.FreeVars[bi]) {
					// must restore the whole struct
					for _, cb := range cf.Blocks {
						for _, ci := range cb.Instrs {
							if st, ok := ci.(*ssa.Store); ok && st.Addr == ssa.Value(cf.FreeVars[bi]) {
								return true
							}
						}
					}
				}
			}
		}
	}
	return false
}
