package main

import (
	"fmt"
	"go/ast"
	"go/token"
	"go/types"
	"os"
	"sort"
	"strings"

	"golang.org/x/tools/go/callgraph"
	"golang.org/x/tools/go/callgraph/cha"
	"golang.org/x/tools/go/callgraph/vta"
	"golang.org/x/tools/go/packages"
	"golang.org/x/tools/go/ssa"
	"golang.org/x/tools/go/ssa/ssautil"
)

// World is the resolved program: type-checked syntax, SSA and (lazily) the call graph of
// /repo's current working tree. Every engine starts from here.
type World struct {
	Dir   string
	Fset  *token.FileSet
	Pkgs  []*packages.Package // non-test packages of module ti, sorted by path
	Prog  *ssa.Program
	Funcs []*ssa.Function // source functions (incl. anonymous) of module ti, sorted
	byPkg map[string]*packages.Package
	cg    *callgraph.Graph
	fnOf  map[*types.Func]*ssa.Function
	eff   *effectTable
	brk   map[token.Pos]string
	brkArgs map[token.Pos][]string
}

const modulePath = "ti"

func repoDir() string {
	if d := os.Getenv("VERIF_REPO"); d != "" {
		return d
	}
	return "/repo"
}

func inModule(path string) bool {
	return path == modulePath || strings.HasPrefix(path, modulePath+"/")
}

// minPackages is the number of non-test packages confirmed by hand on the pinned tree;
// fewer means the loader lost part of the program and every verdict would be vacuous.
const minPackages = 13

func loadWorld(dir string) (*World, error) {
	goroot := "/opt/veriftools/go1.26.8"
	env := []string{}
	for _, kv := range os.Environ() {
		k := strings.SplitN(kv, "=", 2)[0]
		switch k {
		case "GOWORK", "GOFLAGS", "GOTOOLCHAIN", "GOPROXY", "PATH", "GOROOT", "GOSUMDB", "GOARCH", "GOOS":
			continue
		}
		env = append(env, kv)
	}
	path := os.Getenv("PATH")
	if _, err := os.Stat(goroot + "/bin/go"); err == nil {
		path = goroot + "/bin:" + path
		os.Setenv("PATH", path) // exec.LookPath("go") of go/packages uses the process PATH
	}
	os.Unsetenv("GOWORK")
	env = append(env,
		"PATH="+path,
		"GOWORK=off",
		"GOFLAGS=-mod=mod",
		"GOTOOLCHAIN=local",
		"GOPROXY=off",
	)
	if a := os.Getenv("VERIF_GOARCH"); a != "" {
		env = append(env, "GOARCH="+a)
	}
	cfg := &packages.Config{
		Mode:  packages.LoadAllSyntax,
		Dir:   dir,
		Env:   env,
		Tests: false,
	}
	pkgs, err := packages.Load(cfg, "./...")
	if err != nil {
		return nil, fmt.Errorf("load: %w", err)
	}
	w := &World{Dir: dir, byPkg: map[string]*packages.Package{}, fnOf: map[*types.Func]*ssa.Function{}}
	var errs []string
	for _, p := range pkgs {
		if !inModule(p.PkgPath) {
			continue
		}
		if len(p.GoFiles) == 0 { // ti/test holds only _test.go files
			continue
		}
		for _, e := range p.Errors {
			errs = append(errs, p.PkgPath+": "+e.Error())
		}
		w.Pkgs = append(w.Pkgs, p)
		w.byPkg[p.PkgPath] = p
		w.Fset = p.Fset
	}
	if len(errs) > 0 {
		return nil, fmt.Errorf("type/load errors (the tree must compile):\n  %s", strings.Join(errs, "\n  "))
	}
	if len(w.Pkgs) < minPackages {
		return nil, fmt.Errorf("only %d non-test packages of module %q loaded from %s, expected at least %d", len(w.Pkgs), modulePath, dir, minPackages)
	}
	sort.Slice(w.Pkgs, func(i, j int) bool { return w.Pkgs[i].PkgPath < w.Pkgs[j].PkgPath })
	// forbid constructs that would make the call graph incomplete
	for _, p := range w.Pkgs {
		for imp := range p.Imports {
			if imp == "unsafe" || imp == "reflect" || imp == "C" || imp == "plugin" {
				return nil, fmt.Errorf("package %s imports %q: call graph completeness assumption broken", p.PkgPath, imp)
			}
		}
	}
	prog, _ := ssautil.AllPackages(pkgs, ssa.InstantiateGenerics)
	prog.Build()
	w.Prog = prog
	for fn := range ssautil.AllFunctions(prog) {
		if fn.Pkg == nil || !inModule(fn.Pkg.Pkg.Path()) {
			continue
		}
		if w.byPkg[fn.Pkg.Pkg.Path()] == nil {
			continue
		}
		if fn.Synthetic != "" && !strings.HasPrefix(fn.Synthetic, "package initializer") {
			continue
		}
		if len(fn.Blocks) == 0 {
			continue
		}
		w.Funcs = append(w.Funcs, fn)
		if obj, ok := fn.Object().(*types.Func); ok {
			w.fnOf[obj] = fn
		}
	}
	sort.Slice(w.Funcs, func(i, j int) bool { return fnKey(w.Funcs[i]) < fnKey(w.Funcs[j]) })
	return w, nil
}

// fnKey is a stable, position-free name for a function: pkg.(Recv).Name, anonymous
// functions as parent$N.
func fnKey(fn *ssa.Function) string {
	if fn == nil {
		return "<nil>"
	}
	if fn.Parent() != nil {
		return fnKey(fn.Parent()) + "$" + strings.TrimPrefix(fn.Name(), fn.Parent().Name()+"$")
	}
	s := fn.String()
	// (*ti/eval.Def).Evaluation -> eval.(*Def).Evaluation ; ti/base.GetValueT -> base.GetValueT
	s = strings.ReplaceAll(s, modulePath+"/", "")
	if strings.HasPrefix(s, "(") {
		// (*eval/method_evaluator.X).M  ->  eval/method_evaluator.(*X).M
		end := strings.Index(s, ")")
		inner := s[1:end]
		star := ""
		if strings.HasPrefix(inner, "*") {
			star = "*"
			inner = inner[1:]
		}
		dot := strings.LastIndex(inner, ".")
		if dot >= 0 {
			return inner[:dot] + ".(" + star + inner[dot+1:] + ")" + s[end+1:]
		}
	}
	if s == modulePath+".main" || strings.HasPrefix(s, modulePath+".") {
		s = "main." + strings.TrimPrefix(s, modulePath+".")
	}
	return s
}

func pkgShort(fn *ssa.Function) string {
	if fn == nil || fn.Pkg == nil {
		return "?"
	}
	p := fn.Pkg.Pkg.Path()
	if p == modulePath {
		return "main"
	}
	return strings.TrimPrefix(p, modulePath+"/")
}

func (w *World) CallGraph() *callgraph.Graph {
	if w.cg == nil {
		w.cg = vta.CallGraph(ssautil.AllFunctions(w.Prog), cha.CallGraph(w.Prog))
	}
	return w.cg
}

func (w *World) pos(p token.Pos) string {
	if !p.IsValid() {
		return "-"
	}
	pp := w.Fset.Position(p)
	f := strings.TrimPrefix(pp.Filename, w.Dir+"/")
	return fmt.Sprintf("%s:%d", f, pp.Line)
}

// instrPos returns the best source position for an instruction.
func instrPos(ins ssa.Instruction) token.Pos {
	if ins.Pos().IsValid() {
		return ins.Pos()
	}
	if v, ok := ins.(ssa.Value); ok {
		if rs := v.Referrers(); rs != nil {
			for _, r := range *rs {
				if r.Pos().IsValid() {
					return r.Pos()
				}
			}
		}
	}
	return token.NoPos
}

func blockPos(b *ssa.BasicBlock) token.Pos {
	for _, ins := range b.Instrs {
		if p := instrPos(ins); p.IsValid() {
			return p
		}
	}
	return token.NoPos
}

// Pkg returns the loaded package by short path ("eval", "base", "main").
func (w *World) Pkg(short string) *packages.Package {
	if short == "main" {
		return w.byPkg[modulePath]
	}
	return w.byPkg[modulePath+"/"+short]
}

// FuncByKey finds a source function by its fnKey.
func (w *World) FuncByKey(key string) *ssa.Function {
	for _, f := range w.Funcs {
		if fnKey(f) == key {
			return f
		}
	}
	return nil
}

// SSAFunc maps a types.Func to its SSA function.
func (w *World) SSAFunc(obj *types.Func) *ssa.Function {
	if f, ok := w.fnOf[obj]; ok {
		return f
	}
	return w.Prog.FuncValue(obj)
}

// enclosingFuncDecl finds the FuncDecl/FuncLit syntax containing pos in package p.
func fileOf(p *packages.Package, pos token.Pos) *ast.File {
	for _, f := range p.Syntax {
		if f.FileStart <= pos && pos <= f.FileEnd {
			return f
		}
	}
	return nil
}

func lookupObj(p *packages.Package, name string) types.Object {
	if p == nil {
		return nil
	}
	return p.Types.Scope().Lookup(name)
}

func namedOf(t types.Type) *types.Named {
	for {
		switch x := t.(type) {
		case *types.Pointer:
			t = x.Elem()
		case *types.Named:
			return x
		case *types.Alias:
			t = types.Unalias(x)
		default:
			return nil
		}
	}
}

func isNamed(t types.Type, pkgPath, name string) bool {
	n := namedOf(t)
	if n == nil || n.Obj().Pkg() == nil {
		return false
	}
	return n.Obj().Pkg().Path() == pkgPath && n.Obj().Name() == name
}

func isPtrToNamed(t types.Type, pkgPath, name string) bool {
	p, ok := t.Underlying().(*types.Pointer)
	if !ok {
		if pp, ok2 := t.(*types.Pointer); ok2 {
			p = pp
		} else {
			return false
		}
	}
	return isNamed(p.Elem(), pkgPath, name)
}

// bracketExprAt renders the index, slice, assertion or call expression whose bracket is at
// pos. A local that is assigned once from a parameterless accessor chain (`name :=
// t.ToString()`) is rendered as that chain, so that hoisting such a call into a local — or
// inlining it again — does not change the name of a construct.
func (w *World) bracketExprAt(pos token.Pos) string {
	if w.brk == nil {
		w.brk = map[token.Pos]string{}
		w.brkArgs = map[token.Pos][]string{}
		for _, p := range w.Pkgs {
			for _, f := range p.Syntax {
				for _, d := range f.Decls {
					fd, ok := d.(*ast.FuncDecl)
					if !ok || fd.Body == nil {
						continue
					}
					defs := accessorLocals(p.TypesInfo, fd.Body)
					ast.Inspect(fd.Body, func(n ast.Node) bool {
						switch x := n.(type) {
						case *ast.IndexExpr:
							w.brk[x.Lbrack] = renderExpr(p.TypesInfo, x, defs, 0)
						case *ast.SliceExpr:
							w.brk[x.Lbrack] = renderExpr(p.TypesInfo, x, defs, 0)
						case *ast.TypeAssertExpr:
							w.brk[x.Lparen] = renderExpr(p.TypesInfo, x, defs, 0)
						case *ast.CallExpr:
							if _, dup := w.brk[x.Lparen]; !dup {
								w.brk[x.Lparen] = renderExpr(p.TypesInfo, x, defs, 0)
								var as []string
								for _, a := range x.Args {
									as = append(as, renderExpr(p.TypesInfo, a, defs, 0))
								}
								w.brkArgs[x.Lparen] = as
							}
						}
						return true
					})
				}
			}
		}
	}
	return w.brk[pos]
}

// callArgsAt renders the arguments of the call whose parenthesis is at pos.
func (w *World) callArgsAt(pos token.Pos) []string {
	w.bracketExprAt(pos)
	return w.brkArgs[pos]
}

// accessorLocals: locals of body defined exactly once, by `x := <accessor chain>` where the
// chain is selectors and parameterless method calls over an identifier.
func accessorLocals(info *types.Info, body *ast.BlockStmt) map[types.Object]ast.Expr {
	defs := map[types.Object]ast.Expr{}
	writes := map[types.Object]int{}
	var isChain func(e ast.Expr) bool
	isChain = func(e ast.Expr) bool {
		switch x := e.(type) {
		case *ast.Ident:
			return true
		case *ast.SelectorExpr:
			return isChain(x.X)
		case *ast.CallExpr:
			if len(x.Args) != 0 {
				return false
			}
			sel, ok := x.Fun.(*ast.SelectorExpr)
			return ok && isChain(sel.X)
		case *ast.ParenExpr:
			return isChain(x.X)
		}
		return false
	}
	ast.Inspect(body, func(n ast.Node) bool {
		switch x := n.(type) {
		case *ast.AssignStmt:
			for i, l := range x.Lhs {
				id, ok := l.(*ast.Ident)
				if !ok {
					continue
				}
				obj := info.ObjectOf(id)
				if obj == nil {
					continue
				}
				writes[obj]++
				if x.Tok == token.DEFINE && len(x.Lhs) == len(x.Rhs) {
					if _, isCall := ast.Unparen(x.Rhs[i]).(*ast.CallExpr); isCall && isChain(x.Rhs[i]) {
						defs[obj] = x.Rhs[i]
					}
				}
			}
		case *ast.IncDecStmt:
			if id, ok := x.X.(*ast.Ident); ok {
				writes[info.ObjectOf(id)]++
			}
		case *ast.UnaryExpr:
			if x.Op == token.AND {
				if id, ok := x.X.(*ast.Ident); ok {
					writes[info.ObjectOf(id)] += 2
				}
			}
		case *ast.RangeStmt:
			for _, e := range []ast.Expr{x.Key, x.Value} {
				if id, ok := e.(*ast.Ident); ok {
					writes[info.ObjectOf(id)] += 2
				}
			}
		}
		return true
	})
	for obj := range defs {
		if writes[obj] != 1 {
			delete(defs, obj)
		}
	}
	return defs
}

func renderExpr(info *types.Info, e ast.Expr, defs map[types.Object]ast.Expr, depth int) string {
	if depth > 6 {
		return types.ExprString(e)
	}
	r := func(x ast.Expr) string { return renderExpr(info, x, defs, depth+1) }
	switch x := e.(type) {
	case *ast.Ident:
		if d, ok := defs[info.ObjectOf(x)]; ok {
			return r(d)
		}
		return x.Name
	case *ast.SelectorExpr:
		return r(x.X) + "." + x.Sel.Name
	case *ast.ParenExpr:
		return "(" + r(x.X) + ")"
	case *ast.StarExpr:
		return "*" + r(x.X)
	case *ast.UnaryExpr:
		return x.Op.String() + r(x.X)
	case *ast.BinaryExpr:
		return r(x.X) + " " + x.Op.String() + " " + r(x.Y)
	case *ast.IndexExpr:
		return r(x.X) + "[" + r(x.Index) + "]"
	case *ast.SliceExpr:
		s := r(x.X) + "["
		if x.Low != nil {
			s += r(x.Low)
		}
		s += ":"
		if x.High != nil {
			s += r(x.High)
		}
		if x.Slice3 {
			s += ":"
			if x.Max != nil {
				s += r(x.Max)
			}
		}
		return s + "]"
	case *ast.TypeAssertExpr:
		if x.Type == nil {
			return r(x.X) + ".(type)"
		}
		return r(x.X) + ".(" + types.ExprString(x.Type) + ")"
	case *ast.CallExpr:
		var as []string
		for _, a := range x.Args {
			as = append(as, r(a))
		}
		s := r(x.Fun) + "(" + strings.Join(as, ", ")
		if x.Ellipsis.IsValid() {
			s += "..."
		}
		return s + ")"
	}
	return types.ExprString(e)
}
