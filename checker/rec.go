package main

// REC — recursion over the inheritance graph needs a cycle guard.

import (
	"fmt"
	"go/types"
	"strings"

	"golang.org/x/tools/go/ssa"
)

func engineREC(w *World, tier string) *EngineResult {
	r := newResult("REC", "a self-recursive function that indexes a package-level map with a key built from its parameters and recurses inside a range over the indexed value walks a user-defined graph; it must carry a visited set or depth parameter that is tested before the recursive call and changed for it — otherwise a cycle in the graph (class A < B, class B < A) recurses for ever")
	n := 0
	for _, fn := range w.Funcs {
		if fn.Parent() != nil {
			continue
		}
		// direct self recursion
		var selfCalls []*ssa.Call
		for _, b := range fn.Blocks {
			for _, ins := range b.Instrs {
				if c, ok := ins.(*ssa.Call); ok && c.Call.StaticCallee() == fn {
					selfCalls = append(selfCalls, c)
				}
			}
		}
		if len(selfCalls) == 0 {
			continue
		}
		// a lookup into a package-level map that is ranged over, with a self call in the loop
		var g *ssa.Global
		for _, b := range fn.Blocks {
			for _, ins := range b.Instrs {
				if lk, ok := ins.(*ssa.Lookup); ok {
					if gg := rootGlobal(lk.X); gg != nil {
						if _, isSlice := lk.Type().Underlying().(*types.Slice); isSlice {
							g = gg
						}
					}
				}
			}
		}
		if g == nil {
			continue
		}
		inLoop := false
		for _, l := range findLoops(fn) {
			if !isRangeLoop(l) {
				continue
			}
			for _, c := range selfCalls {
				if l.body[c.Block()] {
					inLoop = true
				}
			}
		}
		if !inLoop {
			continue
		}
		n++
		construct := "recursion over " + globalName(g)
		pos := w.pos(fn.Pos())
		// guard: a parameter that is tested in a branch condition and either is a map that
		// is updated, or is passed changed (p±c) to the recursive call
		guarded, why := false, ""
		for pi, prm := range fn.Params {
			tested := false
			for _, b := range fn.Blocks {
				if iff, ok := b.Instrs[len(b.Instrs)-1].(*ssa.If); ok {
					if dependsOn(iff.Cond, prm, 0) {
						tested = true
					}
				}
			}
			if !tested {
				continue
			}
			if _, isMap := prm.Type().Underlying().(*types.Map); isMap {
				for _, b := range fn.Blocks {
					for _, ins := range b.Instrs {
						if mu, ok := ins.(*ssa.MapUpdate); ok && sameOrPhiOf(mu.Map, prm, 0) {
							guarded, why = true, "visited set "+prm.Name()
						}
						// test-and-mark in a helper: the set is handed to a function of the
						// module that updates that parameter
						if c, ok := ins.(*ssa.Call); ok {
							cal := c.Call.StaticCallee()
							if cal == nil || cal == fn || cal.Pkg == nil || !inModule(cal.Pkg.Pkg.Path()) {
								continue
							}
							for ai, a := range c.Call.Args {
								if !sameOrPhiOf(a, prm, 0) || ai >= len(cal.Params) {
									continue
								}
								for _, cb := range cal.Blocks {
									for _, ci := range cb.Instrs {
										if mu, ok := ci.(*ssa.MapUpdate); ok && mu.Map == ssa.Value(cal.Params[ai]) {
											guarded, why = true, "visited set "+prm.Name()+" (marked by "+fnKey(cal)+")"
										}
									}
								}
							}
						}
					}
				}
			}
			if b, ok := prm.Type().Underlying().(*types.Basic); ok && b.Info()&types.IsInteger != 0 {
				for _, c := range selfCalls {
					if pi < len(c.Call.Args) {
						if bo, ok := c.Call.Args[pi].(*ssa.BinOp); ok && (bo.X == ssa.Value(prm) || bo.Y == ssa.Value(prm)) {
							guarded, why = true, "depth counter "+prm.Name()
						}
					}
				}
			}
		}
		if guarded {
			r.holds("REC", fnKey(fn), construct, "recursion guarded by "+why, pos)
			// REC-mono: a visited set only grows. Removing a node again on the way back turns
			// "each node once" into "each path once": on a diamond-shaped graph the walk becomes
			// exponential (and the watchdog fires) although every cycle is still cut.
			for _, prm := range fn.Params {
				if _, isMap := prm.Type().Underlying().(*types.Map); !isMap || !strings.HasPrefix(why, "visited set "+prm.Name()) {
					continue
				}
				removed := ""
				scan := func(f *ssa.Function, m ssa.Value) {
					for _, b := range f.Blocks {
						for _, ins := range b.Instrs {
							var cc *ssa.CallCommon
							switch x := ins.(type) {
							case *ssa.Call:
								cc = &x.Call
							case *ssa.Defer:
								cc = &x.Call
							}
							if cc == nil {
								continue
							}
							if bi, ok := cc.Value.(*ssa.Builtin); ok && bi.Name() == "delete" && len(cc.Args) > 0 && cc.Args[0] == m {
								removed = w.pos(instrPos(ins))
							}
						}
					}
				}
				scan(fn, prm)
				for _, an := range fn.AnonFuncs {
					for i, fv := range an.FreeVars {
						// the closure captures the parameter (through its cell)
						_ = i
						if fv.Name() == prm.Name() {
							for _, b := range an.Blocks {
								for _, ins := range b.Instrs {
									if c, ok := ins.(*ssa.Call); ok {
										if bi, ok := c.Call.Value.(*ssa.Builtin); ok && bi.Name() == "delete" {
											removed = w.pos(instrPos(ins))
										}
									}
								}
							}
						}
					}
				}
				c3 := "visited set of the walk over " + globalName(g) + " only grows"
				if removed == "" {
					r.holds("REC-mono", fnKey(fn), c3, "no entry is ever removed from the visited set", pos)
				} else {
					r.violated("REC-mono", fnKey(fn), c3, "an entry is removed from the visited set again at "+removed+": the set tracks the current path only, every node is expanded once per path that reaches it, and a diamond-shaped hierarchy takes exponential time (the watchdog answers `timeout`)", pos)
				}
			}
			// REC-key: a visited set must be keyed by the identity of a node of the graph that is
			// walked — the key type of the visited map is the key type of the graph map. A set
			// keyed by a projection (the short class name) prunes distinct nodes that share it.
			for _, prm := range fn.Params {
				vm, isMap := prm.Type().Underlying().(*types.Map)
				if !isMap || !strings.HasPrefix(why, "visited set "+prm.Name()) {
					continue
				}
				gm, ok := g.Type().(*types.Pointer).Elem().Underlying().(*types.Map)
				if !ok {
					continue
				}
				c2 := "visited set of the walk over " + globalName(g)
				if types.Identical(vm.Key(), gm.Key()) {
					r.holds("REC-key", fnKey(fn), c2, "the visited set is keyed by the node type of the graph ("+types.TypeString(gm.Key(), func(p *types.Package) string { return p.Name() })+")", pos)
				} else {
					r.violated("REC-key", fnKey(fn), c2, fmt.Sprintf("the visited set is keyed by %s but the nodes of %s are %s: two distinct nodes with the same projection (same-named classes in different namespaces) are taken for one, and everything above the second is pruned from the walk", types.TypeString(vm.Key(), nil), globalName(g), types.TypeString(gm.Key(), func(p *types.Package) string { return p.Name() })), pos)
				}
			}
		} else {
			var ps []string
			for _, c := range selfCalls {
				ps = append(ps, w.pos(instrPos(c)))
			}
			r.violated("REC", fnKey(fn), construct, fmt.Sprintf("recurses over the elements of %s (calls at %s) with no visited set or depth bound: a cyclic graph never terminates", globalName(g), strings.Join(ps, ",")), pos)
		}
	}
	r.Stats["graph_recursions"] = n
	r.floor("graph_recursions", 3)
	r.finish()
	return r
}

func dependsOn(v ssa.Value, x ssa.Value, depth int) bool {
	if v == x {
		return true
	}
	if depth > 6 {
		return false
	}
	ins, ok := v.(ssa.Instruction)
	if !ok {
		return false
	}
	var ops []*ssa.Value
	for _, op := range ins.Operands(ops) {
		if op != nil && *op != nil && dependsOn(*op, x, depth+1) {
			return true
		}
	}
	return false
}


// sameOrPhiOf: v is the parameter, or a phi one of whose edges is (`if visited == nil {
// visited = map…{} }` keeps the parameter on the other edge).
func sameOrPhiOf(v ssa.Value, prm *ssa.Parameter, depth int) bool {
	if v == ssa.Value(prm) {
		return true
	}
	if ph, ok := v.(*ssa.Phi); ok && depth < 3 {
		for _, e := range ph.Edges {
			if sameOrPhiOf(e, prm, depth+1) {
				return true
			}
		}
	}
	return false
}
