package main

import (
	"go/constant"
	"go/token"
	"go/types"

	"golang.org/x/tools/go/ssa"
)

// AL-prec (C21): `?T` / `*T` apply to the whole rest of the string, so `?A|B` is (A or B)
// or nil, exactly what ["A|B", "NilClass"] means. Necessary condition: wherever the loader
// package splits a notation string on "|", the prefix operators of that same string have
// been looked at first — the split site is reachable from a test of s[0] against '?' and
// from one against '*', cannot reach those tests, and is not reachable from their true
// arms. A split in a function without those tests must be called only from positions
// that satisfy the same condition for the argument (one level of callers).
func alPrec(w *World, r *EngineResult) {
	n := 0
	for _, fn := range w.Funcs {
		if pkgShort(fn) != "builtin" {
			continue
		}
		ord := 0
		for _, b := range fn.Blocks {
			for _, ins := range b.Instrs {
				c, ok := ins.(*ssa.Call)
				if !ok {
					continue
				}
				cal := c.Call.StaticCallee()
				if cal == nil || cal.Pkg == nil || cal.Pkg.Pkg.Path() != "strings" || (cal.Name() != "Split" && cal.Name() != "SplitN" && cal.Name() != "Cut" && cal.Name() != "Fields" && cal.Name() != "FieldsFunc") {
					continue
				}
				if len(c.Call.Args) < 2 {
					continue
				}
				k, ok := c.Call.Args[1].(*ssa.Const)
				if !ok || k.Value == nil || k.Value.Kind() != constant.String || constant.StringVal(k.Value) != "|" {
					continue
				}
				n++
				ord++
				construct := "split of a notation string on \"|\""
				if ord > 1 {
					construct += "#" + itoa(ord)
				}
				pos := w.pos(instrPos(c))
				if why := prefixTestsPrecede(fn, c.Call.Args[0], b); why == "" {
					r.holds("AL-prec", fnKey(fn), construct, "the `?` and `*` prefix tests of the same string come first on every path and their true arms do not reach the split", pos)
					continue
				} else {
					// one level of callers
					okAll, callers := true, 0
					pi := -1
					for i, p := range fn.Params {
						if ssa.Value(p) == c.Call.Args[0] {
							pi = i
						}
					}
					if nd := w.CallGraph().Nodes[fn]; nd != nil && pi >= 0 {
						for _, e := range nd.In {
							if e.Site == nil || e.Site.Common().StaticCallee() != fn || e.Caller.Func == fn {
								continue
							}
							callers++
							site := e.Site.(ssa.Instruction)
							if prefixTestsPrecede(e.Caller.Func, e.Site.Common().Args[pi], site.Block()) != "" {
								okAll = false
							}
						}
					}
					if callers > 0 && okAll {
						r.holds("AL-prec", fnKey(fn), construct, "every caller has tested the `?` and `*` prefixes of the string before the call", pos)
						continue
					}
					r.violated("AL-prec", fnKey(fn), construct, why+": `?A|B` is split into `?A` and `B` before the prefix is interpreted, so it no longer means [A|B, NilClass]", pos)
				}
			}
		}
	}
	r.Stats["notation_split_sites"] = n
	r.floor("notation_split_sites", 1)
}

func itoa(i int) string {
	return string(rune('0' + i%10))
}

// prefixTestsPrecede returns "" when, in fn, tests of s[0] == '?' and s[0] == '*' both can
// reach block at, cannot be reached from it, and their true arms do not reach it.
func prefixTestsPrecede(fn *ssa.Function, s ssa.Value, at *ssa.BasicBlock) string {
	reach := func(from *ssa.BasicBlock) map[*ssa.BasicBlock]bool {
		seen := map[*ssa.BasicBlock]bool{}
		var walk func(b *ssa.BasicBlock)
		walk = func(b *ssa.BasicBlock) {
			if seen[b] {
				return
			}
			seen[b] = true
			for _, x := range b.Succs {
				walk(x)
			}
		}
		walk(from)
		return seen
	}
	fromAt := reach(at)
	found := map[int64]bool{}
	for _, b := range fn.Blocks {
		iff, ok := b.Instrs[len(b.Instrs)-1].(*ssa.If)
		if !ok {
			continue
		}
		bo, ok := iff.Cond.(*ssa.BinOp)
		if !ok || bo.Op != token.EQL {
			continue
		}
		for _, pr := range [][2]ssa.Value{{bo.X, bo.Y}, {bo.Y, bo.X}} {
			ix, ok := pr[0].(*ssa.Index)
			if !ok || ix.X != s {
				continue
			}
			ic, ok := ix.Index.(*ssa.Const)
			if !ok || ic.Value == nil || ic.Int64() != 0 {
				continue
			}
			kc, ok := pr[1].(*ssa.Const)
			if !ok || kc.Value == nil {
				continue
			}
			ch := kc.Int64()
			if ch != '?' && ch != '*' {
				continue
			}
			if b != at && fromAt[b] {
				return "the split can run before the prefix test of '" + string(rune(ch)) + "'"
			}
			if !reach(b)[at] {
				continue
			}
			if t := b.Succs[0]; t == at || reach(t)[at] {
				return "the arm taken for the '" + string(rune(ch)) + "' prefix reaches the split"
			}
			found[ch] = true
		}
	}
	if !found['?'] || !found['*'] {
		return "the function splits the string without having looked at its `?` / `*` prefix"
	}
	return ""
}

// AL-len (C21): how many JSON entries a type is written with is notation, not meaning:
// `"A|B"` is one entry, ["A","B"] two. No flag of a loaded value may be computed from the
// length of a raw type list (a field with the JSON key "type"): a flag that depends on it
// differs between the compact and the long notation of the same type.
func alLen(w *World, r *EngineResult) {
	isTypeList := func(v ssa.Value) bool {
		switch x := v.(type) {
		case *ssa.UnOp:
			if fa, ok := x.X.(*ssa.FieldAddr); ok {
				if pt, ok := fa.X.Type().Underlying().(*types.Pointer); ok {
					if st, ok := pt.Elem().Underlying().(*types.Struct); ok {
						return jsonTag(st, fa.Field) == "type"
					}
				}
			}
		case *ssa.Field:
			if st, ok := x.X.Type().Underlying().(*types.Struct); ok {
				return jsonTag(st, x.Field) == "type"
			}
		}
		return false
	}
	var dependsOnLen func(v ssa.Value, depth int, seen map[ssa.Value]bool) string
	dependsOnLen = func(v ssa.Value, depth int, seen map[ssa.Value]bool) string {
		if seen[v] || depth > 8 {
			return ""
		}
		seen[v] = true
		switch x := v.(type) {
		case *ssa.Call:
			if bi, ok := x.Call.Value.(*ssa.Builtin); ok && bi.Name() == "len" && len(x.Call.Args) == 1 && isTypeList(x.Call.Args[0]) {
				return w.pos(instrPos(x))
			}
			return ""
		case *ssa.BinOp:
			if s := dependsOnLen(x.X, depth+1, seen); s != "" {
				return s
			}
			return dependsOnLen(x.Y, depth+1, seen)
		case *ssa.UnOp:
			if x.Op == token.NOT {
				return dependsOnLen(x.X, depth+1, seen)
			}
		case *ssa.Phi:
			for _, e := range x.Edges {
				if s := dependsOnLen(e, depth+1, seen); s != "" {
					return s
				}
			}
			// a phi of constants that merges the arms of `a && len(x) > 1`: look at the
			// condition that selects the arms
			for _, p := range x.Block().Preds {
				if iff, ok := p.Instrs[len(p.Instrs)-1].(*ssa.If); ok {
					if s := dependsOnLen(iff.Cond, depth+1, seen); s != "" {
						return s
					}
				}
			}
		}
		return ""
	}
	n := 0
	for _, fn := range w.Funcs {
		if pkgShort(fn) != "builtin" {
			continue
		}
		ord := map[string]int{}
		for _, b := range fn.Blocks {
			for _, ins := range b.Instrs {
				st, ok := ins.(*ssa.Store)
				if !ok {
					continue
				}
				fa, ok := st.Addr.(*ssa.FieldAddr)
				if !ok {
					continue
				}
				if bt, ok := st.Val.Type().Underlying().(*types.Basic); !ok || bt.Kind() != types.Bool {
					continue
				}
				if _, isConst := st.Val.(*ssa.Const); isConst {
					continue
				}
				n++
				construct := "flag " + fieldNameOf(fa) + " computed"
				ord[construct]++
				if ord[construct] > 1 {
					construct += "#" + itoa(ord[construct])
				}
				pos := w.pos(instrPos(st))
				if where := dependsOnLen(st.Val, 0, map[ssa.Value]bool{}); where != "" {
					r.violated("AL-len", fnKey(fn), construct, "the flag is computed from the number of JSON entries of a type list ("+where+"): `\"A|B\"` (one entry) and [\"A\", \"B\"] (two) denote the same type but get different flags", pos)
				} else {
					r.holds("AL-len", fnKey(fn), construct, "the flag does not depend on how many JSON entries the type was written with", pos)
				}
			}
		}
	}
	r.Stats["loader_flags_computed"] = n
	r.floor("loader_flags_computed", 3)
}

// AL-arm (C21): `?T` / `*T` as an argument mean T with is_default / is_asterisk for every T.
// In the argument parser the arm that sets the flag for a prefixed string may depend on the
// prefix test (and on the list having one entry: that is REG-prefix's business) but not on
// what else the string contains; and a flag the notation parser has set on its result is not
// overwritten afterwards by a value that does not include it.
func alArm(w *World, r *EngineResult) {
	n := 0
	for _, fn := range w.Funcs {
		if pkgShort(fn) != "builtin" {
			continue
		}
		// prefix tests s[0] == '?' / '*'
		type arm struct {
			blk *ssa.BasicBlock // true successor
			ch  rune
			s   ssa.Value
		}
		var arms []arm
		for _, b := range fn.Blocks {
			iff, ok := b.Instrs[len(b.Instrs)-1].(*ssa.If)
			if !ok {
				continue
			}
			bo, ok := iff.Cond.(*ssa.BinOp)
			if !ok || bo.Op != token.EQL {
				continue
			}
			ix, ok := bo.X.(*ssa.Index)
			if !ok {
				continue
			}
			k, ok := bo.Y.(*ssa.Const)
			if !ok || k.Value == nil || (k.Int64() != '?' && k.Int64() != '*') {
				continue
			}
			ic, ok := ix.Index.(*ssa.Const)
			if !ok || ic.Int64() != 0 {
				continue
			}
			arms = append(arms, arm{blk: b.Succs[0], ch: rune(k.Int64()), s: ix.X})
		}
		if len(arms) == 0 {
			continue
		}
		// does this function set flags in those arms (the argument parser), as opposed to
		// the notation parser that recurses on the rest?
		for _, a := range arms {
			// flag effects dominated by the arm: stores of constant true to a bool field, or
			// calls of a setter with constant true
			for _, b := range fn.Blocks {
				if b != a.blk && !a.blk.Dominates(b) {
					continue
				}
				for _, ins := range b.Instrs {
					isFlag, what := false, ""
					switch x := ins.(type) {
					case *ssa.Store:
						if k, ok := x.Val.(*ssa.Const); ok && k.Value != nil && k.Value.Kind() == constant.Bool && cBool(k.Value) {
							if fa, ok := x.Addr.(*ssa.FieldAddr); ok {
								isFlag, what = true, fieldNameOf(fa)
							}
						}
					case *ssa.Call:
						if cal := x.Call.StaticCallee(); cal != nil && len(x.Call.Args) == 2 {
							if k, ok := x.Call.Args[1].(*ssa.Const); ok && k.Value != nil && k.Value.Kind() == constant.Bool && cBool(k.Value) {
								isFlag, what = true, cal.Name()
							}
						}
					}
					if !isFlag {
						continue
					}
					n++
					construct := "`" + string(a.ch) + "` arm sets " + what
					pos := w.pos(instrPos(ins))
					// conditions between the arm and the flag: content tests of the same string
					bad := ""
					for cur := b; cur != nil && cur != a.blk && cur.Idom() != nil; cur = cur.Idom() {
						d := cur.Idom()
						if d != a.blk && !a.blk.Dominates(d) {
							break
						}
						iff, ok := d.Instrs[len(d.Instrs)-1].(*ssa.If)
						if !ok || len(cur.Preds) != 1 {
							continue
						}
						if c := contentTest(iff.Cond, a.s); c != "" {
							bad = c
						}
					}
					if bad == "" {
						r.holds("AL-arm", fnKey(fn), construct, "the flag depends on the prefix only", pos)
					} else {
						r.violated("AL-arm", fnKey(fn), construct, "the flag is set only when the rest of the string passes "+bad+": for the other types the prefixed notation does not mean `T` with the flag", pos)
					}
				}
			}
		}
	}
	r.Stats["prefix_arm_flags"] = n
	r.floor("prefix_arm_flags", 2)
}

// contentTest: cond (possibly negated) is strings.Contains(s, const): the constant.
func contentTest(cond ssa.Value, s ssa.Value) string {
	switch x := cond.(type) {
	case *ssa.UnOp:
		if x.Op == token.NOT {
			return contentTest(x.X, s)
		}
	case *ssa.Call:
		cal := x.Call.StaticCallee()
		if cal != nil && cal.Pkg != nil && cal.Pkg.Pkg.Path() == "strings" && len(x.Call.Args) == 2 && x.Call.Args[0] == s {
			if k, ok := x.Call.Args[1].(*ssa.Const); ok && k.Value != nil && k.Value.Kind() == constant.String {
				return "strings." + cal.Name() + "(…, " + k.Value.ExactString() + ")"
			}
		}
	}
	return ""
}
