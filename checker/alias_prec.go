package main

import (
	"go/constant"
	"go/token"

	"golang.org/x/tools/go/ssa"
)

// AL-prec (C21): `?T` / `*T` apply to the whole rest of the string, so `?A|B` is (A or B)
// or nil, exactly what ["A|B", "NilClass"] means. Necessary condition: wherever the loader
// package splits a notation string on "|", the prefix operators of that same string have
// been looked at first — the split site is reachable from a test of s[0] against '?' and
// from one against '*', cannot reach those tests, and is not reachable from their true
// arms. A split in a function without those tests must be called only from positions
// that satisfy the same condition for the argument (one level of callers).
func alPrec(w *World, r *EngineResult) {
	n := 0
	for _, fn := range w.Funcs {
		if pkgShort(fn) != "builtin" {
			continue
		}
		ord := 0
		for _, b := range fn.Blocks {
			for _, ins := range b.Instrs {
				c, ok := ins.(*ssa.Call)
				if !ok {
					continue
				}
				cal := c.Call.StaticCallee()
				if cal == nil || cal.Pkg == nil || cal.Pkg.Pkg.Path() != "strings" || (cal.Name() != "Split" && cal.Name() != "SplitN" && cal.Name() != "Cut" && cal.Name() != "Fields" && cal.Name() != "FieldsFunc") {
					continue
				}
				if len(c.Call.Args) < 2 {
					continue
				}
				k, ok := c.Call.Args[1].(*ssa.Const)
				if !ok || k.Value == nil || k.Value.Kind() != constant.String || constant.StringVal(k.Value) != "|" {
					continue
				}
				n++
				ord++
				construct := "split of a notation string on \"|\""
				if ord > 1 {
					construct += "#" + itoa(ord)
				}
				pos := w.pos(instrPos(c))
				if why := prefixTestsPrecede(fn, c.Call.Args[0], b); why == "" {
					r.holds("AL-prec", fnKey(fn), construct, "the `?` and `*` prefix tests of the same string come first on every path and their true arms do not reach the split", pos)
					continue
				} else {
					// one level of callers
					okAll, callers := true, 0
					pi := -1
					for i, p := range fn.Params {
						if ssa.Value(p) == c.Call.Args[0] {
							pi = i
						}
					}
					if nd := w.CallGraph().Nodes[fn]; nd != nil && pi >= 0 {
						for _, e := range nd.In {
							if e.Site == nil || e.Site.Common().StaticCallee() != fn || e.Caller.Func == fn {
								continue
							}
							callers++
							site := e.Site.(ssa.Instruction)
							if prefixTestsPrecede(e.Caller.Func, e.Site.Common().Args[pi], site.Block()) != "" {
								okAll = false
							}
						}
					}
					if callers > 0 && okAll {
						r.holds("AL-prec", fnKey(fn), construct, "every caller has tested the `?` and `*` prefixes of the string before the call", pos)
						continue
					}
					r.violated("AL-prec", fnKey(fn), construct, why+": `?A|B` is split into `?A` and `B` before the prefix is interpreted, so it no longer means [A|B, NilClass]", pos)
				}
			}
		}
	}
	r.Stats["notation_split_sites"] = n
	r.floor("notation_split_sites", 1)
}

func itoa(i int) string {
	return string(rune('0' + i%10))
}

// prefixTestsPrecede returns "" when, in fn, tests of s[0] == '?' and s[0] == '*' both can
// reach block at, cannot be reached from it, and their true arms do not reach it.
func prefixTestsPrecede(fn *ssa.Function, s ssa.Value, at *ssa.BasicBlock) string {
	reach := func(from *ssa.BasicBlock) map[*ssa.BasicBlock]bool {
		seen := map[*ssa.BasicBlock]bool{}
		var walk func(b *ssa.BasicBlock)
		walk = func(b *ssa.BasicBlock) {
			if seen[b] {
				return
			}
			seen[b] = true
			for _, x := range b.Succs {
				walk(x)
			}
		}
		walk(from)
		return seen
	}
	fromAt := reach(at)
	found := map[int64]bool{}
	for _, b := range fn.Blocks {
		iff, ok := b.Instrs[len(b.Instrs)-1].(*ssa.If)
		if !ok {
			continue
		}
		bo, ok := iff.Cond.(*ssa.BinOp)
		if !ok || bo.Op != token.EQL {
			continue
		}
		for _, pr := range [][2]ssa.Value{{bo.X, bo.Y}, {bo.Y, bo.X}} {
			ix, ok := pr[0].(*ssa.Index)
			if !ok || ix.X != s {
				continue
			}
			ic, ok := ix.Index.(*ssa.Const)
			if !ok || ic.Value == nil || ic.Int64() != 0 {
				continue
			}
			kc, ok := pr[1].(*ssa.Const)
			if !ok || kc.Value == nil {
				continue
			}
			ch := kc.Int64()
			if ch != '?' && ch != '*' {
				continue
			}
			if b != at && fromAt[b] {
				return "the split can run before the prefix test of '" + string(rune(ch)) + "'"
			}
			if !reach(b)[at] {
				continue
			}
			if t := b.Succs[0]; t == at || reach(t)[at] {
				return "the arm taken for the '" + string(rune(ch)) + "' prefix reaches the split"
			}
			found[ch] = true
		}
	}
	if !found['?'] || !found['*'] {
		return "the function splits the string without having looked at its `?` / `*` prefix"
	}
	return ""
}
