package main

import (
	"fmt"
	"regexp"

	"golang.org/x/tools/go/ssa"
)

// ORD-mark (C15) — a call-site argument type that is written into the parameter table
// carries the inferred-from-call mark.
//
// The propagation function marks the argument type it received (`argT.Set…FromCall(true)`)
// before it stores it as the parameter's type: the mark is what makes the next call *widen*
// the parameter instead of being *checked* against the first call's type. The function has
// several arms that store (first sighting, re-seeding in a new round, replacing an untyped
// placeholder), each with its own marking statement; an arm that stores without marking makes
// the parameter keep the type of whichever call came first in the file. Rule: in a function
// that applies the mark to one of its parameters, every write of that parameter into the
// frame table — a call of the table's setter with the parameter as the stored value, or of a
// helper that stores its own parameter that way — is dominated by a marking of it.
var fromCallRe = regexp.MustCompile(`(?i)^setis\w*fromcall$`)

func ordMark(w *World, r *EngineResult) {
	isT := func(v ssa.Value) bool { return isPtrToNamed(v.Type(), modulePath+"/base", "T") }
	// the table setter(s): functions of base that store a *T parameter into a package-level map
	setterParam := map[*ssa.Function]int{}
	for _, fn := range w.Funcs {
		if pkgShort(fn) != "base" || fn.Signature.Recv() != nil {
			continue
		}
		for _, b := range fn.Blocks {
			for _, ins := range b.Instrs {
				if mu, ok := ins.(*ssa.MapUpdate); ok && rootGlobal(mu.Map) != nil {
					for pi, p := range fn.Params {
						if mu.Value == ssa.Value(p) && isT(p) {
							setterParam[fn] = pi
						}
					}
				}
			}
		}
	}
	if len(setterParam) == 0 {
		r.undecided("ORD-mark", "base", "table setter", "unresolved anchor: function of base that stores a *T parameter into a package-level table", "-")
		return
	}
	// helpers that store one of their own parameters (one level)
	storesParam := func(f *ssa.Function) map[int]bool {
		out := map[int]bool{}
		for _, b := range f.Blocks {
			for _, ins := range b.Instrs {
				c, ok := ins.(*ssa.Call)
				if !ok {
					continue
				}
				cal := c.Call.StaticCallee()
				si, isSetter := setterParam[cal]
				if !isSetter || si >= len(c.Call.Args) {
					continue
				}
				for pi, p := range f.Params {
					if c.Call.Args[si] == ssa.Value(p) {
						out[pi] = true
					}
				}
			}
		}
		return out
	}
	n := 0
	for _, fn := range w.Funcs {
		if pkgShort(fn) != "eval/method_evaluator" {
			continue
		}
		// parameters this function marks
		marks := map[ssa.Value][]*ssa.Call{}
		for _, b := range fn.Blocks {
			for _, ins := range b.Instrs {
				c, ok := ins.(*ssa.Call)
				if !ok {
					continue
				}
				cal := c.Call.StaticCallee()
				if cal == nil || !fromCallRe.MatchString(cal.Name()) || len(c.Call.Args) != 2 {
					continue
				}
				if k, ok := c.Call.Args[1].(*ssa.Const); !ok || !cBool(k.Value) {
					continue
				}
				if _, isParam := c.Call.Args[0].(*ssa.Parameter); isParam {
					marks[c.Call.Args[0]] = append(marks[c.Call.Args[0]], c)
				}
			}
		}
		if len(marks) == 0 {
			continue
		}
		ord := 0
		for _, b := range fn.Blocks {
			for _, ins := range b.Instrs {
				c, ok := ins.(*ssa.Call)
				if !ok {
					continue
				}
				cal := c.Call.StaticCallee()
				if cal == nil {
					continue
				}
				var stored ssa.Value
				if si, isSetter := setterParam[cal]; isSetter && si < len(c.Call.Args) {
					stored = c.Call.Args[si]
				} else if cal.Pkg != nil && inModule(cal.Pkg.Pkg.Path()) && len(cal.Blocks) > 0 {
					for pi := range storesParam(cal) {
						if pi < len(c.Call.Args) {
							stored = c.Call.Args[pi]
						}
					}
				}
				if stored == nil || marks[stored] == nil {
					continue
				}
				n++
				ord++
				construct := fmt.Sprintf("table write of the call-site argument %s#%d", stored.Name(), ord)
				dominated := false
				for _, m := range marks[stored] {
					if _, dom := instrsBetween(m, c); dom {
						dominated = true
					}
				}
				if dominated {
					r.holds("ORD-mark", fnKey(fn), construct, "the stored type was marked as inferred from a call on every path to the write", w.pos(instrPos(c)))
				} else {
					r.violated("ORD-mark", fnKey(fn), construct, "this arm stores the call-site argument as the parameter's type without marking it as inferred from a call (the other arms do): the next call is checked against it instead of widening it, so the parameter keeps the type of whichever call comes first", w.pos(instrPos(c)))
				}
			}
		}
	}
	r.Stats["marked_argument_table_writes"] = n
	r.floor("marked_argument_table_writes", 2)
}
