package main

// AE: a small forward, path-sensitive abstract evaluator over go/ssa. Constant
// propagation + nilness on a finite lattice; no formulas, no solver. Used by the engines
// that must answer "what happens on the path where this token is nil / this rune is 0".

import (
	"fmt"
	"go/constant"
	"go/token"
	"go/types"
	"sort"
	"strings"

	"golang.org/x/tools/go/ssa"
)

type kind int

const (
	kUnknown kind = iota
	kNil
	kNonNil
	kBool
	kInt
	kStr
	kTuple
)

// Val is an abstract value. org is the origin of a nil: 0 = constant/unknown origin,
// <0 = parameter -(i+1) of the function being evaluated, >0 = call site number (index+1
// into the frame's site list) whose result it is.
type Val struct {
	k   kind
	b   bool
	i   int64
	s   string
	tup []Val
	org int
}

func (v Val) String() string {
	switch v.k {
	case kNil:
		if v.org < 0 {
			return fmt.Sprintf("nil(p%d)", -v.org-1)
		}
		if v.org > 0 {
			return "nil(r)"
		}
		return "nil"
	case kNonNil:
		return "nonnil"
	case kBool:
		return fmt.Sprint(v.b)
	case kInt:
		return fmt.Sprint(v.i)
	case kStr:
		return fmt.Sprintf("%q", v.s)
	case kTuple:
		var ss []string
		for _, t := range v.tup {
			ss = append(ss, t.String())
		}
		return "(" + strings.Join(ss, ",") + ")"
	}
	return "?"
}

var unknown = Val{}

// intCap bounds integers produced by abstract arithmetic (widening for loop counters).
const intCap = 24

func vBool(b bool) Val   { return Val{k: kBool, b: b} }
func vInt(i int64) Val   { return Val{k: kInt, i: i} }
func vNil(org int) Val   { return Val{k: kNil, org: org} }
func vTuple(v ...Val) Val { return Val{k: kTuple, tup: v} }

// AEnv fixes the results of the reader primitives.
type AEnv struct {
	Name string
	EOF  bool // token readers yield (nil, nil); rune readers yield 0
	NL   bool // rune readers yield '\n'
}

var (
	envNone = AEnv{Name: "none"}
	envEOF  = AEnv{Name: "EOF", EOF: true}
	envNL   = AEnv{Name: "NL", NL: true}
)

// Deref is a definite nil dereference found on a feasible path.
type Deref struct {
	Org   int       // origin of the nil in the frame that reports it
	Pos   token.Pos // where (innermost)
	Top   token.Pos // the instruction in the reporting frame (call site or the deref itself)
	Ins   ssa.Instruction // that instruction
	What  string    // description, position-free
	Chain []string  // call chain from the reporting frame down to the dereference
}

type summary struct {
	ret       Val
	derefs    []Deref // only parameter-origin derefs (Org<0) survive in a summary
	exhausted bool
	panics    bool // every path panics/derefs (no return)
	nilRet    bool // some feasible path returns nil as first result
	nilPos    map[int]bool // result positions that are nil on some path whose error result is nil
}

type AE struct {
	w         *World
	env       AEnv
	memo      map[string]*summary
	depth     int
	maxDepth  int
	budget    int // states per function evaluation
	tokPrims  map[*ssa.Function]bool
	runePrims map[*ssa.Function]bool
	readsMemo map[*ssa.Function]int8
	Evaluated int // number of function evaluations (statistics)
	States    int
	// forced results for chosen call instructions (LOOKUP-MISS environment)
	forced map[*ssa.Call]Val
	live   map[*ssa.Function]*liveInfo
	// missAll: every map index yields the zero value and every call to a function in
	// missFns yields nil ("all lookups miss")
	missAll bool
	missFns map[*ssa.Function]map[int]bool
}

func (a *AE) liveOf(fn *ssa.Function) *liveInfo {
	if a.live == nil {
		a.live = map[*ssa.Function]*liveInfo{}
	}
	li := a.live[fn]
	if li == nil {
		li = computeLive(fn)
		a.live[fn] = li
	}
	return li
}

// digestAt renders the abstract environment restricted to the values live at b.
func (a *AE) digestAt(b *ssa.BasicBlock, e aenv) string {
	li := a.liveOf(b.Parent()).in[b]
	ss := make([]string, 0, 8)
	for k, v := range e {
		if v.k == kUnknown || !li[k] {
			continue
		}
		ss = append(ss, k.Name()+"="+v.String())
	}
	sort.Strings(ss)
	return strings.Join(ss, ";")
}

func newAE(w *World, env AEnv, tier string) *AE {
	a := &AE{w: w, env: env, memo: map[string]*summary{}, readsMemo: map[*ssa.Function]int8{}, forced: map[*ssa.Call]Val{}}
	a.maxDepth, a.budget = 6, 20000
	if tier == "thorough" {
		a.maxDepth, a.budget = 10, 500000
	}
	a.tokPrims, a.runePrims = readerPrimitives(w)
	return a
}

// readerPrimitives resolves the reader protocol by role:
//   - rune reader: parameterless methods of *reader.LexerReader returning rune;
//   - token reader: parameterless methods of *parser.Parser returning (*base.T, error)
//     that call no other such method (the root of the read hierarchy).
func readerPrimitives(w *World) (tok, rn map[*ssa.Function]bool) {
	tok, rn = map[*ssa.Function]bool{}, map[*ssa.Function]bool{}
	cands := map[*ssa.Function]bool{}
	for _, fn := range w.Funcs {
		sig := fn.Signature
		if sig.Recv() == nil || fn.Parent() != nil {
			continue
		}
		if isPtrToNamed(sig.Recv().Type(), modulePath+"/lexer/reader", "LexerReader") &&
			sig.Params().Len() == 0 && sig.Results().Len() == 1 && types.Identical(sig.Results().At(0).Type(), types.Typ[types.Rune]) {
			rn[fn] = true
		}
		if isPtrToNamed(sig.Recv().Type(), modulePath+"/parser", "Parser") &&
			sig.Params().Len() == 0 && sig.Results().Len() == 2 &&
			isPtrToNamed(sig.Results().At(0).Type(), modulePath+"/base", "T") {
			cands[fn] = true
		}
	}
	// a candidate is a primitive when it gets at the runes itself: some chain of calls from
	// it reaches a rune reader without passing through another candidate (Read → getToken →
	// Lexer.Advance → reader.Read; ReadAhead only gets there through Read). A candidate that
	// merely converts the current token (no rune is read) is not a reader at all.
	var reaches func(fn *ssa.Function, self *ssa.Function, seen map[*ssa.Function]bool) bool
	reaches = func(fn, self *ssa.Function, seen map[*ssa.Function]bool) bool {
		if fn == nil || seen[fn] || len(seen) > 400 {
			return false
		}
		seen[fn] = true
		for _, b := range fn.Blocks {
			for _, ins := range b.Instrs {
				c, ok := ins.(*ssa.Call)
				if !ok {
					continue
				}
				cal := c.Call.StaticCallee()
				if cal == nil || cal.Pkg == nil || !inModule(cal.Pkg.Pkg.Path()) {
					continue
				}
				if rn[cal] {
					return true
				}
				if cands[cal] && cal != self {
					continue
				}
				if reaches(cal, self, seen) {
					return true
				}
			}
		}
		return false
	}
	for fn := range cands {
		if reaches(fn, fn, map[*ssa.Function]bool{}) {
			tok[fn] = true
		}
	}
	return
}

func (a *AE) isTokenReader(fn *ssa.Function) bool { return fn != nil && a.tokPrims[fn] }
func (a *AE) isRuneReader(fn *ssa.Function) bool  { return fn != nil && a.runePrims[fn] }
func (a *AE) isReader(fn *ssa.Function) bool      { return a.isTokenReader(fn) || a.isRuneReader(fn) }

// reads reports whether fn (transitively through static callees, bounded) calls a reader
// primitive: 0 unknown, 1 no, 2 yes.
func (a *AE) reads(fn *ssa.Function, depth int) bool {
	if fn == nil {
		return false
	}
	if v := a.readsMemo[fn]; v != 0 {
		return v == 2
	}
	if depth > 3 {
		return false
	}
	a.readsMemo[fn] = 1
	res := false
	for _, b := range fn.Blocks {
		for _, ins := range b.Instrs {
			if c, ok := ins.(*ssa.Call); ok {
				cal := c.Call.StaticCallee()
				if a.isReader(cal) {
					res = true
				} else if cal != nil && cal.Pkg != nil && inModule(cal.Pkg.Pkg.Path()) && depth < 1 {
					// one level: helpers such as ReadWithCheck, ReadAhead, SkipNewline
					if a.reads(cal, depth+1) {
						res = true
					}
				}
			}
		}
	}
	if res {
		a.readsMemo[fn] = 2
	}
	return res
}

func constVal(c *ssa.Const) Val {
	if c.Value == nil {
		switch c.Type().Underlying().(type) {
		case *types.Pointer, *types.Interface, *types.Slice, *types.Map, *types.Signature, *types.Chan:
			return Val{k: kNil}
		}
		return unknown
	}
	switch c.Value.Kind() {
	case constant.Bool:
		return Val{k: kBool, b: cBool(c.Value)}
	case constant.Int:
		if i, ok := cInt64(c.Value); ok {
			return Val{k: kInt, i: i}
		}
	case constant.String:
		return Val{k: kStr, s: constant.StringVal(c.Value)}
	}
	return unknown
}

type aenv map[ssa.Value]Val

func (e aenv) clone() aenv {
	e2 := make(aenv, len(e)+4)
	for k, v := range e {
		e2[k] = v
	}
	return e2
}

func (e aenv) digest() string {
	if len(e) == 0 {
		return ""
	}
	ss := make([]string, 0, len(e))
	for k, v := range e {
		if v.k == kUnknown {
			continue
		}
		ss = append(ss, k.Name()+"="+v.String())
	}
	sort.Strings(ss)
	return strings.Join(ss, ";")
}

func (a *AE) get(e aenv, v ssa.Value) Val {
	if c, ok := v.(*ssa.Const); ok {
		return constVal(c)
	}
	if x, ok := e[v]; ok {
		return x
	}
	switch v.(type) {
	case *ssa.Alloc, *ssa.MakeInterface, *ssa.MakeMap, *ssa.MakeSlice, *ssa.MakeClosure, *ssa.Function, *ssa.MakeChan, *ssa.Global, *ssa.FieldAddr, *ssa.IndexAddr:
		return Val{k: kNonNil}
	}
	return unknown
}

func stdlibFact(fn *ssa.Function, args []Val) (Val, bool) {
	if fn == nil || fn.Pkg == nil {
		return unknown, false
	}
	n := fn.String()
	if n == "fmt.Errorf" || n == "errors.New" {
		return Val{k: kNonNil}, true
	}
	if len(args) == 2 && args[0].k == kStr && args[1].k == kInt && n == "strings.ContainsRune" {
		return vBool(strings.ContainsRune(args[0].s, rune(args[1].i))), true
	}
	if len(args) == 1 && args[0].k == kInt {
		r := rune(args[0].i)
		switch n {
		case "unicode.IsSpace":
			if r == 0 {
				return vBool(false), true
			}
			if r == '\n' || r == ' ' || r == '\t' {
				return vBool(true), true
			}
		case "unicode.IsDigit", "unicode.IsUpper", "unicode.IsLower", "unicode.IsLetter":
			if r == 0 || r == '\n' {
				return vBool(false), true
			}
		}
	}
	return unknown, false
}

func binop(op token.Token, x, y Val) Val {
	nilish := func(v Val) (known, isnil bool) {
		switch v.k {
		case kNil:
			return true, true
		case kNonNil:
			return true, false
		}
		return false, false
	}
	switch op {
	case token.EQL, token.NEQ:
		var eq, known bool
		if kx, nx := nilish(x); kx {
			if ky, ny := nilish(y); ky {
				if nx && ny {
					eq, known = true, true
				} else if nx != ny {
					eq, known = false, true
				}
			}
		}
		if x.k == kInt && y.k == kInt {
			eq, known = x.i == y.i, true
		}
		if x.k == kBool && y.k == kBool {
			eq, known = x.b == y.b, true
		}
		if x.k == kStr && y.k == kStr {
			eq, known = x.s == y.s, true
		}
		if known {
			if op == token.NEQ {
				eq = !eq
			}
			return vBool(eq)
		}
	case token.LSS, token.GTR, token.LEQ, token.GEQ:
		if x.k == kInt && y.k == kInt {
			var r bool
			switch op {
			case token.LSS:
				r = x.i < y.i
			case token.GTR:
				r = x.i > y.i
			case token.LEQ:
				r = x.i <= y.i
			case token.GEQ:
				r = x.i >= y.i
			}
			return vBool(r)
		}
		if x.k == kStr && y.k == kStr {
			var r bool
			switch op {
			case token.LSS:
				r = x.s < y.s
			case token.GTR:
				r = x.s > y.s
			case token.LEQ:
				r = x.s <= y.s
			case token.GEQ:
				r = x.s >= y.s
			}
			return vBool(r)
		}
	case token.ADD:
		if x.k == kInt && y.k == kInt {
			if s := x.i + y.i; s <= intCap && s >= -intCap || (x.i == 0 || y.i == 0) {
				return vInt(s)
			}
			return unknown // widening: counters beyond the cap are unknown
		}
		if x.k == kStr && y.k == kStr {
			return Val{k: kStr, s: x.s + y.s}
		}
	case token.SUB:
		if x.k == kInt && y.k == kInt {
			if s := x.i - y.i; s <= intCap && s >= -intCap || y.i == 0 {
				return vInt(s)
			}
			return unknown
		}
	}
	return unknown
}

// frame is one function evaluation in progress.
type frame struct {
	fn     *ssa.Function
	sites  []*ssa.Call // call sites that produced origin-carrying values
	siteNo map[*ssa.Call]int
	derefs []Deref
	states int
	limit  int
	over   bool
}

func (f *frame) site(c *ssa.Call) int {
	if n, ok := f.siteNo[c]; ok {
		return n
	}
	f.sites = append(f.sites, c)
	f.siteNo[c] = len(f.sites)
	return len(f.sites)
}

func (f *frame) deref(d Deref) {
	if !d.Top.IsValid() {
		d.Top = d.Pos
	}
	for _, x := range f.derefs {
		if x.Org == d.Org && x.Pos == d.Pos && x.Top == d.Top && x.What == d.What {
			return
		}
	}
	f.derefs = append(f.derefs, d)
}

func newFrame(fn *ssa.Function, limit int) *frame {
	return &frame{fn: fn, siteNo: map[*ssa.Call]int{}, limit: limit}
}

func argsKey(args []Val) string {
	var ss []string
	for _, v := range args {
		ss = append(ss, v.String())
	}
	return strings.Join(ss, ",")
}

// retag gives a value the origin org if it is a nil (recursively in tuples).
func retag(v Val, org int) Val {
	switch v.k {
	case kNil:
		v.org = org
	case kTuple:
		t := make([]Val, len(v.tup))
		for i, x := range v.tup {
			t[i] = retag(x, org)
		}
		v.tup = t
	}
	return v
}

// evalFunc abstractly evaluates fn with the given abstract arguments and returns the
// join of its return values plus the nil dereferences that depend on nil arguments.
func (a *AE) evalFunc(fn *ssa.Function, args []Val) *summary {
	if fn == nil || len(fn.Blocks) == 0 {
		return &summary{ret: unknown}
	}
	// arguments carry parameter origins inside the callee
	in := make([]Val, len(args))
	for i, v := range args {
		in[i] = retag(v, -(i + 1))
	}
	key := a.env.Name + "|" + fn.String() + "|" + argsKey(in)
	if s, ok := a.memo[key]; ok {
		return s
	}
	if a.depth >= a.maxDepth {
		return &summary{ret: unknown, exhausted: true}
	}
	a.memo[key] = &summary{ret: unknown} // recursion guard
	a.depth++
	defer func() { a.depth-- }()
	a.Evaluated++

	fr := newFrame(fn, a.budget)
	e := aenv{}
	for i, p := range fn.Params {
		if i < len(in) {
			e[p] = in[i]
		}
	}
	var rets []Val
	nilRet := false
	nilPos := map[int]bool{}
	errIdx := errorResultIndex(fn.Signature)
	a.explore(fr, fn.Blocks[0], 0, e, func(v Val) {
		rets = append(rets, v)
		if v.k == kNil || (v.k == kTuple && len(v.tup) > 0 && v.tup[0].k == kNil) {
			nilRet = true
		}
		if v.k == kTuple {
			// callers look at the other results only when the error is nil
			if errIdx >= 0 && errIdx < len(v.tup) && v.tup[errIdx].k == kNonNil {
				return
			}
			for i, x := range v.tup {
				if x.k == kNil && i != errIdx {
					nilPos[i] = true
				}
			}
		} else if v.k == kNil {
			nilPos[0] = true
		}
	})

	s := &summary{exhausted: fr.over, nilRet: nilRet, nilPos: nilPos}
	if fr.over || len(rets) == 0 {
		s.ret = unknown
		s.panics = len(rets) == 0 && !fr.over
	} else {
		s.ret = joinVals(rets)
	}
	// internal origins become "internal" (>0) in the summary: the caller retags them.
	for _, d := range fr.derefs {
		if d.Org < 0 {
			s.derefs = append(s.derefs, d)
		}
	}
	a.memo[key] = s
	return s
}

// explore walks all feasible paths from instruction idx of block b with environment e,
// merging states on (block, abstract environment). onRet receives every returned value.
func (a *AE) explore(fr *frame, b0 *ssa.BasicBlock, idx0 int, e0 aenv, onRet func(Val)) {
	visited := map[string]bool{}
	var walk func(b, pred *ssa.BasicBlock, e aenv, start int)
	walk = func(b, pred *ssa.BasicBlock, e aenv, start int) {
		if fr.over {
			return
		}
		e = e.clone()
		i := start
		if start == 0 {
			for ; i < len(b.Instrs); i++ {
				if ph, ok := b.Instrs[i].(*ssa.Phi); ok {
					a.phi(ph, pred, e)
					continue
				}
				break
			}
		}
		var k string
		if start == 0 {
			k = fmt.Sprintf("%d|%s", b.Index, a.digestAt(b, e))
		} else {
			k = fmt.Sprintf("%d.%d|%s", b.Index, start, e.digest())
		}
		if visited[k] {
			return
		}
		visited[k] = true
		fr.states++
		a.States++
		if fr.states > fr.limit {
			fr.over = true
			if debugAE {
				cnt := map[int]int{}
				for kk := range visited {
					var bi int
					fmt.Sscanf(kk, "%d", &bi)
					cnt[bi]++
				}
				dbgf("OVER %s states=%d perblock=%v", fnKey(fr.fn), fr.states, cnt)
				n := 0
				for kk := range visited {
					if n < 6 {
						dbgf("   key %s", kk)
					}
					n++
				}
			}
			return
		}
		for ; i < len(b.Instrs); i++ {
			ins := b.Instrs[i]
			switch x := ins.(type) {
			case *ssa.Return:
				if onRet == nil {
					return
				}
				if len(x.Results) == 1 {
					onRet(a.get(e, x.Results[0]))
				} else if len(x.Results) > 1 {
					t := make([]Val, len(x.Results))
					for j, r := range x.Results {
						t[j] = a.get(e, r)
					}
					onRet(vTuple(t...))
				} else {
					onRet(unknown)
				}
				return
			case *ssa.Panic:
				return
			case *ssa.If:
				c := a.get(e, x.Cond)
				if c.k == kBool {
					if c.b {
						walk(b.Succs[0], b, e, 0)
					} else {
						walk(b.Succs[1], b, e, 0)
					}
				} else {
					// `x != nil` / `x == nil` on a value nothing is known about: on the edge
					// where the test says non-nil the value is non-nil (an error that was
					// tested before `return nil, err` is a set error)
					et, ef := e, e
					if bo, ok := x.Cond.(*ssa.BinOp); ok && (bo.Op == token.NEQ || bo.Op == token.EQL) {
						var tested ssa.Value
						if k, ok := bo.Y.(*ssa.Const); ok && k.IsNil() {
							tested = bo.X
						} else if k, ok := bo.X.(*ssa.Const); ok && k.IsNil() {
							tested = bo.Y
						}
						if tested != nil && a.get(e, tested).k == kUnknown {
							r := e.clone()
							r[tested] = Val{k: kNonNil}
							if bo.Op == token.NEQ {
								et = r
							} else {
								ef = r
							}
						}
					}
					walk(b.Succs[0], b, et, 0)
					walk(b.Succs[1], b, ef, 0)
				}
				return
			case *ssa.Jump:
				walk(b.Succs[0], b, e, 0)
				return
			default:
				if dead := a.step(fr, ins, e); dead {
					return
				}
			}
		}
	}
	walk(b0, nil, e0, idx0)
}

func joinVals(vs []Val) Val {
	r := vs[0]
	for _, x := range vs[1:] {
		r = join2(r, x)
	}
	return r
}

func join2(a, b Val) Val {
	if a.k != b.k {
		return unknown
	}
	switch a.k {
	case kNil:
		if a.org != b.org {
			if a.org > 0 || b.org > 0 {
				// keep "some internal origin"
				if a.org > 0 {
					return a
				}
				return b
			}
			return Val{k: kNil}
		}
		return a
	case kNonNil:
		return a
	case kBool:
		if a.b == b.b {
			return a
		}
	case kInt:
		if a.i == b.i {
			return a
		}
	case kStr:
		if a.s == b.s {
			return a
		}
	case kTuple:
		if len(a.tup) != len(b.tup) {
			return unknown
		}
		t := make([]Val, len(a.tup))
		for i := range a.tup {
			t[i] = join2(a.tup[i], b.tup[i])
		}
		return vTuple(t...)
	}
	return unknown
}

func (a *AE) phi(x *ssa.Phi, pred *ssa.BasicBlock, e aenv) {
	if pred == nil {
		delete(e, x)
		return
	}
	for i, p := range x.Block().Preds {
		if p == pred {
			v := a.get(e, x.Edges[i])
			if v.k == kUnknown {
				delete(e, x)
			} else {
				e[x] = v
			}
			return
		}
	}
}

func describeValue(v ssa.Value) string {
	switch x := v.(type) {
	case *ssa.Extract:
		return describeValue(x.Tuple)
	case *ssa.Call:
		if c := x.Call.StaticCallee(); c != nil {
			return "result of " + c.Name()
		}
		return "call result"
	case *ssa.Parameter:
		return "parameter " + x.Name()
	case *ssa.Phi:
		if x.Comment != "" {
			return x.Comment
		}
	}
	return v.Name()
}

// step executes one non-terminator instruction. It returns true when the path dies here
// (definite nil dereference).
func (a *AE) step(fr *frame, ins ssa.Instruction, e aenv) (dead bool) {
	switch x := ins.(type) {
	case *ssa.BinOp:
		v := binop(x.Op, a.get(e, x.X), a.get(e, x.Y))
		if v.k != kUnknown {
			e[x] = v
		} else {
			delete(e, x)
		}
	case *ssa.UnOp:
		v := a.get(e, x.X)
		switch {
		case x.Op == token.NOT && v.k == kBool:
			e[x] = vBool(!v.b)
		case x.Op == token.SUB && v.k == kInt:
			e[x] = vInt(-v.i)
		case x.Op == token.MUL && v.k == kNil:
			fr.deref(Deref{Org: v.org, Pos: instrPos(ins), Ins: ins, What: "load through nil " + describeValue(x.X)})
			return true
		default:
			delete(e, x)
			// a read of a constant table (package-level array that only its initialiser
			// writes) at a known position
			if x.Op == token.MUL {
				if ia, ok := x.X.(*ssa.IndexAddr); ok {
					if g, ok := ia.X.(*ssa.Global); ok {
						if iv := a.get(e, ia.Index); iv.k == kInt {
							if tab, ok := constTableOf(a.w, g); ok {
								if v, has := tab[iv.i]; has {
									e[x] = v
								} else if zero, ok := zeroValOf(x.Type()); ok {
									e[x] = zero
								}
							}
						}
					}
				}
			}
		}
	case *ssa.FieldAddr:
		v := a.get(e, x.X)
		if v.k == kNil {
			fld := "?"
			if st, ok := x.X.Type().Underlying().(*types.Pointer); ok {
				if s, ok := st.Elem().Underlying().(*types.Struct); ok && x.Field < s.NumFields() {
					fld = s.Field(x.Field).Name()
				}
			}
			fr.deref(Deref{Org: v.org, Pos: instrPos(ins), Ins: ins, What: "field ." + fld + " of nil " + describeValue(x.X)})
			return true
		}
	case *ssa.Extract:
		t := a.get(e, x.Tuple)
		if t.k == kTuple && x.Index < len(t.tup) && t.tup[x.Index].k != kUnknown {
			e[x] = t.tup[x.Index]
		} else {
			delete(e, x)
		}
	case *ssa.ChangeType:
		if v := a.get(e, x.X); v.k != kUnknown {
			e[x] = v
		} else {
			delete(e, x)
		}
	case *ssa.Convert:
		v := a.get(e, x.X)
		if v.k == kInt {
			if b, ok := x.Type().Underlying().(*types.Basic); ok && b.Info()&types.IsInteger != 0 {
				e[x] = v
				break
			}
			if b, ok := x.Type().Underlying().(*types.Basic); ok && b.Kind() == types.String {
				e[x] = Val{k: kStr, s: string(rune(v.i))}
				break
			}
		}
		delete(e, x)
	case *ssa.Lookup:
		if a.missAll {
			if _, isMap := x.X.Type().Underlying().(*types.Map); isMap {
				var zero Val = unknown
				et := x.Type()
				if x.CommaOk {
					et = x.Type().(*types.Tuple).At(0).Type()
				}
				switch et.Underlying().(type) {
				case *types.Pointer, *types.Slice, *types.Map, *types.Interface:
					zero = vNil(0)
				}
				if x.CommaOk {
					e[x] = vTuple(zero, vBool(false))
				} else if zero.k != kUnknown {
					e[x] = zero
				} else {
					delete(e, x)
				}
				break
			}
		}
		delete(e, x)
	case *ssa.MapUpdate:
		if v := a.get(e, x.Map); v.k == kNil {
			fr.deref(Deref{Org: v.org, Pos: instrPos(ins), Ins: ins, What: "store into nil map"})
			return true
		}
	case *ssa.Call:
		return a.call(fr, x, e)
	case *ssa.Defer, *ssa.Go, *ssa.Store, *ssa.DebugRef, *ssa.RunDefers, *ssa.Send:
		// no value
	default:
		if v, ok := ins.(ssa.Value); ok {
			delete(e, v)
		}
	}
	return false
}

func (a *AE) call(fr *frame, x *ssa.Call, e aenv) (dead bool) {
	if v, ok := a.forced[x]; ok {
		e[x] = retag(v, fr.site(x))
		return false
	}
	if x.Call.IsInvoke() {
		if v := a.get(e, x.Call.Value); v.k == kNil {
			fr.deref(Deref{Org: v.org, Pos: instrPos(x), Ins: x, What: "method " + x.Call.Method.Name() + " on nil interface"})
			return true
		}
		delete(e, x)
		return false
	}
	callee := x.Call.StaticCallee()
	if callee == nil {
		// a call through a function value (a predicate stored in a rule table): when the
		// call graph names a few module functions and they all answer the same for these
		// arguments, that is the answer
		delete(e, x)
		args := make([]Val, len(x.Call.Args))
		interesting := false
		for i, ar := range x.Call.Args {
			args[i] = a.get(e, ar)
			if args[i].k != kUnknown && args[i].k != kNonNil {
				interesting = true
			}
		}
		if !interesting {
			return false
		}
		var outs []Val
		if n := a.w.CallGraph().Nodes[x.Parent()]; n != nil {
			for _, ed := range n.Out {
				if ed.Site != ssa.CallInstruction(x) {
					continue
				}
				cal := ed.Callee.Func
				if cal == nil || cal.Pkg == nil || !inModule(cal.Pkg.Pkg.Path()) || len(cal.Blocks) == 0 || len(cal.Params) != len(args) || len(outs) >= 6 {
					return false
				}
				sm := a.evalFunc(cal, args)
				if sm.panics || sm.exhausted || sm.ret.k == kUnknown {
					return false
				}
				outs = append(outs, sm.ret)
			}
		}
		if len(outs) == 0 {
			return false
		}
		if r := joinVals(outs); r.k == kBool || r.k == kInt {
			e[x] = r
		}
		return false
	}
	// handing a nil *T to the parser as last evaluated value is as good as dereferencing it:
	// the readers of that value unwrap and copy it unconditionally
	if isPublishSetter(callee) && len(x.Call.Args) == 2 {
		if mi, ok := x.Call.Args[1].(*ssa.MakeInterface); ok {
			if v := a.get(e, mi.X); v.k == kNil {
				fr.deref(Deref{Org: v.org, Pos: instrPos(x), Ins: x, What: "published as the last evaluated value (its readers copy it without a nil test): nil " + describeValue(mi.X)})
				return true
			}
		}
	}
	if a.env.EOF || a.env.NL {
		if a.isRuneReader(callee) {
			if a.env.NL {
				e[x] = vInt('\n')
			} else {
				e[x] = vInt(0)
			}
			return false
		}
		if a.isTokenReader(callee) && a.env.EOF {
			org := fr.site(x)
			e[x] = vTuple(vNil(org), Val{k: kNil})
			return false
		}
	}
	if pos := a.missFns[callee]; a.missAll && len(pos) > 0 {
		e[x] = missValue(callee, pos, fr.site(x))
		return false
	}
	args := make([]Val, len(x.Call.Args))
	for i, ar := range x.Call.Args {
		args[i] = a.get(e, ar)
	}
	if r, ok := stdlibFact(callee, args); ok {
		e[x] = r
		return false
	}
	if callee.Pkg == nil || !inModule(callee.Pkg.Pkg.Path()) || len(callee.Blocks) == 0 {
		delete(e, x)
		return false
	}
	interesting := false
	for _, v := range args {
		if v.k != kUnknown && v.k != kNonNil {
			interesting = true
		}
	}
	// error constructors of the module are always evaluated: whether an error result is
	// definitely non-nil decides which other results the caller looks at
	errCtor := callee.Signature.Results().Len() == 1 && types.Identical(callee.Signature.Results().At(0).Type(), errorType) && len(callee.Blocks) <= 3
	if !interesting && !errCtor && !((a.env.EOF || a.env.NL) && a.reads(callee, 0)) {
		delete(e, x)
		return false
	}
	// remember origins of nil arguments to map callee derefs back
	s := a.evalFunc(callee, args)
	for _, d := range s.derefs {
		pi := -d.Org - 1
		if pi < 0 || pi >= len(args) || args[pi].k != kNil {
			continue
		}
		chain := append([]string{fnKey(callee)}, d.Chain...)
		fr.deref(Deref{Org: args[pi].org, Pos: d.Pos, Top: instrPos(x), Ins: x, What: d.What, Chain: chain})
	}
	if s.panics {
		return true
	}
	r := s.ret
	if r.k == kUnknown {
		delete(e, x)
		return false
	}
	// nil results with callee-internal origin are this call site's; parameter-origin
	// nils (callee returned its argument) keep the origin of the argument.
	e[x] = a.mapRet(fr, x, r, args)
	return false
}

func (a *AE) mapRet(fr *frame, x *ssa.Call, r Val, args []Val) Val {
	switch r.k {
	case kNil:
		if r.org < 0 {
			pi := -r.org - 1
			if pi < len(args) && args[pi].k == kNil {
				r.org = args[pi].org
				return r
			}
			r.org = 0
			return r
		}
		if r.org > 0 {
			r.org = fr.site(x)
		}
		return r
	case kTuple:
		t := make([]Val, len(r.tup))
		for i, v := range r.tup {
			t[i] = a.mapRet(fr, x, v, args)
		}
		return vTuple(t...)
	}
	return r
}

// missValue builds the result of a lookup that finds nothing: nil at the given result
// positions, a nil error, everything else unknown.
func missValue(callee *ssa.Function, pos map[int]bool, org int) Val {
	res := callee.Signature.Results()
	if res.Len() == 1 {
		return vNil(org)
	}
	t := make([]Val, res.Len())
	ei := errorResultIndex(callee.Signature)
	for i := range t {
		switch {
		case pos[i]:
			t[i] = vNil(org)
		case i == ei:
			t[i] = Val{k: kNil}
		default:
			t[i] = unknown
		}
	}
	return vTuple(t...)
}

// isPublishSetter: method of *parser.Parser taking one value of the empty interface type
// and returning nothing (the setter of the last evaluated value).
func isPublishSetter(f *ssa.Function) bool {
	if f == nil || f.Signature.Recv() == nil || !isPtrToNamed(f.Signature.Recv().Type(), modulePath+"/parser", "Parser") {
		return false
	}
	if f.Signature.Params().Len() != 1 || f.Signature.Results().Len() != 0 {
		return false
	}
	it, ok := f.Signature.Params().At(0).Type().Underlying().(*types.Interface)
	return ok && it.NumMethods() == 0
}


// ---- constant tables ----

var constTableMemo = map[*ssa.Global]map[int64]Val{}
var constTableBad = map[*ssa.Global]bool{}

// constTableOf: g is a package-level array whose only write is its initialiser (a literal
// built in a local and stored whole, or element stores in the package initialiser) and
// whose address is only used to index it. The map holds the elements set to a constant;
// every other position has the zero value.
func constTableOf(w *World, g *ssa.Global) (map[int64]Val, bool) {
	if t, ok := constTableMemo[g]; ok {
		return t, true
	}
	if constTableBad[g] {
		return nil, false
	}
	bad := func() (map[int64]Val, bool) { constTableBad[g] = true; return nil, false }
	if _, isArr := g.Type().(*types.Pointer).Elem().Underlying().(*types.Array); !isArr || g.Pkg == nil {
		return bad()
	}
	tab := map[int64]Val{}
	collect := func(base ssa.Value) bool {
		// constant stores through IndexAddr(base, const)
		refs := base.Referrers()
		if refs == nil {
			return true
		}
		for _, ref := range *refs {
			ia, ok := ref.(*ssa.IndexAddr)
			if !ok || ia.Referrers() == nil {
				continue
			}
			for _, r2 := range *ia.Referrers() {
				st, ok := r2.(*ssa.Store)
				if !ok || st.Addr != ssa.Value(ia) {
					continue
				}
				k, isK := ia.Index.(*ssa.Const)
				c, isC := st.Val.(*ssa.Const)
				if !isK || !isC {
					return false
				}
				iv, cv := constVal(k), constVal(c)
				if iv.k != kInt || cv.k == kUnknown {
					return false
				}
				tab[iv.i] = cv
			}
		}
		return true
	}
	// every use of g in the module
	for _, fn := range w.Prog.AllPackages() {
		_ = fn
	}
	var fns []*ssa.Function
	for _, m := range g.Pkg.Members {
		if f, ok := m.(*ssa.Function); ok {
			fns = append(fns, f)
			fns = append(fns, f.AnonFuncs...)
		}
	}
	for _, f := range w.Funcs {
		fns = append(fns, f)
	}
	seen := map[*ssa.Function]bool{}
	for _, f := range fns {
		if seen[f] {
			continue
		}
		seen[f] = true
		isInit := f.Synthetic != "" && f.Name() == "init"
		for _, b := range f.Blocks {
			for _, ins := range b.Instrs {
				var ops []*ssa.Value
				for _, op := range ins.Operands(ops) {
					if op == nil || *op != ssa.Value(g) {
						continue
					}
					switch x := ins.(type) {
					case *ssa.IndexAddr:
						// reads are fine; element stores only in the initialiser
						if x.Referrers() != nil {
							for _, r2 := range *x.Referrers() {
								if st, ok := r2.(*ssa.Store); ok && st.Addr == ssa.Value(x) && !isInit {
									return bad()
								}
								if _, isLoad := r2.(*ssa.UnOp); !isLoad {
									if _, isStore := r2.(*ssa.Store); !isStore {
										if _, dbg := r2.(*ssa.DebugRef); !dbg {
											return bad() // the element's address goes elsewhere
										}
									}
								}
							}
						}
					case *ssa.Store:
						if x.Addr != ssa.Value(g) || !isInit {
							return bad()
						}
						ld, ok := x.Val.(*ssa.UnOp)
						if !ok {
							return bad()
						}
						al, ok := ld.X.(*ssa.Alloc)
						if !ok || !collect(al) {
							return bad()
						}
					case *ssa.UnOp, *ssa.DebugRef:
						// whole-array load / debug info
					default:
						return bad()
					}
				}
			}
		}
	}
	if !collect(g) {
		return bad()
	}
	constTableMemo[g] = tab
	return tab, true
}

func zeroValOf(t types.Type) (Val, bool) {
	if b, ok := t.Underlying().(*types.Basic); ok {
		switch {
		case b.Info()&types.IsBoolean != 0:
			return vBool(false), true
		case b.Info()&types.IsInteger != 0:
			return vInt(0), true
		case b.Info()&types.IsString != 0:
			return Val{k: kStr, s: ""}, true
		}
	}
	return unknown, false
}
