package main

// RCL — rune-class abstract interpretation of the lexer (C03, C02).
//
// The domain of runes is partitioned into finitely many atoms such that every predicate the
// lexer applies to a rune is constant on each atom: one singleton per rune constant the lexer
// compares with, and for the rest one atom per combination of (truth vector of the unicode
// predicates the lexer calls, interval between the constants used in ordered comparisons).
// A rune-typed SSA value is abstracted by the set of atoms it may lie in; branch conditions
// refine the sets exactly (no atom straddles a condition). The reader is abstracted by
// (un-read flag, atom set of its current rune, net number of runes consumed since entry,
// capped). Functions of the lexer are analysed with summaries per (entry flag, entry rune
// set, rune arguments); recursion uses the claim itself as induction hypothesis.
//
// RCL-eos:      Advance reports end-of-stream only when the last rune read is the
//               end-of-input sentinel (so no rune of the input makes tokenising stop early).
// RCL-progress: every return of Advance that delivers a token has consumed at least one rune
//               (reads minus effective un-reads and push-backs ≥ 1), so the number of tokens
//               is bounded by the number of runes.
// RCL-cycle:    no loop of the lexer can come back to its header without having consumed a
//               rune (no read / un-read ping-pong on non-empty input).

import (
	"fmt"
	"go/constant"
	"go/token"
	"go/types"
	"sort"
	"strings"
	"unicode"

	"golang.org/x/tools/go/ssa"
)

func init() { engines["RCL"] = engineRCL }

type aset [4]uint64

func (a aset) has(i int) bool { return a[i>>6]&(1<<(uint(i)&63)) != 0 }
func (a *aset) add(i int)     { a[i>>6] |= 1 << (uint(i) & 63) }
func (a aset) and(b aset) aset {
	return aset{a[0] & b[0], a[1] & b[1], a[2] & b[2], a[3] & b[3]}
}
func (a aset) or(b aset) aset { return aset{a[0] | b[0], a[1] | b[1], a[2] | b[2], a[3] | b[3]} }
func (a aset) andNot(b aset) aset {
	return aset{a[0] &^ b[0], a[1] &^ b[1], a[2] &^ b[2], a[3] &^ b[3]}
}
func (a aset) empty() bool { return a[0]|a[1]|a[2]|a[3] == 0 }

var unicodePreds = map[string]func(rune) bool{
	"IsSpace": unicode.IsSpace, "IsDigit": unicode.IsDigit, "IsUpper": unicode.IsUpper, "IsLower": unicode.IsLower,
	"IsLetter": unicode.IsLetter, "IsPunct": unicode.IsPunct, "IsNumber": unicode.IsNumber, "IsControl": unicode.IsControl,
	"IsGraphic": unicode.IsGraphic, "IsPrint": unicode.IsPrint, "IsSymbol": unicode.IsSymbol, "IsMark": unicode.IsMark, "IsTitle": unicode.IsTitle,
}

type atomInfo struct {
	rep    rune
	single bool
	bits   uint32
	ival   int
	size   int
}

type runeAtoms struct {
	consts   map[rune]int
	preds    []string // unicode predicate names used, sorted
	bounds   []rune
	atoms    []atomInfo
	all      aset
	otherKey map[uint64]int
}

func (ra *runeAtoms) classify(r rune) (bits uint32, ival int) {
	for i, p := range ra.preds {
		if unicodePreds[p](r) {
			bits |= 1 << uint(i)
		}
	}
	ival = sort.Search(len(ra.bounds), func(i int) bool { return ra.bounds[i] >= r })
	return
}

func (ra *runeAtoms) atomOf(r rune) int {
	if id, ok := ra.consts[r]; ok {
		return id
	}
	b, iv := ra.classify(r)
	if id, ok := ra.otherKey[uint64(b)<<32|uint64(iv)]; ok {
		return id
	}
	return -1
}

func (ra *runeAtoms) single(r rune) aset {
	var s aset
	if id := ra.atomOf(r); id >= 0 {
		s.add(id)
	}
	return s
}

func (ra *runeAtoms) build(consts map[rune]bool, bounds map[rune]bool, preds map[string]bool) {
	ra.consts = map[rune]int{}
	ra.otherKey = map[uint64]int{}
	for p := range preds {
		ra.preds = append(ra.preds, p)
	}
	sort.Strings(ra.preds)
	for b := range bounds {
		ra.bounds = append(ra.bounds, b)
		consts[b] = true
	}
	sort.Slice(ra.bounds, func(i, j int) bool { return ra.bounds[i] < ra.bounds[j] })
	var cs []rune
	for c := range consts {
		cs = append(cs, c)
	}
	sort.Slice(cs, func(i, j int) bool { return cs[i] < cs[j] })
	for _, c := range cs {
		b, iv := ra.classify(c)
		ra.consts[c] = len(ra.atoms)
		ra.atoms = append(ra.atoms, atomInfo{rep: c, single: true, bits: b, ival: iv, size: 1})
	}
	for r := rune(0); r <= unicode.MaxRune; r++ {
		if r >= 0xD800 && r <= 0xDFFF {
			continue // surrogates cannot come out of a string → []rune conversion
		}
		if _, ok := ra.consts[r]; ok {
			continue
		}
		b, iv := ra.classify(r)
		k := uint64(b)<<32 | uint64(iv)
		id, ok := ra.otherKey[k]
		if !ok {
			id = len(ra.atoms)
			ra.otherKey[k] = id
			ra.atoms = append(ra.atoms, atomInfo{rep: r, bits: b, ival: iv})
		}
		ra.atoms[id].size++
	}
	// U+FFFD also stands for every invalid byte sequence; it is an ordinary rune here.
	for i := range ra.atoms {
		ra.all.add(i)
	}
}

func (ra *runeAtoms) predSet(name string) aset {
	var s aset
	idx := -1
	for i, p := range ra.preds {
		if p == name {
			idx = i
		}
	}
	for i, a := range ra.atoms {
		if idx >= 0 && a.bits&(1<<uint(idx)) != 0 {
			s.add(i)
		}
	}
	return s
}

// cmpSets: atoms on which (x op c) can be true / can be false.
func (ra *runeAtoms) cmpSets(op token.Token, c rune) (t, f aset) {
	_, known := ra.consts[c]
	for i, a := range ra.atoms {
		var canT, canF bool
		if a.single {
			var v bool
			switch op {
			case token.EQL:
				v = a.rep == c
			case token.NEQ:
				v = a.rep != c
			case token.LSS:
				v = a.rep < c
			case token.LEQ:
				v = a.rep <= c
			case token.GTR:
				v = a.rep > c
			case token.GEQ:
				v = a.rep >= c
			}
			canT, canF = v, !v
		} else {
			switch op {
			case token.EQL, token.NEQ:
				if known {
					canT, canF = op == token.NEQ, op == token.EQL
				} else {
					canT, canF = true, true
				}
			default:
				// homogeneous only if c is one of the interval bounds
				isBound := false
				for _, b := range ra.bounds {
					if b == c {
						isBound = true
					}
				}
				if !isBound {
					canT, canF = true, true
				} else {
					less := a.rep < c // all members are on the same side of every bound
					switch op {
					case token.LSS, token.LEQ:
						canT, canF = less, !less
					case token.GTR, token.GEQ:
						canT, canF = !less, less
					}
				}
			}
		}
		if canT {
			t.add(i)
		}
		if canF {
			f.add(i)
		}
	}
	return
}

func (ra *runeAtoms) describe(s aset) string {
	var parts []string
	for i, a := range ra.atoms {
		if !s.has(i) {
			continue
		}
		if a.single {
			parts = append(parts, fmt.Sprintf("%q", a.rep))
		} else {
			var ps []string
			for j, p := range ra.preds {
				if a.bits&(1<<uint(j)) != 0 {
					ps = append(ps, p)
				}
			}
			cls := "no class"
			if len(ps) > 0 {
				cls = strings.Join(ps, "+")
			}
			parts = append(parts, fmt.Sprintf("%d other runes such as U+%04X (%s)", a.size, a.rep, cls))
		}
		if len(parts) >= 6 {
			parts = append(parts, "…")
			break
		}
	}
	return strings.Join(parts, ", ")
}

// ---- abstract machine

type rclState struct{ flag, net, ret int8 }

type rclConf struct {
	env   map[ssa.Value]aset
	benv  map[ssa.Value]int8
	pend  aset
	alias map[ssa.Value]bool
}

func (c *rclConf) clone() *rclConf {
	n := &rclConf{env: make(map[ssa.Value]aset, len(c.env)), benv: make(map[ssa.Value]int8, len(c.benv)), pend: c.pend, alias: make(map[ssa.Value]bool, len(c.alias))}
	for k, v := range c.env {
		n.env[k] = v
	}
	for k, v := range c.benv {
		n.benv[k] = v
	}
	for k := range c.alias {
		n.alias[k] = true
	}
	return n
}

type rclExit struct {
	flag, dnet, ret int8
	pend            aset
	site            *ssa.Return
	hyp             bool
}

const (
	rclNetMin = -3
	rclNetMax = 4
)

type rcl struct {
	w        *World
	ae       *AE
	ra       *runeAtoms
	sentinel aset
	isUnread func(*ssa.Function) bool
	isPush   func(*ssa.Function) bool
	touches  map[*ssa.Function]int8
	memo     map[string][]rclExit
	inProg   map[string]bool
	predTab  map[*ssa.Function][2]aset
	steps    int
	budget   int
	overflow bool
	loops    map[*ssa.Function][]*natLoop
}

func isRuneType(t types.Type) bool {
	b, ok := t.Underlying().(*types.Basic)
	return ok && b.Kind() == types.Int32
}

func (m *rcl) touchesReader(f *ssa.Function, depth int) bool {
	if f == nil || len(f.Blocks) == 0 {
		return false
	}
	if v, ok := m.touches[f]; ok {
		return v == 1
	}
	m.touches[f] = 0
	res := false
	for _, b := range f.Blocks {
		for _, ins := range b.Instrs {
			if c, ok := ins.(*ssa.Call); ok {
				cal := c.Call.StaticCallee()
				if cal == nil {
					continue
				}
				if m.ae.isRuneReader(cal) || m.isUnread(cal) || m.isPush(cal) {
					res = true
				} else if cal.Pkg != nil && inModule(cal.Pkg.Pkg.Path()) && depth < 8 && m.touchesReader(cal, depth+1) {
					res = true
				}
			}
		}
	}
	if res {
		m.touches[f] = 1
	}
	return res
}

func (m *rcl) valSet(c *rclConf, v ssa.Value) aset {
	if k, ok := v.(*ssa.Const); ok {
		if k.Value != nil && k.Value.Kind() == constant.Int {
			if r, ok := cInt64(k.Value); ok {
				if s := m.ra.single(rune(r)); !s.empty() {
					return s
				}
			}
		}
		return m.ra.all
	}
	if s, ok := c.env[v]; ok {
		return s
	}
	return m.ra.all
}

// refine restricts v to keep; false when nothing is left (infeasible edge).
func (m *rcl) refine(c *rclConf, v ssa.Value, keep aset) bool {
	if _, isConst := v.(*ssa.Const); isConst {
		return !m.valSet(c, v).and(keep).empty()
	}
	s := m.valSet(c, v).and(keep)
	if s.empty() {
		return false
	}
	c.env[v] = s
	if c.alias[v] {
		c.pend = c.pend.and(keep)
		if c.pend.empty() {
			return false
		}
		for a := range c.alias {
			if a != v {
				c.env[a] = m.valSet(c, a).and(keep)
			}
		}
	}
	return true
}

// condSets: for a boolean condition, the rune value it tests and the atom sets on which it
// can be true / false. ok=false: the condition says nothing about a rune.
func (m *rcl) condSets(cond ssa.Value, depth int) (v ssa.Value, t, f aset, ok bool) {
	if depth > 4 {
		return
	}
	switch x := cond.(type) {
	case *ssa.UnOp:
		if x.Op == token.NOT {
			v, t, f, ok = m.condSets(x.X, depth+1)
			return v, f, t, ok
		}
		// a read of a constant boolean table at the rune: true exactly on the runes whose
		// entry is set (each of them is an atom of its own)
		if x.Op == token.MUL {
			if ia, isIA := x.X.(*ssa.IndexAddr); isIA {
				if g, isG := ia.X.(*ssa.Global); isG {
					idx := ia.Index
					if cv, isCv := idx.(*ssa.Convert); isCv {
						idx = cv.X
					}
					if tab, good := constTableOf(m.w, g); good && isRuneType(idx.Type()) {
						for r, val := range tab {
							if val.k == kBool && val.b {
								t = t.or(m.ra.single(rune(r)))
							}
						}
						return idx, t, m.ra.all.andNot(t), true
					}
				}
			}
		}
	case *ssa.BinOp:
		switch x.Op {
		case token.EQL, token.NEQ, token.LSS, token.LEQ, token.GTR, token.GEQ:
		default:
			return
		}
		if !isRuneType(x.X.Type()) {
			return
		}
		if k, isC := x.Y.(*ssa.Const); isC && k.Value != nil {
			if _, isC2 := x.X.(*ssa.Const); !isC2 {
				t, f = m.ra.cmpSets(x.Op, rune(k.Int64()))
				return x.X, t, f, true
			}
		}
		if k, isC := x.X.(*ssa.Const); isC && k.Value != nil {
			if _, isC2 := x.Y.(*ssa.Const); !isC2 {
				op := x.Op
				switch op {
				case token.LSS:
					op = token.GTR
				case token.GTR:
					op = token.LSS
				case token.LEQ:
					op = token.GEQ
				case token.GEQ:
					op = token.LEQ
				}
				t, f = m.ra.cmpSets(op, rune(k.Int64()))
				return x.Y, t, f, true
			}
		}
	case *ssa.Call:
		cal := x.Call.StaticCallee()
		if cal == nil || len(x.Call.Args) != 1 || !isRuneType(x.Call.Args[0].Type()) {
			return
		}
		_ = cal
		if cal.Pkg != nil && cal.Pkg.Pkg.Path() == "unicode" {
			if _, known := unicodePreds[cal.Name()]; known {
				t = m.ra.predSet(cal.Name())
				return x.Call.Args[0], t, m.ra.all.andNot(t), true
			}
			return
		}
		if cal.Pkg != nil && inModule(cal.Pkg.Pkg.Path()) && len(cal.Blocks) > 0 && !m.touchesReader(cal, 0) && cal.Signature.Recv() == nil {
			tab := m.predicateTable(cal)
			return x.Call.Args[0], tab[0], tab[1], true
		}
	}
	return
}

// evalCond: 1 if cond is certainly true in c, 2 if certainly false, 0 if both are possible
// or nothing is known.
func (m *rcl) evalCond(c *rclConf, cond ssa.Value) int8 {
	if k, ok := cond.(*ssa.Const); ok && k.Value != nil && k.Value.Kind() == constant.Bool {
		if cBool(k.Value) {
			return 1
		}
		return 2
	}
	if bv, ok := c.benv[cond]; ok && bv != 0 {
		return bv
	}
	if v, t, f, ok := m.condSets(cond, 0); ok {
		s := m.valSet(c, v)
		canT, canF := !s.and(t).empty(), !s.and(f).empty()
		switch {
		case canT && !canF:
			return 1
		case canF && !canT:
			return 2
		}
	}
	return 0
}

// predicateTable: atoms on which a pure in-module rune predicate can return true / false.
func (m *rcl) predicateTable(f *ssa.Function) [2]aset {
	if t, ok := m.predTab[f]; ok {
		return t
	}
	m.predTab[f] = [2]aset{m.ra.all, m.ra.all} // recursion guard
	var tab [2]aset
	for i := range m.ra.atoms {
		var s aset
		s.add(i)
		for _, e := range m.analyse(f, 0, m.ra.all, []aset{s}, 0) {
			if e.ret == 1 || e.ret == 0 {
				tab[0].add(i)
			}
			if e.ret == 2 || e.ret == 0 {
				tab[1].add(i)
			}
		}
	}
	m.predTab[f] = tab
	return tab
}

func capNet(n int) int8 {
	if n < rclNetMin {
		n = rclNetMin
	}
	if n > rclNetMax {
		n = rclNetMax
	}
	return int8(n)
}

func mergeConf(dst map[rclState]*rclConf, st rclState, c *rclConf) bool {
	d, ok := dst[st]
	if !ok {
		dst[st] = c.clone()
		return true
	}
	changed := false
	for k, v := range c.env {
		if o, ok := d.env[k]; !ok {
			d.env[k] = v
			changed = true
		} else if n := o.or(v); n != o {
			d.env[k] = n
			changed = true
		}
	}
	for k, v := range c.benv {
		if o, ok := d.benv[k]; !ok {
			d.benv[k] = v
			changed = true
		} else if o != v && o != 0 {
			d.benv[k] = 0
			changed = true
		}
	}
	if n := d.pend.or(c.pend); n != d.pend {
		d.pend = n
		changed = true
	}
	for a := range d.alias {
		if !c.alias[a] {
			delete(d.alias, a)
			changed = true
		}
	}
	return changed
}

func (m *rcl) analyse(fn *ssa.Function, flag int8, pend aset, params []aset, depth int) []rclExit {
	key := fmt.Sprintf("%s|%d|%x", fnKey(fn), flag, pend)
	for _, p := range params {
		key += fmt.Sprintf("|%x", p)
	}
	if ex, ok := m.memo[key]; ok {
		return ex
	}
	retBool := fn.Signature.Results().Len() == 1 && types.Identical(fn.Signature.Results().At(0).Type().Underlying(), types.Typ[types.Bool])
	if m.inProg[key] || depth > 12 {
		// induction hypothesis: a delivering return has consumed a rune, a false return saw the sentinel
		var ex []rclExit
		for _, fl := range []int8{0, 1} {
			if retBool && m.touchesReader(fn, 0) {
				ex = append(ex, rclExit{flag: fl, dnet: 1, ret: 1, pend: m.ra.all, hyp: true})
				ex = append(ex, rclExit{flag: fl, dnet: 0, ret: 2, pend: m.sentinel, hyp: true})
			} else {
				ex = append(ex, rclExit{flag: fl, dnet: 0, ret: 0, pend: m.ra.all, hyp: true})
			}
		}
		return ex
	}
	m.inProg[key] = true
	defer delete(m.inProg, key)

	entry := &rclConf{env: map[ssa.Value]aset{}, benv: map[ssa.Value]int8{}, pend: pend, alias: map[ssa.Value]bool{}}
	pi := 0
	for _, p := range fn.Params {
		if isRuneType(p.Type()) {
			if pi < len(params) {
				entry.env[p] = params[pi]
			}
			pi++
		}
	}
	if _, ok := m.loops[fn]; !ok {
		m.loops[fn] = findLoops(fn)
	}
	exitsByKey := map[string]rclExit{}
	onReturn := func(st rclState, c *rclConf, x *ssa.Return) {
		ret := int8(0)
		if retBool && len(x.Results) == 1 {
			switch rv := x.Results[0].(type) {
			case *ssa.Const:
				if rv.Value != nil && cBool(rv.Value) {
					ret = 1
				} else {
					ret = 2
				}
			case *ssa.Call:
				if st.ret != 0 {
					ret = st.ret
				} else {
					ret = m.evalCond(c, rv)
				}
			default:
				ret = m.evalCond(c, rv)
			}
		}
		emit := func(r int8) {
			e := rclExit{flag: st.flag, dnet: st.net, ret: r, pend: c.pend, site: x}
			k := fmt.Sprintf("%p|%d|%d|%d", x, e.flag, e.dnet, e.ret)
			if o, ok := exitsByKey[k]; ok {
				e.pend = e.pend.or(o.pend)
			}
			exitsByKey[k] = e
		}
		if retBool && ret == 0 {
			emit(1)
			emit(2)
		} else {
			emit(ret)
		}
	}
	m.run(fn, fn.Blocks[0], map[rclState]*rclConf{{flag: flag}: entry}, nil, depth, onReturn, nil)
	var ex []rclExit
	var keys []string
	for k := range exitsByKey {
		keys = append(keys, k)
	}
	sort.Strings(keys)
	for _, k := range keys {
		ex = append(ex, exitsByKey[k])
	}
	m.memo[key] = ex
	return ex
}

// run: forward fixed point from start. With within != nil only edges inside the loop are
// followed and every arrival at its header over a back edge is handed to onBack instead.
func (m *rcl) run(fn *ssa.Function, start *ssa.BasicBlock, startStates map[rclState]*rclConf, within *natLoop, depth int,
	onReturn func(rclState, *rclConf, *ssa.Return), onBack func(rclState, *rclConf, *ssa.BasicBlock)) {
	in := map[*ssa.BasicBlock]map[rclState]*rclConf{start: startStates}
	work := []*ssa.BasicBlock{start}
	queued := map[*ssa.BasicBlock]bool{start: true}
	for len(work) > 0 {
		b := work[0]
		work = work[1:]
		queued[b] = false
		m.steps++
		if m.steps > m.budget {
			m.overflow = true
			return
		}
		cur := map[rclState]*rclConf{}
		for st, c := range in[b] {
			cur[st] = c.clone()
		}
		for _, ins := range b.Instrs {
			switch x := ins.(type) {
			case *ssa.Call:
				cur = m.doCall(fn, x, cur, depth)
			case *ssa.Return:
				if onReturn != nil {
					for st, c := range cur {
						onReturn(st, c, x)
					}
				}
			}
		}
		last := b.Instrs[len(b.Instrs)-1]
		for si, succ := range b.Succs {
			if within != nil && !within.body[succ] {
				continue
			}
			for st, c := range cur {
				nc := c.clone()
				if iff, ok := last.(*ssa.If); ok {
					if v, t, f, ok := m.condSets(iff.Cond, 0); ok {
						keep := t
						if si == 1 {
							keep = f
						}
						if !m.refine(nc, v, keep) {
							continue
						}
					} else if bv, ok := c.benv[iff.Cond]; ok && bv != 0 {
						if (bv == 1) != (si == 0) {
							continue
						}
					}
				}
				if within != nil && succ == within.head {
					onBack(st, nc, b)
					continue
				}
				pidx := -1
				for i, p := range succ.Preds {
					if p == b {
						pidx = i
					}
				}
				type upd struct {
					phi   *ssa.Phi
					set   aset
					alias bool
					bval  int8
					isB   bool
				}
				var ups []upd
				for _, pins := range succ.Instrs {
					ph, ok := pins.(*ssa.Phi)
					if !ok {
						break
					}
					inc := ph.Edges[pidx]
					if isRuneType(ph.Type()) {
						ups = append(ups, upd{phi: ph, set: m.valSet(nc, inc), alias: nc.alias[inc]})
					} else if types.Identical(ph.Type().Underlying(), types.Typ[types.Bool]) {
						ups = append(ups, upd{phi: ph, bval: m.evalCond(nc, inc), isB: true})
					}
				}
				for _, u := range ups {
					if u.isB {
						nc.benv[u.phi] = u.bval
						continue
					}
					nc.env[u.phi] = u.set
					if u.alias {
						nc.alias[u.phi] = true
					} else {
						delete(nc.alias, u.phi)
					}
				}
				if in[succ] == nil {
					in[succ] = map[rclState]*rclConf{}
				}
				if mergeConf(in[succ], st, nc) && !queued[succ] {
					queued[succ] = true
					work = append(work, succ)
				}
			}
		}
	}
}

// loopNet: least net consumption with which the loop can come back to its header, from any
// reader configuration at the header (everything defined outside the loop is unknown).
func (m *rcl) loopNet(fn *ssa.Function, l *natLoop) (min int8, from string, reached bool) {
	min = 127
	for _, fl := range []int8{0, 1} {
		entry := &rclConf{env: map[ssa.Value]aset{}, benv: map[ssa.Value]int8{}, pend: m.ra.all, alias: map[ssa.Value]bool{}}
		m.run(fn, l.head, map[rclState]*rclConf{{flag: fl}: entry}, l, 0, nil, func(st rclState, c *rclConf, b *ssa.BasicBlock) {
			reached = true
			// effective position e = pos − flag: compare like with like
			d := st.net
			if d < min {
				min = d
				from = fmt.Sprintf("entered with un-read flag %d, back edge from block %d with un-read flag %d", fl, b.Index, st.flag)
			}
		})
	}
	return
}

func (m *rcl) touchesLoop(l *natLoop) bool {
	for b := range l.body {
		for _, ins := range b.Instrs {
			if c, ok := ins.(*ssa.Call); ok {
				cal := c.Call.StaticCallee()
				if cal != nil && (m.ae.isRuneReader(cal) || m.isUnread(cal) || m.isPush(cal) || m.touchesReader(cal, 0)) {
					return true
				}
			}
		}
	}
	return false
}

func (m *rcl) doCall(fn *ssa.Function, x *ssa.Call, cur map[rclState]*rclConf, depth int) map[rclState]*rclConf {
	cal := x.Call.StaticCallee()
	out := map[rclState]*rclConf{}
	put := func(st rclState, c *rclConf) { mergeConf(out, st, c) }
	switch {
	case cal != nil && m.ae.isRuneReader(cal):
		for st, c := range cur {
			nc := c.clone()
			res := m.ra.all
			if st.flag == 1 {
				res = c.pend
			}
			nc.pend = res
			nc.env[x] = res
			nc.alias = map[ssa.Value]bool{x: true}
			put(rclState{flag: 0, net: capNet(int(st.net) + 1), ret: st.ret}, nc)
		}
	case cal != nil && m.isUnread(cal):
		for st, c := range cur {
			if st.flag == 1 {
				put(st, c)
			} else {
				put(rclState{flag: 1, net: capNet(int(st.net) - 1), ret: st.ret}, c)
			}
		}
	case cal != nil && m.isPush(cal):
		for st, c := range cur {
			put(rclState{flag: st.flag, net: capNet(int(st.net) - 1), ret: st.ret}, c)
		}
	case cal != nil && cal.Pkg != nil && inModule(cal.Pkg.Pkg.Path()) && len(cal.Blocks) > 0 && m.touchesReader(cal, 0):
		for st, c := range cur {
			var ps []aset
			for i, a := range x.Call.Args {
				if i < len(cal.Params) && isRuneType(cal.Params[i].Type()) {
					ps = append(ps, m.valSet(c, a))
				}
			}
			for _, e := range m.analyse(cal, st.flag, c.pend, ps, depth+1) {
				nc := c.clone()
				nc.pend = e.pend
				nc.alias = map[ssa.Value]bool{}
				if e.ret != 0 {
					nc.benv[x] = e.ret
				}
				put(rclState{flag: e.flag, net: capNet(int(st.net) + int(e.dnet)), ret: e.ret}, nc)
			}
		}
	default:
		return cur
	}
	return out
}

func engineRCL(w *World, tier string) *EngineResult {
	r := newResult("RCL", "rune-class abstract interpretation of the lexer: the rune domain is partitioned so that every predicate the lexer applies is constant on each class; (RCL-eos) the token function reports end-of-stream only when the last rune read is the end-of-input sentinel; (RCL-progress) every return that delivers a token has consumed at least one rune (reads − effective un-reads − push-backs ≥ 1); (RCL-cycle) no loop of the lexer returns to its header without net consumption")
	lp := w.Pkg("lexer")
	if lp == nil {
		r.undecided("RCL-eos", "lexer", "anchors", "unresolved anchor: package lexer", "-")
		r.finish()
		return r
	}
	ae := newAE(w, envNone, "quick")
	isLR := func(fn *ssa.Function) bool {
		return fn != nil && fn.Signature.Recv() != nil && isPtrToNamed(fn.Signature.Recv().Type(), modulePath+"/lexer/reader", "LexerReader")
	}
	m := &rcl{w: w, ae: ae, ra: &runeAtoms{}, touches: map[*ssa.Function]int8{}, memo: map[string][]rclExit{}, inProg: map[string]bool{}, predTab: map[*ssa.Function][2]aset{}, loops: map[*ssa.Function][]*natLoop{}}
	m.isUnread = func(fn *ssa.Function) bool {
		return isLR(fn) && fn.Signature.Params().Len() == 0 && fn.Signature.Results().Len() == 0
	}
	m.isPush = func(fn *ssa.Function) bool {
		return isLR(fn) && fn.Signature.Params().Len() == 1 && fn.Signature.Results().Len() == 0 && isRuneType(fn.Signature.Params().At(0).Type())
	}
	m.budget = 200000
	if tier == "thorough" {
		m.budget = 2000000
	}
	// ---- the partition
	consts, bounds, preds := map[rune]bool{0: true}, map[rune]bool{}, map[string]bool{}
	unknownPred := ""
	var lexFuncs []*ssa.Function
	for _, fn := range w.Funcs {
		if pkgShort(fn) != "lexer" {
			continue
		}
		lexFuncs = append(lexFuncs, fn)
		for _, b := range fn.Blocks {
			for _, ins := range b.Instrs {
				switch x := ins.(type) {
				case *ssa.BinOp:
					for _, pr := range [][2]ssa.Value{{x.X, x.Y}, {x.Y, x.X}} {
						k, ok := pr[1].(*ssa.Const)
						if !ok || k.Value == nil || k.Value.Kind() != constant.Int || !isRuneType(pr[0].Type()) {
							continue
						}
						c := rune(k.Int64())
						consts[c] = true
						switch x.Op {
						case token.LSS, token.LEQ, token.GTR, token.GEQ:
							bounds[c] = true
						}
					}
				case *ssa.IndexAddr:
					// a constant table indexed by a rune: every position that is set is a
					// rune the lexer distinguishes
					if g, ok := x.X.(*ssa.Global); ok {
						if tab, good := constTableOf(w, g); good {
							for r := range tab {
								consts[rune(r)] = true
							}
						}
					}
				case *ssa.Call:
					if cal := x.Call.StaticCallee(); cal != nil && cal.Pkg != nil && cal.Pkg.Pkg.Path() == "unicode" && len(x.Call.Args) == 1 && isRuneType(x.Call.Args[0].Type()) {
						if _, ok := unicodePreds[cal.Name()]; ok {
							preds[cal.Name()] = true
						} else {
							unknownPred = cal.Name()
						}
					}
				}
			}
		}
	}
	if unknownPred != "" {
		r.undecided("RCL-eos", "lexer", "rune partition", "the lexer calls unicode."+unknownPred+", which the partition does not model", "-")
		r.finish()
		return r
	}
	m.ra.build(consts, bounds, preds)
	if len(m.ra.atoms) > 250 {
		r.undecided("RCL-eos", "lexer", "rune partition", fmt.Sprintf("%d rune classes exceed the bit-set", len(m.ra.atoms)), "-")
		r.finish()
		return r
	}
	m.sentinel = m.ra.single(0)
	r.Stats["rune_classes"] = len(m.ra.atoms)
	r.Stats["rune_constants"] = len(m.ra.consts)
	r.Notes = append(r.Notes, "unicode predicates in the partition: "+strings.Join(m.ra.preds, ", "))

	// ---- the token function: method of *Lexer returning bool that (transitively) reads runes
	var tokFn *ssa.Function
	for _, fn := range lexFuncs {
		if fn.Signature.Recv() == nil || !isPtrToNamed(fn.Signature.Recv().Type(), modulePath+"/lexer", "Lexer") {
			continue
		}
		if fn.Signature.Params().Len() == 0 && fn.Signature.Results().Len() == 1 && types.Identical(fn.Signature.Results().At(0).Type(), types.Typ[types.Bool]) && m.touchesReader(fn, 0) {
			tokFn = fn
		}
	}
	if tokFn == nil {
		r.undecided("RCL-eos", "lexer", "token function", "unresolved anchor: parameterless method of *Lexer returning bool that reads runes", "-")
		r.finish()
		return r
	}
	type agg struct {
		pend   aset
		minNet int8
		seen   bool
	}
	falseAt, trueAt := map[*ssa.Return]*agg{}, map[*ssa.Return]*agg{}
	for _, fl := range []int8{0, 1} {
		for _, e := range m.analyse(tokFn, fl, m.ra.all, nil, 0) {
			if e.site == nil {
				continue
			}
			tgt := trueAt
			if e.ret == 2 {
				tgt = falseAt
			}
			a := tgt[e.site]
			if a == nil {
				a = &agg{minNet: 127}
				tgt[e.site] = a
			}
			a.seen = true
			a.pend = a.pend.or(e.pend)
			if e.dnet < a.minNet {
				a.minNet = e.dnet
			}
		}
	}
	if m.overflow {
		r.undecided("RCL-eos", fnKey(tokFn), "state budget", "the abstract exploration exceeded its budget", w.pos(tokFn.Pos()))
	}
	retOrd := func(site *ssa.Return) int {
		n := 0
		for _, b := range tokFn.Blocks {
			for _, ins := range b.Instrs {
				if rt, ok := ins.(*ssa.Return); ok {
					n++
					if rt == site {
						return n
					}
				}
			}
		}
		return 0
	}
	var sites []*ssa.Return
	for s := range falseAt {
		sites = append(sites, s)
	}
	sort.Slice(sites, func(i, j int) bool { return retOrd(sites[i]) < retOrd(sites[j]) })
	nFalse := 0
	for _, s := range sites {
		a := falseAt[s]
		nFalse++
		construct := fmt.Sprintf("end-of-stream return #%d", nFalse)
		extra := a.pend.andNot(m.sentinel)
		if extra.empty() {
			r.holds("RCL-eos", fnKey(tokFn), construct, "the last rune read is the end-of-input sentinel on every path to this return", w.pos(instrPos(s)))
		} else {
			r.violated("RCL-eos", fnKey(tokFn), construct, "tokenising stops although input remains: this return is reachable when the last rune read is "+m.ra.describe(extra)+" — the rest of the file is never tokenised", w.pos(instrPos(s)))
		}
	}
	sites = sites[:0]
	for s := range trueAt {
		sites = append(sites, s)
	}
	sort.Slice(sites, func(i, j int) bool { return retOrd(sites[i]) < retOrd(sites[j]) })
	nTrue := 0
	for _, s := range sites {
		a := trueAt[s]
		nTrue++
		construct := fmt.Sprintf("token return #%d", nTrue)
		if a.minNet >= 1 {
			r.holds("RCL-progress", fnKey(tokFn), construct, fmt.Sprintf("at least %d rune(s) consumed on every path to this return", a.minNet), w.pos(instrPos(s)))
		} else {
			r.violated("RCL-progress", fnKey(tokFn), construct, fmt.Sprintf("a token is delivered on a path whose net consumption is %d: the same position can deliver tokens for ever", a.minNet), w.pos(instrPos(s)))
		}
	}
	r.Stats["end_of_stream_returns"] = nFalse
	r.Stats["token_returns"] = nTrue
	r.floor("end_of_stream_returns", 1)
	r.floor("token_returns", 3)

	// ---- RCL-cycle: every function of the lexer analysed above
	nLoops := 0
	for _, fn := range lexFuncs {
		loops, ok := m.loops[fn]
		if !ok {
			loops = findLoops(fn)
			m.loops[fn] = loops
		}
		for i, l := range loops {
			if !m.touchesLoop(l) {
				continue
			}
			nLoops++
			construct := fmt.Sprintf("loop#%d", i+1)
			min, from, reached := m.loopNet(fn, l)
			switch {
			case !reached:
				r.holds("RCL-cycle", fnKey(fn), construct, "no feasible path returns to the loop header", w.pos(instrPos(l.head.Instrs[0])))
			case min >= 1:
				r.holds("RCL-cycle", fnKey(fn), construct, fmt.Sprintf("every way back to the loop header has consumed at least %d rune(s)", min), w.pos(instrPos(l.head.Instrs[0])))
			default:
				r.violated("RCL-cycle", fnKey(fn), construct, fmt.Sprintf("the loop can return to its header with net consumption %d (%s): a read / un-read ping-pong that never ends on non-empty input", min, from), w.pos(instrPos(l.head.Instrs[0])))
			}
		}
	}
	r.Stats["lexer_loops"] = nLoops
	r.Stats["abstract_steps"] = m.steps
	r.floor("lexer_loops", 5)
	r.finish()
	return r
}
