package main

import (
	"fmt"
	"regexp"
	"strings"

	"golang.org/x/tools/go/ssa"
)

// Reviewed exceptions and known findings are keyed rule|function|construct, and the
// construct names the storage the way the source does. A behaviour-preserving edit that
// renames a local or a parameter, or that moves the reviewed statement into a helper only
// the reviewed function calls, changes that key although nothing about the reviewed
// argument changed. reconcile pairs such an orphaned site with an orphaned entry:
//
//   - same rule;
//   - the constructs are equal once lower-case free identifiers (locals, parameters,
//     receivers, package qualifiers) are blanked and the #n ordinal is dropped;
//   - the same function, or a function whose only callers are the entry's function (the
//     statement was extracted), or the only caller of the entry's function's … no: only the
//     first two.
//
// One entry excuses one site; an entry that still matches a site exactly is never reused.
// Entries with a machine-checked premise (ntPremise, the EL visited guard, ixAssumed) are
// not paired this way: their premise names the function.

var reviewedTables = map[string]struct {
	table  map[string]string
	prefix string // what the table's keys lack in front
}{
	"IX":  {ixReviewed, ""},
	"IV":  {ivReviewed, ""},
	"TA":  {taReviewed, ""},
	"ED":  {edReviewed, ""},
	"TB":  {tbReviewed, ""},
	"NT":  {ntReviewed, ""},
	"REG": {regExitReviewed, "REG-exit|"},
}

var identRe = regexp.MustCompile(`[A-Za-z_][A-Za-z0-9_]*`)
var ordinalRe = regexp.MustCompile(`#\d+$`)
var publishRe = regexp.MustCompile(`^publish .* \[entry\]`)
var callOnRe = regexp.MustCompile(`^call (\S+) on .* \[entry\]`)

// canonConstruct blanks the identifiers a rename can change.
func canonConstruct(c string) string {
	c = ordinalRe.ReplaceAllString(c, "")
	// TB names the sink and, in between, where the value came from (`publish result of
	// GetMethodT [entry] as …`, `publish parameter intT [entry] as …`): the sink is the site
	c = publishRe.ReplaceAllString(c, "publish [entry]")
	// … and the callee it hands the entry to, followed by where the entry came from
	c = callOnRe.ReplaceAllString(c, "call $1 on [entry]")
	var sb strings.Builder
	last := 0
	for _, m := range identRe.FindAllStringIndex(c, -1) {
		sb.WriteString(c[last:m[0]])
		last = m[1]
		id := c[m[0]:m[1]]
		free := m[0] == 0 || c[m[0]-1] != '.'
		lower := id[0] >= 'a' && id[0] <= 'z' || id[0] == '_'
		builtin := id == "len" || id == "cap" || id == "nil"
		if free && lower && !builtin {
			sb.WriteString("_")
		} else {
			sb.WriteString(id)
		}
	}
	sb.WriteString(c[last:])
	return sb.String()
}

// canonLoose additionally folds an accessor chain over a blanked name (`_.GetName()`,
// `_.ToString()`, `_.field`) into the name: what was `f(id.GetName())` in the reviewed
// function is `f(name)` in the helper the value is handed to. A chain element that is a
// call with arguments (`_.MakeIdentifier(x)`) is kept.
var lookupRe = regexp.MustCompile(`^lookup \S+`)
var blankIndexRe = regexp.MustCompile(`_\[[^\]\[]*\]`)

func canonLoose(c string) string {
	// a lookup that moved behind a helper of the same function is reported under the
	// helper's name
	c = lookupRe.ReplaceAllString(ordinalRe.ReplaceAllString(c, ""), "lookup ANY")
	c = canonConstruct(c)
	// an element of a blanked list hoisted into a local (`first := xs[0]`) is a blanked name
	c = blankIndexRe.ReplaceAllString(c, "_")
	isIdent := func(ch byte) bool {
		return ch == '_' || ch >= 'a' && ch <= 'z' || ch >= 'A' && ch <= 'Z' || ch >= '0' && ch <= '9'
	}
	var sb strings.Builder
	i := 0
	for i < len(c) {
		if c[i] != '_' || (i > 0 && (isIdent(c[i-1]) || c[i-1] == '.')) || (i+1 < len(c) && isIdent(c[i+1])) {
			sb.WriteByte(c[i])
			i++
			continue
		}
		sb.WriteByte('_')
		i++
		for i < len(c) && c[i] == '.' {
			j := i + 1
			for j < len(c) && isIdent(c[j]) {
				j++
			}
			if j == i+1 {
				break
			}
			if j < len(c) && c[j] == '(' {
				if j+1 < len(c) && c[j+1] == ')' {
					i = j + 2
					continue
				}
				break // a call with arguments stays
			}
			i = j
		}
	}
	return sb.String()
}

func splitKey(k string) (rule, fn, construct string) {
	p := strings.SplitN(k, "|", 3)
	if len(p) != 3 {
		return k, "", ""
	}
	return p[0], p[1], p[2]
}

// privateHelperOf: every call of the function named g comes from the function named f, or
// from a function of which the same holds (two levels).
func privateHelperOf(w *World, g, f string, depth int) bool {
	if g == f {
		return true
	}
	if depth > 2 {
		return false
	}
	var gf *ssa.Function
	for _, fn := range w.Funcs {
		if fnKey(fn) == g {
			gf = fn
		}
	}
	if gf == nil {
		return false
	}
	n := w.CallGraph().Nodes[gf]
	if n == nil || len(n.In) == 0 {
		return false
	}
	for _, in := range n.In {
		top := in.Caller.Func
		for top.Parent() != nil {
			top = top.Parent()
		}
		if fnKey(top) != f && !privateHelperOf(w, fnKey(top), f, depth+1) {
			return false
		}
	}
	return true
}

// pairOrphan finds an unused entry that is the site o modulo a rename or an extraction.
func pairOrphan(w *World, o Obligation, entries map[string]string, used func(string) bool, skip func(string) bool) (string, string) {
	best, renamed := "", ""
	for _, canon := range []func(string) string{canonConstruct, canonLoose} {
		want := canon(o.Construct)
		for k := range entries {
			if used(k) || (skip != nil && skip(k)) {
				continue
			}
			rule, fn, construct := splitKey(k)
			if rule != o.Rule || canon(construct) != want {
				continue
			}
			if !privateHelperOf(w, o.Func, fn, 0) {
				// the entry's function no longer exists (renamed — the tree has its share of
				// misspelt names a tidy-up would fix — or dissolved): the site may be its heir
				if funcExists(w, fn) || !samePackage(fn, o.Func) {
					continue
				}
				if renamed == "" || k < renamed {
					renamed = k
				}
				continue
			}
			if best == "" || k < best {
				best = k
			}
		}
		if best == "" && renamed != "" {
			best = renamed
		}
		if best != "" {
			break
		}
	}
	if best == "" {
		return "", ""
	}
	_, fn, _ := splitKey(best)
	how := "the same site under other local names"
	if fn != o.Func {
		how = "the reviewed statement of " + fn + ", moved into a helper only that function calls"
		if !funcExists(w, fn) {
			how = "the reviewed statement of " + fn + ", a function that no longer exists under that name"
		}
	}
	return best, how
}

func reconcileReviewed(w *World, engine string, res *EngineResult) {
	rt, ok := reviewedTables[engine]
	if !ok {
		return
	}
	full := map[string]string{}
	for k, v := range rt.table {
		full[rt.prefix+k] = v
	}
	// exact matches first: an entry whose key is an obligation of this run is taken
	present := map[string]bool{}
	for _, o := range res.Obligations {
		present[o.Key()] = true
	}
	taken := map[string]bool{}
	used := func(k string) bool { return present[k] || taken[k] || res.Reviewed[k] != "" }
	skip := func(k string) bool {
		if _, has := ntPremise[k]; has {
			return true
		}
		return false
	}
	for i := range res.Obligations {
		o := &res.Obligations[i]
		if o.Verdict == Holds {
			continue
		}
		k, how := pairOrphan(w, *o, full, used, skip)
		if k == "" {
			continue
		}
		taken[k] = true
		res.Reviewed[k] = full[k]
		o.Verdict = Holds
		o.Reviewed = full[k]
		o.Detail = fmt.Sprintf("reviewed exception %q (%s)", k, how)
		kept := res.Notes[:0]
		for _, n := range res.Notes {
			if !strings.HasSuffix(n, "(stale): "+strings.TrimPrefix(k, rt.prefix)) && !strings.HasSuffix(n, "(stale): "+k) {
				kept = append(kept, n)
			}
		}
		res.Notes = kept
	}
}


func funcExists(w *World, key string) bool {
	for _, fn := range w.Funcs {
		if fnKey(fn) == key {
			return true
		}
	}
	// package-level anchors ("lexer", "builtin.init") are not functions: they always exist
	return !strings.Contains(key, ".") || strings.HasSuffix(key, ".init")
}

// samePackage: the two function keys name functions of one package.
func samePackage(a, b string) bool {
	pk := func(k string) string {
		if i := strings.Index(k, ".("); i >= 0 {
			return k[:i]
		}
		if i := strings.LastIndex(k, "."); i >= 0 {
			return k[:i]
		}
		return k
	}
	return pk(a) == pk(b)
}
