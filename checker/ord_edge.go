package main

import (
	"fmt"
	"go/token"
	"go/types"

	"golang.org/x/tools/go/ssa"
)

// ORD-edge (C16): in a graph table map[S][]S whose list elements carry discriminator
// fields that key-building literals never set (the kind of the edge: include / extend),
// an element of a list is an *edge*, not a node identity. Edges are looked at field by
// field; they are never compared as whole values (==, a generic containment helper over the
// list) nor used as a key of the table: a whole-value comparison with a node identity can
// only match plain superclass edges and silently ignores mixins.
func ordEdge(w *World, r *EngineResult) {
	// graph tables: package-level map[S][]S with S a module struct
	type table struct {
		g     *ssa.Global
		s     *types.Named
		flags []int // fields that some composite literal sets to a non-zero constant and key literals leave zero
	}
	var tabs []*table
	for _, p := range w.Prog.AllPackages() {
		if p.Pkg == nil || !inModule(p.Pkg.Path()) {
			continue
		}
		for _, mem := range p.Members {
			g, ok := mem.(*ssa.Global)
			if !ok {
				continue
			}
			mt, ok := g.Type().(*types.Pointer).Elem().Underlying().(*types.Map)
			if !ok {
				continue
			}
			kn, ok := mt.Key().(*types.Named)
			if !ok {
				continue
			}
			sl, ok := mt.Elem().Underlying().(*types.Slice)
			if !ok || !types.Identical(sl.Elem(), kn) {
				continue
			}
			if _, ok := kn.Underlying().(*types.Struct); !ok {
				continue
			}
			tabs = append(tabs, &table{g: g, s: kn})
		}
	}
	if len(tabs) == 0 {
		r.undecided("ORD-edge", "base", "graph table", "unresolved anchor: package-level map[S][]S over a module struct", "-")
		return
	}
	// discriminator fields: stored with a non-zero constant into a fresh S somewhere
	for _, t := range tabs {
		st := t.s.Underlying().(*types.Struct)
		set := map[int]bool{}
		for _, fn := range w.Funcs {
			for _, b := range fn.Blocks {
				for _, ins := range b.Instrs {
					sto, ok := ins.(*ssa.Store)
					if !ok {
						continue
					}
					fa, ok := sto.Addr.(*ssa.FieldAddr)
					if !ok {
						continue
					}
					pt, ok := fa.X.Type().Underlying().(*types.Pointer)
					if !ok || !types.Identical(pt.Elem(), t.s) {
						continue
					}
					if k, ok := sto.Val.(*ssa.Const); ok {
						if k.Value != nil && !k.IsNil() && k.Value.String() != "false" && k.Value.String() != "0" && k.Value.String() != `""` {
							set[fa.Field] = true
						}
					} else if b, ok := sto.Val.Type().Underlying().(*types.Basic); ok && b.Kind() == types.Bool {
						// a computed flag (`IsExtend: isExtend`) can be true as well
						set[fa.Field] = true
					}
				}
			}
		}
		// fields that are always given in literals are identity; constant-true ones are flags
		for i := 0; i < st.NumFields(); i++ {
			if set[i] {
				if b, ok := st.Field(i).Type().Underlying().(*types.Basic); ok && b.Kind() == types.Bool {
					t.flags = append(t.flags, i)
				}
			}
		}
	}
	n := 0
	for _, t := range tabs {
		if len(t.flags) == 0 {
			continue
		}
		st := t.s.Underlying().(*types.Struct)
		var fl []string
		for _, i := range t.flags {
			fl = append(fl, st.Field(i).Name())
		}
		r.Notes = append(r.Notes, fmt.Sprintf("graph table %s: edges carry %v", globalName(t.g), fl))
		for _, fn := range w.Funcs {
			ord := 0
			for _, b := range fn.Blocks {
				for _, ins := range b.Instrs {
					lk, ok := ins.(*ssa.Lookup)
					if !ok || rootGlobal(lk.X) != t.g {
						continue
					}
					list := ssa.Value(lk)
					if lk.CommaOk {
						list = nil
						for _, ref := range *lk.Referrers() {
							if ex, ok := ref.(*ssa.Extract); ok && ex.Index == 0 {
								list = ex
							}
						}
						if list == nil {
							continue
						}
					}
					n++
					ord++
					construct := "edge list of " + globalName(t.g)
					if ord > 1 {
						construct += fmt.Sprintf("#%d", ord)
					}
					pos := w.pos(instrPos(lk))
					bad := edgeWholeUse(w, list, t.s, t.g, 0, map[ssa.Value]bool{})
					if bad == "" {
						r.holds("ORD-edge", fnKey(fn), construct, "the edges of the list are only inspected field by field, copied or appended", pos)
					} else {
						r.violated("ORD-edge", fnKey(fn), construct, "an edge (which carries "+fmt.Sprint(fl)+") is used as a whole value: "+bad+" — include / extend edges can never equal a node identity, so mixins drop out of the test", pos)
					}
				}
			}
		}
	}
	r.Stats["edge_list_reads"] = n
	r.floor("edge_list_reads", 6)
}

// edgeWholeUse follows a list of edges / an edge value and reports the first whole-value use.
func edgeWholeUse(w *World, v ssa.Value, s *types.Named, g *ssa.Global, depth int, seen map[ssa.Value]bool) string {
	if seen[v] || depth > 8 || v.Referrers() == nil {
		return ""
	}
	seen[v] = true
	isEdge := types.Identical(v.Type(), s)
	for _, ref := range *v.Referrers() {
		switch x := ref.(type) {
		case *ssa.IndexAddr:
			if x.X == v {
				for _, r2 := range *x.Referrers() {
					switch y := r2.(type) {
					case *ssa.UnOp:
						if why := edgeWholeUse(w, y, s, g, depth+1, seen); why != "" {
							return why
						}
					case *ssa.FieldAddr:
					}
				}
			}
		case *ssa.Index:
			if why := edgeWholeUse(w, x, s, g, depth+1, seen); why != "" {
				return why
			}
		case *ssa.Phi, *ssa.Slice, *ssa.ChangeType:
			if why := edgeWholeUse(w, x.(ssa.Value), s, g, depth+1, seen); why != "" {
				return why
			}
		case *ssa.Range:
		case *ssa.Field, *ssa.FieldAddr, *ssa.DebugRef:
		case *ssa.Store:
			if x.Val == v {
				if al, ok := x.Addr.(*ssa.Alloc); ok {
					for _, r2 := range *al.Referrers() {
						if ld, ok := r2.(*ssa.UnOp); ok {
							if why := edgeWholeUse(w, ld, s, g, depth+1, seen); why != "" {
								return why
							}
						}
					}
				}
			}
		case *ssa.BinOp:
			if isEdge && (x.Op == token.EQL || x.Op == token.NEQ) {
				return "compared with " + x.Op.String() + " at " + w.pos(instrPos(x))
			}
		case *ssa.Lookup:
			if isEdge && x.Index == v {
				return "used as a map key at " + w.pos(instrPos(x))
			}
		case *ssa.MapUpdate:
			if isEdge && x.Key == v {
				return "used as a map key at " + w.pos(instrPos(x))
			}
		case *ssa.Call:
			if bi, ok := x.Call.Value.(*ssa.Builtin); ok {
				if bi.Name() == "append" || bi.Name() == "len" || bi.Name() == "cap" {
					continue
				}
			}
			cal := x.Call.StaticCallee()
			if cal == nil {
				continue
			}
			if cal.Pkg == nil || !inModule(cal.Pkg.Pkg.Path()) {
				// a generic helper of the standard library over the list or the edge: whole-value equality
				name := cal.Name()
				if cal.Origin() != nil {
					name = cal.Origin().Name()
				}
				pkg := ""
				if cal.Origin() != nil && cal.Origin().Pkg != nil {
					pkg = cal.Origin().Pkg.Pkg.Path()
				} else if cal.Pkg != nil {
					pkg = cal.Pkg.Pkg.Path()
				}
				if pkg == "slices" || pkg == "maps" || pkg == "reflect" {
					// edge against edge (the needle is itself appended to a list of the table) is the
					// "add unless already there" idiom and compares like with like
					allEdges := true
					for _, a := range x.Call.Args {
						if a != v && types.Identical(a.Type(), s) && !appendedAsEdge(a) {
							allEdges = false
						}
					}
					if allEdges && !isEdge {
						continue
					}
					return "handed to " + pkg + "." + name + " at " + w.pos(instrPos(x)) + ", which compares whole values"
				}
				continue
			}
			// module callee: follow the parameter
			for ai, a := range x.Call.Args {
				if a == v && ai < len(cal.Params) && depth < 3 {
					if why := edgeWholeUse(w, cal.Params[ai], s, g, depth+1, seen); why != "" {
						return why
					}
				}
			}
		}
	}
	return ""
}

// appendedAsEdge: the value (or the variable it is loaded from) is also an element of an
// append call in the same function, i.e. it is about to become an edge itself.
func appendedAsEdge(v ssa.Value) bool {
	cands := []ssa.Value{v}
	if ld, ok := v.(*ssa.UnOp); ok {
		if al, ok := ld.X.(*ssa.Alloc); ok {
			for _, r := range *al.Referrers() {
				if l2, ok := r.(*ssa.UnOp); ok {
					cands = append(cands, l2)
				}
			}
		}
	}
	for _, c := range cands {
		if c.Referrers() == nil {
			continue
		}
		for _, r := range *c.Referrers() {
			st, ok := r.(*ssa.Store)
			if !ok || st.Val != c {
				continue
			}
			ia, ok := st.Addr.(*ssa.IndexAddr)
			if !ok {
				continue
			}
			arr, ok := ia.X.(*ssa.Alloc)
			if !ok {
				continue
			}
			for _, r2 := range *arr.Referrers() {
				if sl, ok := r2.(*ssa.Slice); ok {
					for _, r3 := range *sl.Referrers() {
						if call, ok := r3.(*ssa.Call); ok {
							if bi, ok := call.Call.Value.(*ssa.Builtin); ok && bi.Name() == "append" {
								return true
							}
						}
					}
				}
			}
		}
	}
	return false
}
