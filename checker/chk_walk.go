package main

import (
	"fmt"
	"go/ast"
	"go/token"

	"golang.org/x/tools/go/ssa"
)

// CHK-walk (C07) — a defaulted parameter never ends the walk over the declared parameters.
//
// The argument binder walks the declared parameters in a loop; a parameter for which no
// argument is left is skipped when it has a default (`HasDefault()`), and reported as
// `too few arguments` when it has none. If the has-default side of such a test can no longer
// reach the loop header, the walk stops at the first optional parameter and every required
// parameter declared after it goes unchecked — calls with too few arguments are silently
// accepted. Rule: inside a loop of the method evaluator, from the has-default edge of every
// direct test of `(*base.T).HasDefault()` the loop header is reachable without leaving the
// loop. (What the clause does not cover: whether the parameter is advanced on that path.)
func chkWalk(w *World, r *EngineResult, isChecker func(*ssa.Function) bool) {
	iv := newIvCtx(w)
	var hasDefault *ssa.Function
	for _, fn := range w.Funcs {
		if pkgShort(fn) == "base" && fn.Name() == "HasDefault" && fn.Signature.Recv() != nil && isPtrToNamed(fn.Signature.Recv().Type(), modulePath+"/base", "T") {
			hasDefault = fn
		}
	}
	if hasDefault == nil {
		r.undecided("CHK-walk", "base", "default predicate", "unresolved anchor: (*base.T).HasDefault", "-")
		return
	}
	n := 0
	for _, fn := range w.Funcs {
		if pkgShort(fn) != "eval/method_evaluator" || !isChecker(fn) {
			continue // only the declaration checks walk the parameters to report misuse
		}
		loops := findLoops(fn)
		if len(loops) == 0 {
			continue
		}
		ord := 0
		for _, b := range fn.Blocks {
			for _, ins := range b.Instrs {
				c, ok := ins.(*ssa.Call)
				if !ok || c.Call.StaticCallee() != hasDefault {
					continue
				}
				// innermost loop containing the call. An arm that always leaves the loop is not
				// part of the natural loop, so the loop is found through the source: the
				// innermost for statement around the call, and the largest natural loop whose
				// blocks all lie inside that statement.
				var l *natLoop
				for _, cand := range loops {
					if cand.body[b] && (l == nil || len(cand.body) < len(l.body)) {
						l = cand
					}
				}
				if l == nil {
					if lo, hi := enclosingFor(fn, c.Pos()); lo.IsValid() {
						for _, cand := range loops {
							inside := true
							for bb := range cand.body {
								for _, i2 := range bb.Instrs {
									if _, isPhi := i2.(*ssa.Phi); isPhi {
										continue // a phi carries the position of the variable's declaration
									}
									if p := i2.Pos(); p.IsValid() && (p < lo || p > hi) {
										inside = false
									}
								}
							}
							if inside && (l == nil || len(cand.body) > len(l.body)) {
								l = cand
							}
						}
					}
				}
				if l == nil || c.Referrers() == nil {
					continue
				}
				// the branch that tests the result directly: c, !c, c == true/false
				for _, ref := range *c.Referrers() {
					var iff *ssa.If
					pos := true // true edge = has a default
					switch x := ref.(type) {
					case *ssa.If:
						iff = x
					case *ssa.UnOp:
						if x.Op == token.NOT && x.Referrers() != nil {
							for _, r2 := range *x.Referrers() {
								if i2, ok := r2.(*ssa.If); ok {
									iff, pos = i2, false
								}
							}
						}
					case *ssa.BinOp:
						if k, ok := x.Y.(*ssa.Const); ok && (x.Op == token.EQL || x.Op == token.NEQ) && x.Referrers() != nil {
							if cv := constVal(k); cv.k == kBool {
								for _, r2 := range *x.Referrers() {
									if i2, ok := r2.(*ssa.If); ok {
										iff = i2
										pos = (x.Op == token.EQL) == cv.b
									}
								}
							}
						}
					}
					if iff == nil {
						continue
					}
					n++
					ord++
					construct := fmt.Sprintf("has-default side of the test #%d", ord)
					side := iff.Block().Succs[0]
					if !pos {
						side = iff.Block().Succs[1]
					}
					// reach the header inside the loop on a path whose branch conditions
					// (integer comparisons, summaries of boolean helpers, phi values of the edge
					// taken) are consistent as difference constraints: `if len(a) <= i { i++ }`
					// followed by `if len(a) <= i { break }` does leave the loop
					start := iv.domCons(iff.Block(), nil)
					budget := 40000
					var reachF func(x, pred *ssa.BasicBlock, cons []ivCons, onPath map[*ssa.BasicBlock]bool) bool
					reachF = func(x, pred *ssa.BasicBlock, cons []ivCons, onPath map[*ssa.BasicBlock]bool) bool {
						if budget <= 0 {
							return true // not decided: no alarm
						}
						budget--
						if x == l.head {
							return true
						}
						if !l.body[x] || onPath[x] {
							return false
						}
						for _, pi := range x.Instrs {
							ph, ok := pi.(*ssa.Phi)
							if !ok {
								break
							}
							if !isIntType(ph.Type()) {
								continue
							}
							for ei, p := range x.Preds {
								if p == pred {
									a, b := iv.term(ph, nil, 0), iv.term(ph.Edges[ei], nil, 0)
									cons = append(cons[:len(cons):len(cons)], ivCons{x: a.node, y: b.node, c: b.off - a.off}, ivCons{x: b.node, y: a.node, c: a.off - b.off})
								}
							}
						}
						if !ivSatisfiable(cons) {
							return false
						}
						onPath[x] = true
						defer delete(onPath, x)
						if i2, ok := x.Instrs[len(x.Instrs)-1].(*ssa.If); ok && len(x.Succs) == 2 {
							ct := append(cons[:len(cons):len(cons)], iv.condCons(i2.Cond, true, nil, 0)...)
							if reachF(x.Succs[0], x, ct, onPath) {
								return true
							}
							cf := append(cons[:len(cons):len(cons)], iv.condCons(i2.Cond, false, nil, 0)...)
							return reachF(x.Succs[1], x, cf, onPath)
						}
						for _, s2 := range x.Succs {
							if reachF(s2, x, cons, onPath) {
								return true
							}
						}
						return false
					}
					reach := func(x *ssa.BasicBlock) bool {
						return reachF(x, iff.Block(), start, map[*ssa.BasicBlock]bool{})
					}
					if reach(side) {
						r.holds("CHK-walk", fnKey(fn), construct, "the walk over the declared parameters can go on after a parameter that has a default", w.pos(instrPos(c)))
					} else {
						r.violated("CHK-walk", fnKey(fn), construct, "when the parameter has a default the walk over the declared parameters is left for good: required parameters declared after the first optional one are never checked, and a call with too few arguments is accepted without a diagnostic", w.pos(instrPos(c)))
					}
				}
			}
		}
	}
	r.Stats["default_tests_in_parameter_walks"] = n
	r.floor("default_tests_in_parameter_walks", 1)
}


// enclosingFor: source range of the innermost for / range statement of fn around pos.
func enclosingFor(fn *ssa.Function, pos token.Pos) (lo, hi token.Pos) {
	top := fn
	for top.Parent() != nil {
		top = top.Parent()
	}
	syn := top.Syntax()
	if syn == nil {
		return token.NoPos, token.NoPos
	}
	ast.Inspect(syn, func(n ast.Node) bool {
		switch x := n.(type) {
		case *ast.ForStmt, *ast.RangeStmt:
			if x.Pos() <= pos && pos <= x.End() {
				lo, hi = x.Pos(), x.End() // inner statements overwrite outer ones
			}
		}
		return true
	})
	return
}
