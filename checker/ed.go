package main

// ED — a diagnostic, once produced, reaches the report.

import (
	"fmt"
	"go/types"
	"sort"
	"strings"

	"golang.org/x/tools/go/ssa"
)

var errorType = types.Universe.Lookup("error").Type()

func errorResultIndex(sig *types.Signature) int {
	for i := 0; i < sig.Results().Len(); i++ {
		if types.Identical(sig.Results().At(i).Type(), errorType) {
			return i
		}
	}
	return -1
}

// edReviewed: discarded diagnostics that were read and accepted (one construct each).
var edReviewed = map[string]string{
	"ED-2|eval/method_evaluator.(*classMethodStrategy).evaluate|error result of errorResolve":    "recovery scan after a primary diagnostic: the primary error (undefined method/class) is returned two statements later; a second error from skipping the rest of the line would be noise",
	"ED-2|eval/method_evaluator.(*instanceMethodStrategy).evaluate|error result of errorResolve": "recovery scan after a primary diagnostic: the primary error is returned two statements later",
	"ED-2|eval/method_evaluator.(*topLevelMethodStrategy).evaluate|error result of errorResolve": "recovery scan after a primary diagnostic: the primary error is returned two statements later",
	"ED-2|eval/method_evaluator.(*unionInstanceStrategy).evaluate|error result of errorResolve":  "recovery scan after a primary diagnostic: the primary error is returned two statements later",
	"ED-2|eval.(*Def).getChainMethodReturnType|error result of Eval":                              "speculative re-evaluation of the method's last identifier to resolve its return type; its diagnostics duplicate those reported when the body itself was analysed",
	"ED-2|eval.(*Bind).handleScalarAsigntment|error result of Eval":                               "dead arm: EvalExpr consumes every `[` that follows the right-hand side (explicit `continue` on `[`), so the token read here is never `[`",
	"ED-2|eval.(*Bind).handleMultipleToScalarAsigntment|error result of handleMultipleToMultipleAsigntment": "the only diagnostic this callee produces is `… is read only` for a multiple assignment whose right side is a union; it is lost (observed: `self.a, b = x` with x a union reports nothing) but lies outside C07's statement (misuse of configured builtin methods) — recorded in DESIGN.md as a defect outside the listed properties",
	"ED-2|eval.(*Bind).handleMultipleToScalarAsigntment|error result of handleMultipleToScalarAsigntment":   "same as the neighbouring call: only `… is read only` can be lost here, outside C07's statement",
}

func engineED(w *World, tier string) *EngineResult {
	r := newResult("ED", "(ED-1) the only append to Parser.Errors is in the recording method, under the reporting-round test, and nothing else stores to the field except the per-round reset; (ED-2) at every call whose callee may return a diagnostic (an error built by fmt.Errorf/errors.New in eval or eval/method_evaluator, transitively over return statements and the VTA call graph) the error result is used — a call statement, `_`, or a value that is never read drops the diagnostic; callees that can only return nil or lexical errors of package parser are exempt; (ED-3) the text recorded in Parser.Errors passes a line-break neutraliser, because messages embed raw source text")
	pp := w.Pkg("parser")
	if pp == nil {
		r.undecided("ED", "parser", "anchors", "unresolved anchor: package parser", "-")
		r.finish()
		return r
	}
	// the Errors field: field of Parser of type []error
	var errField *types.Var
	fieldIdx := -1
	if st, ok := lookupObj(pp, "Parser").Type().Underlying().(*types.Struct); ok {
		for i := 0; i < st.NumFields(); i++ {
			if sl, ok := st.Field(i).Type().Underlying().(*types.Slice); ok && types.Identical(sl.Elem(), errorType) {
				errField, fieldIdx = st.Field(i), i
			}
		}
	}
	if errField == nil {
		r.undecided("ED-1", "parser", "Errors field", "unresolved anchor: []error field of Parser", "-")
		r.finish()
		return r
	}
	// ED-1: writers of the field
	nWriters := 0
	var recorder *ssa.Function
	for _, fn := range w.Funcs {
		for _, b := range fn.Blocks {
			for _, ins := range b.Instrs {
				st, ok := ins.(*ssa.Store)
				if !ok {
					continue
				}
				fa, ok := st.Addr.(*ssa.FieldAddr)
				if !ok || fa.Field != fieldIdx || !isNamed(fa.X.Type(), modulePath+"/parser", "Parser") {
					continue
				}
				nWriters++
				pos := w.pos(instrPos(st))
				// append(field, x) ?
				isAppend := false
				if call, ok := st.Val.(*ssa.Call); ok {
					if bi, ok := call.Call.Value.(*ssa.Builtin); ok && bi.Name() == "append" {
						isAppend = true
					}
				}
				if isAppend {
					if fn.Signature.Recv() != nil && isPtrToNamed(fn.Signature.Recv().Type(), modulePath+"/parser", "Parser") && pkgShort(fn) == "parser" {
						recorder = fn
						// dominated by a call on the Context parameter being true
						guarded := false
						for cur := st.Block(); cur != nil; cur = cur.Idom() {
							d := cur.Idom()
							if d == nil {
								break
							}
							iff, ok := d.Instrs[len(d.Instrs)-1].(*ssa.If)
							if !ok || len(cur.Preds) != 1 || d.Succs[0] != cur {
								continue
							}
							if call, ok := iff.Cond.(*ssa.Call); ok && call.Call.StaticCallee() != nil && pkgShort(call.Call.StaticCallee()) == "context" {
								guarded = true
							}
						}
						if guarded {
							r.holds("ED-1", fnKey(fn), "append to "+errField.Name(), "the single recording site, under the reporting-round test", pos)
						} else {
							r.violated("ED-1", fnKey(fn), "append to "+errField.Name(), "diagnostics are recorded without the reporting-round test: every round would report, or none", pos)
						}
					} else {
						r.violated("ED-1", fnKey(fn), "append to "+errField.Name(), "a second writer appends to the diagnostics list outside the recording method: its entries bypass the file:::row:::message format and the round test", pos)
					}
					continue
				}
				// plain store: only the per-round reset (empty slice literal) in package main
				if pkgShort(fn) == "main" {
					r.holds("ED-1", fnKey(fn), "reset of "+errField.Name(), "per-round reset before evaluation", pos)
				} else {
					r.violated("ED-1", fnKey(fn), "store to "+errField.Name(), "the diagnostics list is overwritten outside the per-round reset: recorded diagnostics can be lost", pos)
				}
			}
		}
	}
	r.Stats["errors_field_writers"] = nWriters
	r.floor("errors_field_writers", 2)

	// ED-3: the recorder must neutralise line breaks
	if recorder == nil {
		r.undecided("ED-3", "parser", "recording method", "unresolved anchor: method of Parser that appends to the diagnostics list", "-")
	} else {
		san := false
		for _, b := range recorder.Blocks {
			for _, ins := range b.Instrs {
				if call, ok := ins.(*ssa.Call); ok {
					if cal := call.Call.StaticCallee(); cal != nil && cal.Pkg != nil && cal.Pkg.Pkg.Path() == "strings" {
						for _, a := range call.Call.Args {
							if k, ok := a.(*ssa.Const); ok {
								if cv := constVal(k); cv.k == kStr && strings.Contains(cv.s, "\n") {
									san = true
								}
							}
						}
					}
				}
			}
		}
		if san {
			r.holds("ED-3", fnKey(recorder), "line breaks neutralised", "the recorded text passes a strings replacement of \"\\n\"", w.pos(recorder.Pos()))
		} else {
			r.violated("ED-3", fnKey(recorder), "line breaks neutralised", "messages embed raw source text (string literals, identifiers) and are recorded verbatim: a literal containing a newline produces an output line without the file:::row::: prefix", w.pos(recorder.Pos()))
		}
	}

	// ED-2: diagnostic sources
	cg := w.CallGraph()
	diag := map[*ssa.Function]bool{}
	lexical := map[*ssa.Function]bool{} // may return an error built in package parser/lexer
	isCtor := func(cal *ssa.Function) bool {
		if cal == nil || cal.Pkg == nil {
			return false
		}
		s := cal.String()
		return s == "fmt.Errorf" || s == "errors.New"
	}
	calleesOf := func(site ssa.CallInstruction, in *ssa.Function) []*ssa.Function {
		if cal := site.Common().StaticCallee(); cal != nil {
			return []*ssa.Function{cal}
		}
		var out []*ssa.Function
		if n := cg.Nodes[in]; n != nil {
			for _, e := range n.Out {
				if e.Site == site {
					out = append(out, e.Callee.Func)
				}
			}
		}
		return out
	}
	var errFns []*ssa.Function
	for _, fn := range w.Funcs {
		if errorResultIndex(fn.Signature) >= 0 {
			errFns = append(errFns, fn)
		}
	}
	var derives func(v ssa.Value, fn *ssa.Function, seen map[ssa.Value]bool) (d, l bool)
	derives = func(v ssa.Value, fn *ssa.Function, seen map[ssa.Value]bool) (d, l bool) {
		if seen[v] {
			return
		}
		seen[v] = true
		switch x := v.(type) {
		case *ssa.Call:
			for _, cal := range calleesOf(x, fn) {
				if isCtor(cal) {
					switch pkgShort(fn) {
					case "parser", "lexer", "lexer/reader":
						l = true
					default:
						d = true
					}
				}
				if diag[cal] {
					d = true
				}
				if lexical[cal] {
					l = true
				}
			}
		case *ssa.Extract:
			return derives(x.Tuple, fn, seen)
		case *ssa.Phi:
			for _, e := range x.Edges {
				d2, l2 := derives(e, fn, seen)
				d, l = d || d2, l || l2
			}
		case *ssa.UnOp:
			// load of a spilled named result: look at the stores into the cell
			if al, ok := x.X.(*ssa.Alloc); ok {
				for _, ref := range *al.Referrers() {
					if st, ok := ref.(*ssa.Store); ok && st.Addr == ssa.Value(al) {
						d2, l2 := derives(st.Val, fn, seen)
						d, l = d || d2, l || l2
					}
				}
			}
		case *ssa.MakeInterface:
			return derives(x.X, fn, seen)
		case *ssa.ChangeInterface:
			return derives(x.X, fn, seen)
		}
		return
	}
	for changed := true; changed; {
		changed = false
		for _, fn := range errFns {
			ei := errorResultIndex(fn.Signature)
			for _, b := range fn.Blocks {
				ret, ok := b.Instrs[len(b.Instrs)-1].(*ssa.Return)
				if !ok || ei >= len(ret.Results) {
					continue
				}
				d, l := derives(ret.Results[ei], fn, map[ssa.Value]bool{})
				if d && !diag[fn] {
					diag[fn] = true
					changed = true
				}
				if l && !lexical[fn] {
					lexical[fn] = true
					changed = true
				}
			}
		}
	}
	nSites, nDiagSites := 0, 0
	for _, fn := range w.Funcs {
		ps := pkgShort(fn)
		if ps == "cmd/rbs2json" || ps == "cmd/c2json" {
			continue
		}
		ord := map[string]int{}
		for _, b := range fn.Blocks {
			for _, ins := range b.Instrs {
				site, ok := ins.(ssa.CallInstruction)
				if !ok {
					continue
				}
				sig := site.Common().Signature()
				ei := errorResultIndex(sig)
				if ei < 0 {
					continue
				}
				nSites++
				var dcal []string
				for _, cal := range calleesOf(site, fn) {
					if diag[cal] {
						dcal = append(dcal, fnKey(cal))
					}
				}
				if len(dcal) == 0 {
					continue
				}
				nDiagSites++
				sort.Strings(dcal)
				name := site.Common().Method
				cname := ""
				if name != nil {
					cname = name.Name()
				} else if cal := site.Common().StaticCallee(); cal != nil {
					cname = cal.Name()
				}
				construct := "error result of " + cname
				ord[construct]++
				if ord[construct] > 1 {
					construct = fmt.Sprintf("%s#%d", construct, ord[construct])
				}
				pos := w.pos(site.Pos())
				used := false
				switch c := ins.(type) {
				case *ssa.Call:
					if sig.Results().Len() == 1 {
						used = c.Referrers() != nil && len(*c.Referrers()) > 0
					} else {
						for _, ref := range *c.Referrers() {
							if ex, ok := ref.(*ssa.Extract); ok && ex.Index == ei && ex.Referrers() != nil && len(*ex.Referrers()) > 0 {
								used = true
							}
						}
					}
				case *ssa.Defer, *ssa.Go:
					used = false
				}
				if used {
					r.holds("ED-2", fnKey(fn), construct, "the error result is read (returned, recorded or tested)", pos)
					continue
				}
				key := "ED-2|" + fnKey(fn) + "|" + construct
				if why, ok := edReviewed[key]; ok {
					r.Reviewed[key] = why
					r.add(Obligation{Rule: "ED-2", Func: fnKey(fn), Construct: construct, Verdict: Holds, Detail: "reviewed exception", Pos: pos, Reviewed: why})
					continue
				}
				r.violated("ED-2", fnKey(fn), construct, "the error result of a call that can produce a diagnostic ("+strings.Join(dcal, ",")+") is never read: a type error found there is silently lost", pos)
			}
		}
	}
	r.Stats["calls_returning_error"] = nSites
	r.Stats["calls_that_may_return_a_diagnostic"] = nDiagSites
	r.Stats["diagnostic_source_functions"] = len(diag)
	r.floor("calls_that_may_return_a_diagnostic", 150)
	for k := range edReviewed {
		if _, used := r.Reviewed[k]; !used {
			r.Notes = append(r.Notes, "reviewed entry without a matching site (stale): "+k)
		}
	}
	r.finish()
	return r
}
