package main

// AL — equivalent type notations of the configuration denote the same value (C21, narrow).

import (
	"golang.org/x/tools/go/packages"
	"go/token"
	"fmt"
	"go/ast"
	"go/constant"
	"go/types"
	"sort"
	"strings"

	"golang.org/x/tools/go/ssa"
)

func init() { engines["AL"] = engineAL }

// normal form of a straight-line factory: constructor constants + constant field stores.
type factoryNF struct {
	ctorArgs []string
	stores   map[string]string
	ok       bool
	why      string
}

func (n factoryNF) String() string {
	var ks []string
	for k, v := range n.stores {
		ks = append(ks, k+"="+v)
	}
	sort.Strings(ks)
	return "(" + strings.Join(n.ctorArgs, ",") + ")" + "{" + strings.Join(ks, ",") + "}"
}

func factoryNormalForm(fn *ssa.Function) factoryNF {
	nf := factoryNF{stores: map[string]string{}}
	if fn == nil || len(fn.Blocks) != 1 {
		nf.why = "not a single-block function"
		return nf
	}
	var obj ssa.Value
	for _, ins := range fn.Blocks[0].Instrs {
		switch x := ins.(type) {
		case *ssa.Call:
			cal := x.Call.StaticCallee()
			if cal == nil {
				nf.why = "dynamic call"
				return nf
			}
			// decorator: f(obj) stores constants into fields of its parameter and returns it
			if obj != nil && isTPtr(x.Type()) && len(x.Call.Args) == 1 && x.Call.Args[0] == obj {
				dec, ok := decoratorStores(cal)
				if !ok {
					nf.why = "the constructed value is handed to " + cal.Name() + ", which is not a plain flag setter"
					return nf
				}
				for k, v := range dec {
					nf.stores[k] = v
				}
				obj = x
				continue
			}
			if obj == nil && isTPtr(x.Type()) {
				// inner constructor: either NewT-like with constant args or another factory
				allConst := true
				var args []string
				for _, a := range x.Call.Args {
					if mi, isMI := a.(*ssa.MakeInterface); isMI {
						a = mi.X
					}
					k, ok := a.(*ssa.Const)
					if !ok {
						allConst = false
						break
					}
					if k.Value == nil {
						args = append(args, "nil")
					} else {
						args = append(args, k.Value.ExactString())
					}
				}
				if allConst && len(x.Call.Args) > 0 {
					nf.ctorArgs = args
				} else if len(x.Call.Args) == 0 {
					inner := factoryNormalForm(cal)
					if !inner.ok {
						nf.why = "inner factory " + cal.Name() + ": " + inner.why
						return nf
					}
					nf.ctorArgs = inner.ctorArgs
					for k, v := range inner.stores {
						nf.stores[k] = v
					}
				} else {
					nf.why = "constructor call with non-constant arguments"
					return nf
				}
				obj = x
			}
		case *ssa.Store:
			fa, ok := x.Addr.(*ssa.FieldAddr)
			if !ok || fa.X != obj {
				nf.why = "store that is not a field of the constructed value"
				return nf
			}
			k, ok := x.Val.(*ssa.Const)
			if !ok {
				nf.why = "non-constant field store"
				return nf
			}
			v := "nil"
			if k.Value != nil {
				v = k.Value.ExactString()
			}
			nf.stores[fieldNameOf(fa)] = v
		case *ssa.Return:
			if len(x.Results) != 1 || x.Results[0] != obj {
				nf.why = "does not return the constructed value"
				return nf
			}
			nf.ok = true
			return nf
		case *ssa.FieldAddr, *ssa.DebugRef, *ssa.MakeInterface:
		default:
			nf.why = fmt.Sprintf("instruction %T", ins)
			return nf
		}
	}
	nf.why = "no return"
	return nf
}

// decoratorStores: fn has one *T parameter, a single block, only constant stores into fields
// of that parameter, and returns the parameter.
func decoratorStores(fn *ssa.Function) (map[string]string, bool) {
	if fn == nil || len(fn.Blocks) != 1 || len(fn.Params) != 1 || !isTPtr(fn.Params[0].Type()) {
		return nil, false
	}
	out := map[string]string{}
	for _, ins := range fn.Blocks[0].Instrs {
		switch x := ins.(type) {
		case *ssa.Store:
			fa, ok := x.Addr.(*ssa.FieldAddr)
			if !ok || fa.X != ssa.Value(fn.Params[0]) {
				return nil, false
			}
			k, ok := x.Val.(*ssa.Const)
			if !ok {
				return nil, false
			}
			v := "nil"
			if k.Value != nil {
				v = k.Value.ExactString()
			}
			out[fieldNameOf(fa)] = v
		case *ssa.Return:
			return out, len(x.Results) == 1 && x.Results[0] == ssa.Value(fn.Params[0])
		case *ssa.FieldAddr, *ssa.DebugRef:
		default:
			return nil, false
		}
	}
	return nil, false
}

func engineAL(w *World, tier string) *EngineResult {
	r := newResult("AL", "alias rows of the configuration's type vocabulary: (AL-label) two labels the documentation calls synonyms return the same table value; (AL-optional) OptionalX is built by the same union constructor, from the value of X and the nil value, as the `?X` notation; (AL-default) the factory of DefaultX has the constructor normal form of the factory of X plus exactly the flags the loader sets for an argument marked is_default; (AL-flags) in the argument parser the `?` and `*` notations reach the same flag stores as is_default / is_asterisk; (AL-union) `A|B` and [\"A\",\"B\"] go through the same union constructor over the same element parser")
	bp := w.Pkg("builtin")
	if bp == nil {
		r.undecided("AL", "builtin", "anchors", "unresolved anchor: package builtin", "-")
		r.finish()
		return r
	}
	info := bp.TypesInfo
	// label -> returned global (identifier) in the type-name switch
	labelRet := map[string]types.Object{}
	var convFn *ast.FuncDecl
	for _, f := range bp.Syntax {
		for _, d := range f.Decls {
			fd, ok := d.(*ast.FuncDecl)
			if !ok || fd.Body == nil {
				continue
			}
			ast.Inspect(fd.Body, func(n ast.Node) bool {
				sw, ok := n.(*ast.SwitchStmt)
				if !ok || sw.Tag == nil || len(sw.Body.List) < 20 {
					return true
				}
				convFn = fd
				for _, c := range sw.Body.List {
					cc := c.(*ast.CaseClause)
					if len(cc.Body) != 1 {
						continue
					}
					ret, ok := cc.Body[0].(*ast.ReturnStmt)
					if !ok || len(ret.Results) != 1 {
						continue
					}
					id, ok := ret.Results[0].(*ast.Ident)
					if !ok {
						continue
					}
					for _, e := range cc.List {
						if tv := info.Types[e]; tv.Value != nil && tv.Value.Kind() == constant.String {
							labelRet[constant.StringVal(tv.Value)] = info.ObjectOf(id)
						}
					}
				}
				return true
			})
		}
	}
	if convFn == nil {
		// the same vocabulary as a table: package-level map[string]*T (or T) literal with ≥20
		// entries, read by a function of the package
		tab, fn := typeNameTableLiteral(bp)
		if fn != nil {
			convFn = fn
			for k, v := range tab {
				labelRet[k] = v
			}
		}
	}
	if convFn == nil {
		r.undecided("AL", "builtin", "type-name switch", "unresolved anchor: switch over the type name with ≥20 cases", "-")
		r.finish()
		return r
	}
	fk := "builtin." + convFn.Name.Name
	// initialisers of the table values: global -> init expression
	initOf := map[types.Object]ast.Expr{}
	for _, f := range bp.Syntax {
		for _, d := range f.Decls {
			gd, ok := d.(*ast.GenDecl)
			if !ok {
				continue
			}
			for _, sp := range gd.Specs {
				vs, ok := sp.(*ast.ValueSpec)
				if !ok {
					continue
				}
				for i, nm := range vs.Names {
					if i < len(vs.Values) {
						initOf[info.ObjectOf(nm)] = vs.Values[i]
					}
				}
			}
		}
	}
	factoryOfGlobal := func(g types.Object) (*ssa.Function, *ast.CallExpr) {
		e := initOf[g]
		if st, ok := e.(*ast.StarExpr); ok {
			e = st.X
		}
		call, ok := e.(*ast.CallExpr)
		if !ok {
			return nil, nil
		}
		var fobj types.Object
		switch fx := call.Fun.(type) {
		case *ast.SelectorExpr:
			fobj = info.ObjectOf(fx.Sel)
		case *ast.Ident:
			fobj = info.ObjectOf(fx)
		}
		return w.fnOfObj(fobj), call
	}
	// AL-label: Int / Integer
	n := 0
	for _, pr := range [][2]string{{"Int", "Integer"}} {
		n++
		a, b := labelRet[pr[0]], labelRet[pr[1]]
		construct := fmt.Sprintf("labels %q and %q", pr[0], pr[1])
		if a != nil && a == b {
			r.holds("AL-label", fk, construct, "both labels return the table value "+a.Name(), w.pos(convFn.Pos()))
		} else {
			r.violated("AL-label", fk, construct, "the two labels, documented as synonyms, do not return the same table value", w.pos(convFn.Pos()))
		}
	}
	// the nil value of the table
	nilG := labelRet["NilClass"]
	// AL-optional / AL-default over every label with the prefix
	var labels []string
	for l := range labelRet {
		labels = append(labels, l)
	}
	sort.Strings(labels)
	// union constructor used by the `?` notation: in the notation parser, the arm guarded by '?'
	var optCtor types.Object
	var notationFn *ast.FuncDecl
	for _, f := range bp.Syntax {
		for _, d := range f.Decls {
			fd, ok := d.(*ast.FuncDecl)
			if !ok || fd.Body == nil || fd == convFn {
				continue
			}
			// the recursive string parser: calls itself and the type-name switch
			callsSelf, callsConv := false, false
			ast.Inspect(fd.Body, func(nd ast.Node) bool {
				if c, ok := nd.(*ast.CallExpr); ok {
					if id, ok := c.Fun.(*ast.Ident); ok {
						if info.ObjectOf(id) == info.ObjectOf(fd.Name) {
							callsSelf = true
						}
						if info.ObjectOf(id) == info.ObjectOf(convFn.Name) {
							callsConv = true
						}
					}
				}
				return true
			})
			if callsSelf && callsConv {
				notationFn = fd
			}
		}
	}
	// the union constructors of the `?` and `|` arms of the notation parser, found in the SSA
	// form: the calls of a union constructor of base in the blocks that the true edge of the
	// arm's test dominates (the test may be an if, a case of a tagless switch, or one conjunct
	// of a && chain)
	unionCalls := map[string]types.Object{} // arm ('?' / '|') -> union constructor
	if notationFn != nil {
		if nfn := w.fnOfObj(info.ObjectOf(notationFn.Name)); nfn != nil {
			for arm, pred := range map[string]func(ssa.Value) bool{"?": isRuneTest('?'), "|": isContainsTest("|")} {
				for _, b := range armBlocks(nfn, pred) {
					for _, ins := range b.Instrs {
						c, ok := ins.(*ssa.Call)
						if !ok {
							continue
						}
						cal := c.Call.StaticCallee()
						if cal == nil || pkgShort(cal) != "base" || !strings.Contains(cal.Name(), "Union") || cal.Object() == nil {
							continue
						}
						unionCalls[arm] = cal.Object()
						if arm == "?" {
							optCtor = cal.Object()
							// the literal handed over has two elements and the second is the nil
							// table value
							if len(c.Call.Args) == 1 {
								els := sliceLiteralElems(c.Call.Args[0])
								if len(els) != 2 || !isLoadOfGlobalObj(els[1], nilG) {
									optCtor = nil
								}
							}
						}
					}
				}
			}
		}
	}
	for _, l := range labels {
		if strings.HasPrefix(l, "Optional") && l != "OptionalUnify" {
			n++
			base := strings.TrimPrefix(l, "Optional")
			g := labelRet[l]
			construct := fmt.Sprintf("%s ≡ ?%s", l, base)
			_, call := factoryOfGlobal(g)
			okv := false
			why := "initialiser not recognised"
			if call != nil && optCtor != nil {
				var cobj types.Object
				if sel, ok := call.Fun.(*ast.SelectorExpr); ok {
					cobj = info.ObjectOf(sel.Sel)
				}
				if cobj == optCtor && len(call.Args) == 1 {
					if cl, ok := call.Args[0].(*ast.CompositeLit); ok && len(cl.Elts) == 2 {
						e0, ok0 := cl.Elts[0].(*ast.Ident)
						e1, ok1 := cl.Elts[1].(*ast.Ident)
						if ok0 && ok1 && info.ObjectOf(e0) == labelRet[base] && info.ObjectOf(e1) == nilG {
							okv = true
							why = "built by " + cobj.Name() + " from the table values of " + base + " and NilClass, exactly as the `?` arm of the notation parser does"
						} else {
							why = "the union elements are not (value of " + base + ", value of NilClass)"
						}
					}
				} else {
					why = "not built by the union constructor the `?` notation uses"
				}
			}
			if okv {
				r.holds("AL-optional", fk, construct, why, w.pos(convFn.Pos()))
			} else {
				r.violated("AL-optional", fk, construct, "the named type and the `?` notation can denote different values: "+why, w.pos(convFn.Pos()))
			}
		}
		if strings.HasPrefix(l, "Default") {
			n++
			base := strings.TrimPrefix(l, "Default")
			if base == "Int" && labelRet["Int"] == nil {
				base = "Integer"
			}
			construct := fmt.Sprintf("%s ≡ %s + is_default", l, base)
			fd, _ := factoryOfGlobal(labelRet[l])
			fb, _ := factoryOfGlobal(labelRet[base])
			if fd == nil || fb == nil {
				r.undecided("AL-default", fk, construct, "factory of one of the two table values not resolved", w.pos(convFn.Pos()))
				continue
			}
			nd, nb := factoryNormalForm(fd), factoryNormalForm(fb)
			if !nd.ok || !nb.ok {
				r.undecided("AL-default", fk, construct, "factory is not straight-line: "+nd.why+" / "+nb.why, w.pos(convFn.Pos()))
				continue
			}
			want := map[string]string{}
			for k, v := range nb.stores {
				want[k] = v
			}
			want["hasDefault"] = "true"
			want["isBuiltin"] = "true"
			same := strings.Join(nd.ctorArgs, ",") == strings.Join(nb.ctorArgs, ",") && len(nd.stores) == len(want)
			for k, v := range want {
				if nd.stores[k] != v {
					same = false
				}
			}
			if same {
				r.holds("AL-default", fk, construct, "normal forms: "+nb.String()+" + {hasDefault,isBuiltin} = "+nd.String(), w.pos(convFn.Pos()))
			} else {
				r.violated("AL-default", fk, construct, "the factory of "+l+" builds "+nd.String()+" but "+base+" with is_default is "+nb.String()+"+{hasDefault=true,isBuiltin=true}", w.pos(convFn.Pos()))
			}
		}
	}
	// AL-union: the '|' arm and the multi-element arms use the same union constructor
	if notationFn != nil {
		n++
		u := unionCalls["|"]
		others := map[types.Object]int{}
		nfnSSA := w.fnOfObj(info.ObjectOf(notationFn.Name))
		for _, fn := range w.Funcs {
			if pkgShort(fn) != "builtin" || fn == nfnSSA || fn.Synthetic != "" {
				continue
			}
			top := fn
			for top.Parent() != nil {
				top = top.Parent()
			}
			if top == nfnSSA || top.Synthetic != "" {
				continue
			}
			for _, b := range fn.Blocks {
				for _, ins := range b.Instrs {
					if c, ok := ins.(*ssa.Call); ok {
						if cal := c.Call.StaticCallee(); cal != nil && pkgShort(cal) == "base" && strings.Contains(cal.Name(), "Union") && cal.Object() != nil {
							others[cal.Object()]++
						}
					}
				}
			}
		}
		okv := u != nil && len(others) == 1 && others[u] > 0
		if okv {
			r.holds("AL-union", "builtin."+notationFn.Name.Name, "A|B ≡ [A, B]", "the `|` arm and the list arms of the loader all build unions with "+u.Name(), w.pos(notationFn.Pos()))
		} else {
			r.violated("AL-union", "builtin."+notationFn.Name.Name, "A|B ≡ [A, B]", "the compact and the list notation of a union go through different constructors", w.pos(notationFn.Pos()))
		}
	}
	// AL-flags: in the argument parser, the '?' arm calls the same default setter as the
	// is_default branch, and the '*' arm sets the field that feeds the asterisk flag
	var argFn *ssa.Function
	for _, fn := range w.Funcs {
		if pkgShort(fn) != "builtin" || fn.Parent() != nil {
			continue
		}
		if fn.Signature.Params().Len() == 1 && fn.Signature.Results().Len() == 1 && isTSliceVal(fn.Signature.Results().At(0).Type()) {
			if sl, ok := fn.Signature.Params().At(0).Type().Underlying().(*types.Slice); ok {
				// a list of argument declarations (structs), not a list of type strings
				if _, isStruct := sl.Elem().Underlying().(*types.Struct); isStruct {
					argFn = fn
				}
			}
		}
	}
	if argFn == nil {
		r.undecided("AL-flags", "builtin", "argument parser", "unresolved anchor: func([]MethodArgument) []T", "-")
	} else {
		// the argument parser and the functions of the loader it is split into (static calls,
		// two levels; the notation parser and the type-name table are not part of it)
		region := []*ssa.Function{argFn}
		{
			seen := map[*ssa.Function]bool{argFn: true}
			skip := map[*ssa.Function]bool{}
			if notationFn != nil {
				skip[w.fnOfObj(info.ObjectOf(notationFn.Name))] = true
			}
			skip[w.fnOfObj(info.ObjectOf(convFn.Name))] = true
			frontier := []*ssa.Function{argFn}
			for depth := 0; depth < 2; depth++ {
				var next []*ssa.Function
				for _, f := range frontier {
					for _, b := range f.Blocks {
						for _, ins := range b.Instrs {
							if c, ok := ins.(*ssa.Call); ok {
								if cal := c.Call.StaticCallee(); cal != nil && pkgShort(cal) == "builtin" && len(cal.Blocks) > 0 && !seen[cal] && !skip[cal] {
									seen[cal] = true
									region = append(region, cal)
									next = append(next, cal)
								}
							}
						}
					}
				}
				frontier = next
			}
		}
		// setter called under is_default: the call guarded by a load of the field tagged is_default
		setters := map[*ssa.Function][]string{} // setter -> guards ("is_default" / "'?'")
		asteriskStores := 0
		asteriskFromField := false
		starTest := isRuneTest('*')
		// functions of the region that answer "the `*` prefix was there" in a boolean result:
		// the constant true is returned only in the `*` arm
		starResult := map[*ssa.Function]map[int]bool{}
		for _, f := range region {
			inStar := map[*ssa.BasicBlock]bool{}
			for _, b := range armBlocks(f, starTest) {
				inStar[b] = true
			}
			for _, b := range f.Blocks {
				rt, ok := b.Instrs[len(b.Instrs)-1].(*ssa.Return)
				if !ok {
					continue
				}
				for ri, rv := range rt.Results {
					k, isC := rv.(*ssa.Const)
					if !isC || k.Value == nil || k.Value.Kind() != constant.Bool {
						continue
					}
					if starResult[f] == nil {
						starResult[f] = map[int]bool{}
					}
					if _, known := starResult[f][ri]; !known {
						starResult[f][ri] = true
					}
					if cBool(k.Value) != inStar[b] {
						starResult[f][ri] = false // true outside the arm, or false inside it
					}
				}
			}
		}
		// v is a boolean that is true exactly when a `*` arm was taken: the test itself, or
		// the result of a region function as classified above
		var starIndicator func(v ssa.Value) bool
		starIndicator = func(v ssa.Value) bool {
			if starTest(v) {
				return true
			}
			if ex, ok := v.(*ssa.Extract); ok {
				if c, ok := ex.Tuple.(*ssa.Call); ok {
					if cal := c.Call.StaticCallee(); cal != nil && starResult[cal][ex.Index] {
						return true
					}
				}
			}
			if c, ok := v.(*ssa.Call); ok {
				if cal := c.Call.StaticCallee(); cal != nil && starResult[cal][0] {
					return true
				}
			}
			return false
		}
		for _, rf := range region {
			for _, b := range rf.Blocks {
				for _, ins := range b.Instrs {
					switch x := ins.(type) {
					case *ssa.Call:
						cal := x.Call.StaticCallee()
						if cal == nil || cal.Signature.Recv() == nil || !isTPtr(cal.Signature.Recv().Type()) || !strings.Contains(strings.ToLower(cal.Name()), "default") {
							continue
						}
						// classify the guard
						g := "unguarded"
						for cur := b; cur != nil; cur = cur.Idom() {
							d := cur.Idom()
							if d == nil {
								break
							}
							if iff, ok := d.Instrs[len(d.Instrs)-1].(*ssa.If); ok && len(cur.Preds) == 1 {
								if u, ok := iff.Cond.(*ssa.UnOp); ok {
									if fa, ok := u.X.(*ssa.FieldAddr); ok && fieldNameOf(fa) == "IsDefault" {
										g = "is_default"
									}
								}
								if f2, ok := iff.Cond.(*ssa.Field); ok && fieldNameOf(f2) == "IsDefault" {
									g = "is_default"
								}
								if isRuneTest('?')(iff.Cond) && d.Succs[0] == cur {
									g = "'?'"
								}
							}
						}
						setters[cal] = append(setters[cal], g)
					case *ssa.Store:
						if fa, ok := x.Addr.(*ssa.FieldAddr); ok {
							switch fieldNameOf(fa) {
							case "IsAsterisk":
								asteriskStores++
							case "IsBuiltinAsterisk":
								if loadsField(x.Val, "IsAsterisk") {
									asteriskFromField = true
								}
								// … or a local that starts as the is_asterisk field and is set
								// to true where a `*` arm was taken
								if ph, ok := x.Val.(*ssa.Phi); ok {
									fromField, fromStar := false, false
									for ei, e := range ph.Edges {
										if loadsField(e, "IsAsterisk") {
											fromField = true
										}
										if k, ok := e.(*ssa.Const); ok && cBool(k.Value) {
											// the edge comes from the true side of a `*` indicator
											pb := ph.Block().Preds[ei]
											for cur := pb; cur != nil; cur = cur.Idom() {
												d := cur.Idom()
												if d == nil {
													break
												}
												if iff, ok := d.Instrs[len(d.Instrs)-1].(*ssa.If); ok && starIndicator(iff.Cond) && (d.Succs[0] == cur || (cur == pb && d == pb)) {
													fromStar = true
												}
											}
											if iff, ok := pb.Instrs[len(pb.Instrs)-1].(*ssa.If); ok && starIndicator(iff.Cond) && pb.Succs[0] == ph.Block() {
												fromStar = true
											}
										}
									}
									if fromField && fromStar {
										asteriskFromField = true
										asteriskStores++
									}
								}
							}
						}
					}
				}
			}
		}
		n++
		okDefault := false
		for _, gs := range setters {
			hasQ, hasD := false, false
			for _, g := range gs {
				if g == "'?'" {
					hasQ = true
				}
				if g == "is_default" {
					hasD = true
				}
			}
			if hasQ && hasD {
				okDefault = true
			}
		}
		if okDefault {
			r.holds("AL-flags", fnKey(argFn), "?T ≡ T + is_default", "the `?` arm and the is_default branch call the same default-flag setter", w.pos(argFn.Pos()))
		} else {
			r.violated("AL-flags", fnKey(argFn), "?T ≡ T + is_default", "the `?` notation of an argument and is_default do not reach the same flag store", w.pos(argFn.Pos()))
		}
		n++
		if asteriskStores > 0 && asteriskFromField {
			r.holds("AL-flags", fnKey(argFn), "*T ≡ T + is_asterisk", "the `*` arm sets the same field (is_asterisk) from which the asterisk flag of the value is copied", w.pos(argFn.Pos()))
		} else {
			r.violated("AL-flags", fnKey(argFn), "*T ≡ T + is_asterisk", "the `*` notation of an argument and is_asterisk do not reach the same flag store", w.pos(argFn.Pos()))
		}
	}
	alPrec(w, r)
	alLen(w, r)
	alArm(w, r)
	r.Stats["alias_rows"] = n
	r.floor("alias_rows", 12)
	r.finish()
	return r
}


// ---- helpers of the AL rules (SSA form) ----

// isRuneTest: v is `x == 'r'` (either operand order).
func isRuneTest(r rune) func(ssa.Value) bool {
	return func(v ssa.Value) bool {
		// strings.HasPrefix(x, "r") is the same test
		if c, ok := v.(*ssa.Call); ok {
			if cal := c.Call.StaticCallee(); cal != nil && cal.String() == "strings.HasPrefix" && len(c.Call.Args) == 2 {
				if k, ok := c.Call.Args[1].(*ssa.Const); ok && constVal(k).k == kStr && constVal(k).s == string(r) {
					return true
				}
			}
			return false
		}
		bo, ok := v.(*ssa.BinOp)
		if !ok || bo.Op != token.EQL {
			return false
		}
		for _, o := range []ssa.Value{bo.X, bo.Y} {
			if k, ok := o.(*ssa.Const); ok {
				if cv := constVal(k); cv.k == kInt && cv.i == int64(r) {
					return true
				}
			}
		}
		return false
	}
}

// isContainsTest: v is strings.Contains(x, lit).
func isContainsTest(lit string) func(ssa.Value) bool {
	return func(v ssa.Value) bool {
		c, ok := v.(*ssa.Call)
		if !ok {
			return false
		}
		cal := c.Call.StaticCallee()
		if cal == nil || cal.String() != "strings.Contains" || len(c.Call.Args) != 2 {
			return false
		}
		k, ok := c.Call.Args[1].(*ssa.Const)
		return ok && constVal(k).k == kStr && constVal(k).s == lit
	}
}

// armBlocks: the blocks of fn dominated by the true edge of an If whose condition satisfies pred.
func armBlocks(fn *ssa.Function, pred func(ssa.Value) bool) []*ssa.BasicBlock {
	var out []*ssa.BasicBlock
	for _, d := range fn.Blocks {
		iff, ok := d.Instrs[len(d.Instrs)-1].(*ssa.If)
		if !ok || !pred(iff.Cond) || len(d.Succs) != 2 {
			continue
		}
		t := d.Succs[0]
		if len(t.Preds) != 1 {
			continue
		}
		for _, b := range fn.Blocks {
			if t.Dominates(b) {
				out = append(out, b)
			}
		}
	}
	return out
}

// sliceLiteralElems: the values stored into the backing array of a slice literal, by index.
func sliceLiteralElems(v ssa.Value) []ssa.Value {
	sl, ok := v.(*ssa.Slice)
	if !ok {
		return nil
	}
	al, ok := sl.X.(*ssa.Alloc)
	if !ok || al.Referrers() == nil {
		return nil
	}
	at, ok := al.Type().(*types.Pointer).Elem().Underlying().(*types.Array)
	if !ok {
		return nil
	}
	out := make([]ssa.Value, at.Len())
	for _, ref := range *al.Referrers() {
		ia, ok := ref.(*ssa.IndexAddr)
		if !ok || ia.Referrers() == nil {
			continue
		}
		k, ok := ia.Index.(*ssa.Const)
		if !ok {
			continue
		}
		idx := constVal(k)
		if idx.k != kInt || idx.i < 0 || idx.i >= at.Len() {
			continue
		}
		for _, r2 := range *ia.Referrers() {
			if st, ok := r2.(*ssa.Store); ok && st.Addr == ssa.Value(ia) {
				out[idx.i] = st.Val
			}
		}
	}
	return out
}

// isLoadOfGlobalObj: v is a load of the package-level variable obj.
func isLoadOfGlobalObj(v ssa.Value, obj types.Object) bool {
	u, ok := v.(*ssa.UnOp)
	if !ok || obj == nil {
		return false
	}
	g, ok := u.X.(*ssa.Global)
	return ok && g.Object() == obj
}

// loadsField: v is a load of (or a field read of) a struct field with that name.
func loadsField(v ssa.Value, name string) bool {
	switch x := v.(type) {
	case *ssa.UnOp:
		if fa, ok := x.X.(*ssa.FieldAddr); ok && fieldNameOf(fa) == name {
			return true
		}
	case *ssa.Field:
		return fieldNameOf(x) == name
	}
	return false
}


// typeNameTableLiteral: the type vocabulary written as a package-level map literal
// (`map[string]*base.T{"Int": &IntT, …}` with at least 20 entries): label → package variable,
// and the function of the package that indexes the map.
func typeNameTableLiteral(bp *packages.Package) (map[string]types.Object, *ast.FuncDecl) {
	info := bp.TypesInfo
	var tabObj types.Object
	tab := map[string]types.Object{}
	for _, f := range bp.Syntax {
		for _, d := range f.Decls {
			gd, ok := d.(*ast.GenDecl)
			if !ok {
				continue
			}
			for _, sp := range gd.Specs {
				vs, ok := sp.(*ast.ValueSpec)
				if !ok {
					continue
				}
				for i, v := range vs.Values {
					cl, ok := ast.Unparen(v).(*ast.CompositeLit)
					if !ok || len(cl.Elts) < 20 || i >= len(vs.Names) {
						continue
					}
					mt, ok := info.TypeOf(cl).Underlying().(*types.Map)
					if !ok {
						continue
					}
					if b, ok := mt.Key().Underlying().(*types.Basic); !ok || b.Kind() != types.String {
						continue
					}
					cand := map[string]types.Object{}
					for _, el := range cl.Elts {
						kv, ok := el.(*ast.KeyValueExpr)
						if !ok {
							continue
						}
						tv := info.Types[kv.Key]
						if tv.Value == nil || tv.Value.Kind() != constant.String {
							continue
						}
						val := ast.Unparen(kv.Value)
						if u, ok := val.(*ast.UnaryExpr); ok && u.Op == token.AND {
							val = ast.Unparen(u.X)
						}
						if id, ok := val.(*ast.Ident); ok {
							cand[constant.StringVal(tv.Value)] = info.ObjectOf(id)
						}
					}
					if len(cand) >= 20 {
						tab, tabObj = cand, info.ObjectOf(vs.Names[i])
					}
				}
			}
		}
	}
	if tabObj == nil {
		return nil, nil
	}
	var fn *ast.FuncDecl
	for _, f := range bp.Syntax {
		for _, d := range f.Decls {
			fd, ok := d.(*ast.FuncDecl)
			if !ok || fd.Body == nil {
				continue
			}
			ast.Inspect(fd.Body, func(n ast.Node) bool {
				if ix, ok := n.(*ast.IndexExpr); ok {
					if id, ok := ix.X.(*ast.Ident); ok && info.ObjectOf(id) == tabObj && fn == nil {
						fn = fd
					}
				}
				return true
			})
		}
	}
	return tab, fn
}
