package main

import "strings"

type EngineFunc func(w *World, tier string) *EngineResult

type EngineSpec struct {
	Name   string
	Filter func(w *World, o Obligation) bool // nil = all obligations of the engine
}

type PropertySpec struct {
	Engines     []EngineSpec
	Clause      string // what exactly is decided (goes into evidence.explanation)
	NotCovered  string
	Assumptions []string
}

var engines = map[string]EngineFunc{}

// ruleEngine maps rule names that do not start with their engine's name.
var ruleEngine = map[string]string{}

func all(name string) EngineSpec { return EngineSpec{Name: name} }

func rules(name string, prefixes ...string) EngineSpec {
	return EngineSpec{Name: name, Filter: func(w *World, o Obligation) bool {
		for _, p := range prefixes {
			if o.Rule == p || strings.HasPrefix(o.Rule, p+"-") {
				return true
			}
		}
		return false
	}}
}

func inPkgs(name string, pkgs ...string) EngineSpec {
	return EngineSpec{Name: name, Filter: func(w *World, o Obligation) bool {
		for _, p := range pkgs {
			if strings.HasPrefix(o.Func, p+".") {
				return true
			}
		}
		return false
	}}
}

var commonAssumptions = []string{
	"go/types, go/ssa and the VTA call graph of golang.org/x/tools v0.50.0 are correct for this module",
	"no reflection, unsafe, cgo or plugins (asserted by the loader on every run)",
	"the clause decided is a structural necessary condition of the property, not the behaviour itself (see coverage.not_covered)",
}

var properties = map[string]PropertySpec{}

func init() {
	engines["EL"] = engineEL
}

func init() { engines["NT"] = engineNT }

func init() { engines["MO"] = engineMO }

func init() { engines["SE"] = engineSE }

func init() { engines["PAIR"] = enginePAIR }

func init() { engines["REC"] = engineREC }

func init() { engines["REG"] = engineREG }

func init() { engines["IX"] = engineIX }

func init() { engines["TA"] = engineTA }

func init() { engines["ED"] = engineED }

func init() { engines["RC"] = engineRC }

func init() { engines["ORD"] = engineORD }

func init() { engines["TB"] = engineTB }

func init() { engines["NL"] = engineNL }
