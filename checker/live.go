package main

import "golang.org/x/tools/go/ssa"

// liveness: SSA values live at the entry of each block (phis of the block included),
// used to merge abstract states that differ only in dead values.
type liveInfo struct {
	in map[*ssa.BasicBlock]map[ssa.Value]bool
}

func computeLive(fn *ssa.Function) *liveInfo {
	li := &liveInfo{in: map[*ssa.BasicBlock]map[ssa.Value]bool{}}
	out := map[*ssa.BasicBlock]map[ssa.Value]bool{}
	for _, b := range fn.Blocks {
		li.in[b] = map[ssa.Value]bool{}
		out[b] = map[ssa.Value]bool{}
	}
	track := func(v ssa.Value) bool {
		switch v.(type) {
		case *ssa.Const, *ssa.Function, *ssa.Global, *ssa.Builtin, nil:
			return false
		}
		return v != nil
	}
	for changed := true; changed; {
		changed = false
		for i := len(fn.Blocks) - 1; i >= 0; i-- {
			b := fn.Blocks[i]
			o := out[b]
			for _, s := range b.Succs {
				// index of b among s.Preds
				pi := -1
				for j, p := range s.Preds {
					if p == b {
						pi = j
					}
				}
				for v := range li.in[s] {
					if ph, ok := v.(*ssa.Phi); ok && ph.Block() == s {
						continue
					}
					if !o[v] {
						o[v] = true
						changed = true
					}
				}
				for _, ins := range s.Instrs {
					ph, ok := ins.(*ssa.Phi)
					if !ok {
						break
					}
					if pi >= 0 && pi < len(ph.Edges) && track(ph.Edges[pi]) && !o[ph.Edges[pi]] {
						o[ph.Edges[pi]] = true
						changed = true
					}
				}
			}
			in := map[ssa.Value]bool{}
			for v := range o {
				in[v] = true
			}
			for j := len(b.Instrs) - 1; j >= 0; j-- {
				ins := b.Instrs[j]
				if v, ok := ins.(ssa.Value); ok {
					if _, isPhi := ins.(*ssa.Phi); !isPhi {
						delete(in, v)
					}
				}
				if _, isPhi := ins.(*ssa.Phi); isPhi {
					continue
				}
				var ops []*ssa.Value
				ops = ins.Operands(ops)
				for _, op := range ops {
					if op != nil && track(*op) {
						in[*op] = true
					}
				}
			}
			// phis of b are defined at entry: keep them "live-in" if used later
			if len(in) != len(li.in[b]) {
				changed = true
			} else {
				for v := range in {
					if !li.in[b][v] {
						changed = true
						break
					}
				}
			}
			li.in[b] = in
		}
	}
	return li
}
