package main

// IV — variable-position indexing is in bounds (C01), a demand-driven difference-constraint
// analysis in the style of ABCD bounds-check elimination.
//
// Sites: every index / slice expression on a slice or string whose position is not a
// constant (those are engine IX's). For a site s[i] the obligation is 0 ≤ i < len(s), for
// s[a:b] it is 0 ≤ a ≤ b ≤ len(s). Facts are difference constraints x − y ≤ c over the
// nodes: zero, integer SSA values, and len(K) for a canonical storage key K. They come from
//   - the branch edges that dominate the site (comparisons of terms v, v±k, len(x), k),
//   - boolean helper functions, summarised per result value as constraints over their
//     parameters (what holds on *every* path returning that value),
//   - structure: len ≥ 0; counters that start non-negative and only grow are ≥ 0.
// A site is decided by shortest paths in the constraint graph. If the facts in the function
// do not suffice and both the position and the storage are parameters, the requirement is
// handed to every static caller (two levels).

import (
	"fmt"
	"go/constant"
	"go/token"
	"go/types"
	"sort"
	"strings"

	"golang.org/x/tools/go/ssa"
)

func init() { engines["IV"] = engineIV }

const ivInf = 1 << 30

type ivTerm struct {
	node string
	off  int
}

type ivCons struct {
	x, y string // x − y ≤ c
	c    int
}

type ivGraph struct {
	idx map[string]int
	d   [][]int
}

func newIvGraph() *ivGraph { return &ivGraph{idx: map[string]int{}} }

func (g *ivGraph) node(n string) int {
	if i, ok := g.idx[n]; ok {
		return i
	}
	i := len(g.d)
	g.idx[n] = i
	for j := range g.d {
		g.d[j] = append(g.d[j], ivInf)
	}
	row := make([]int, i+1)
	for j := range row {
		row[j] = ivInf
	}
	row[i] = 0
	g.d = append(g.d, row)
	return i
}

// add x − y ≤ c
func (g *ivGraph) add(x, y string, c int) {
	i, j := g.node(x), g.node(y)
	if c < g.d[i][j] {
		g.d[i][j] = c
	}
}

func (g *ivGraph) close() {
	n := len(g.d)
	for k := 0; k < n; k++ {
		for i := 0; i < n; i++ {
			if g.d[i][k] >= ivInf {
				continue
			}
			for j := 0; j < n; j++ {
				if g.d[k][j] < ivInf && g.d[i][k]+g.d[k][j] < g.d[i][j] {
					g.d[i][j] = g.d[i][k] + g.d[k][j]
				}
			}
		}
	}
}

// le: x − y ≤ c is implied (graph must be closed)
func (g *ivGraph) le(x, y string, c int) bool {
	i, ok1 := g.idx[x]
	j, ok2 := g.idx[y]
	if x == y {
		return 0 <= c
	}
	if !ok1 || !ok2 {
		return false
	}
	return g.d[i][j] <= c
}

type ivCtx struct {
	eqLen   map[*ssa.Function][][2]int
	stable  map[string]bool
	fieldNN map[string]bool
	w      *World
	ix     *ixCtx
	summ   map[*ssa.Function]*ivSummary
	inProg map[*ssa.Function]bool
}

// ivSummary: constraints over parameter terms that hold whenever the function returns
// true / false. Parameter nodes are "P<i>" (int parameter i) and "L:P<i>" (length of slice /
// string parameter i).
type ivSummary struct {
	ok   bool
	when [2][]ivCons // [0] result true, [1] result false
}

func isIntType(t types.Type) bool {
	b, ok := t.Underlying().(*types.Basic)
	return ok && b.Info()&types.IsInteger != 0
}

// term: v as node + offset. params maps SSA values of the function under summary to P-names.
func (c *ivCtx) term(v ssa.Value, params map[ssa.Value]string, depth int) ivTerm {
	if depth > 6 {
		return ivTerm{node: fmt.Sprintf("v:%p", v)}
	}
	switch x := v.(type) {
	case *ssa.Const:
		if x.Value != nil && x.Value.Kind() == constant.Int {
			if k, ok := cInt64(x.Value); ok {
				return ivTerm{node: "Z", off: int(k)}
			}
		}
	case *ssa.Call:
		if bi, ok := x.Call.Value.(*ssa.Builtin); ok && bi.Name() == "len" && len(x.Call.Args) == 1 {
			return ivTerm{node: "L:" + c.key(x.Call.Args[0], params)}
		}
	case *ssa.BinOp:
		switch x.Op {
		case token.ADD:
			if k, ok := x.Y.(*ssa.Const); ok && k.Value != nil && k.Value.Kind() == constant.Int {
				t := c.term(x.X, params, depth+1)
				t.off += int(k.Int64())
				return t
			}
			if k, ok := x.X.(*ssa.Const); ok && k.Value != nil && k.Value.Kind() == constant.Int {
				t := c.term(x.Y, params, depth+1)
				t.off += int(k.Int64())
				return t
			}
		case token.SUB:
			if k, ok := x.Y.(*ssa.Const); ok && k.Value != nil && k.Value.Kind() == constant.Int {
				t := c.term(x.X, params, depth+1)
				t.off -= int(k.Int64())
				return t
			}
		}
	case *ssa.Convert:
		if isIntType(x.X.Type()) {
			return c.term(x.X, params, depth+1)
		}
	case *ssa.ChangeType:
		return c.term(x.X, params, depth+1)
	case *ssa.UnOp:
		// two loads of one integer field denote one value when no store to that field can
		// run between loads (every store to it in the function is followed by a return)
		if fa, ok := x.X.(*ssa.FieldAddr); ok && x.Op == token.MUL && isIntType(x.Type()) && x.Parent() != nil {
			k := c.ix.exprKey(fa, nil, 0)
			if c.stableField(x.Parent(), k) {
				return ivTerm{node: "m:" + fnKey(x.Parent()) + ":" + k}
			}
		}
	}
	if n, ok := params[v]; ok {
		return ivTerm{node: n}
	}
	return ivTerm{node: fmt.Sprintf("v:%p", v)}
}

// stableField: no store to the field named k in fn can be followed by a load of it.
func (c *ivCtx) stableField(fn *ssa.Function, k string) bool {
	ck := fnKey(fn) + "|" + k
	if v, ok := c.stable[ck]; ok {
		return v
	}
	res := true
	for _, b := range fn.Blocks {
		for i, ins := range b.Instrs {
			st, ok := ins.(*ssa.Store)
			if !ok || c.ix.exprKey(st.Addr, nil, 0) != k {
				continue
			}
			// anything reachable after the store that loads k?
			seen := map[*ssa.BasicBlock]bool{}
			var loads func(blk *ssa.BasicBlock, from int) bool
			loads = func(blk *ssa.BasicBlock, from int) bool {
				for _, in2 := range blk.Instrs[from:] {
					if ld, ok := in2.(*ssa.UnOp); ok && ld.Op == token.MUL && c.ix.exprKey(ld.X, nil, 0) == k {
						return true
					}
					if call, ok := in2.(*ssa.Call); ok && call.Call.StaticCallee() == nil {
						_ = call
					}
				}
				for _, s2 := range blk.Succs {
					if !seen[s2] {
						seen[s2] = true
						if loads(s2, 0) {
							return true
						}
					}
				}
				return false
			}
			if loads(b, i+1) {
				res = false
			}
		}
	}
	// calls inside fn could store to the field as well: only accept leaf-like functions
	for _, b := range fn.Blocks {
		for _, ins := range b.Instrs {
			if call, ok := ins.(*ssa.Call); ok {
				if _, isB := call.Call.Value.(*ssa.Builtin); !isB {
					res = false
				}
			}
		}
	}
	c.stable[ck] = res
	return res
}

func (c *ivCtx) key(v ssa.Value, params map[ssa.Value]string) string {
	if n, ok := params[v]; ok {
		return n
	}
	return c.ix.exprKey(v, nil, 0)
}

// condCons: constraints implied by cond having the given truth value.
func (c *ivCtx) condCons(cond ssa.Value, truth bool, params map[ssa.Value]string, depth int) []ivCons {
	if depth > 4 {
		return nil
	}
	switch x := cond.(type) {
	case *ssa.UnOp:
		if x.Op == token.NOT {
			return c.condCons(x.X, !truth, params, depth+1)
		}
	case *ssa.BinOp:
		if !isIntType(x.X.Type()) {
			return nil
		}
		a, b := c.term(x.X, params, 0), c.term(x.Y, params, 0)
		op := x.Op
		if !truth {
			switch op {
			case token.LSS:
				op = token.GEQ
			case token.LEQ:
				op = token.GTR
			case token.GTR:
				op = token.LEQ
			case token.GEQ:
				op = token.LSS
			case token.EQL:
				op = token.NEQ
			case token.NEQ:
				op = token.EQL
			}
		}
		lt := func(p, q ivTerm, strict int) ivCons { // p < q (strict=1) or p ≤ q (0):  p.node − q.node ≤ q.off − p.off − strict
			return ivCons{x: p.node, y: q.node, c: q.off - p.off - strict}
		}
		switch op {
		case token.LSS:
			return []ivCons{lt(a, b, 1)}
		case token.LEQ:
			return []ivCons{lt(a, b, 0)}
		case token.GTR:
			return []ivCons{lt(b, a, 1)}
		case token.GEQ:
			return []ivCons{lt(b, a, 0)}
		case token.EQL:
			return []ivCons{lt(a, b, 0), lt(b, a, 0)}
		}
	case *ssa.Call:
		cal := x.Call.StaticCallee()
		if cal == nil || cal.Pkg == nil || !inModule(cal.Pkg.Pkg.Path()) || len(cal.Blocks) == 0 {
			return nil
		}
		s := c.summary(cal)
		if s == nil || !s.ok {
			return nil
		}
		which := 0
		if !truth {
			which = 1
		}
		// substitute P<i> / L:P<i>
		sub := func(n string) (ivTerm, bool) {
			switch {
			case n == "Z":
				return ivTerm{node: "Z"}, true
			case strings.HasPrefix(n, "L:P"):
				var i int
				fmt.Sscanf(n, "L:P%d", &i)
				if i < len(x.Call.Args) {
					return ivTerm{node: "L:" + c.key(x.Call.Args[i], params)}, true
				}
			case strings.HasPrefix(n, "P"):
				var i int
				fmt.Sscanf(n, "P%d", &i)
				if i < len(x.Call.Args) {
					return c.term(x.Call.Args[i], params, 0), true
				}
			}
			return ivTerm{}, false
		}
		var out []ivCons
		for _, k := range s.when[which] {
			tx, ok1 := sub(k.x)
			ty, ok2 := sub(k.y)
			if ok1 && ok2 {
				// (tx.node + tx.off) − (ty.node + ty.off) ≤ k.c
				out = append(out, ivCons{x: tx.node, y: ty.node, c: k.c - tx.off + ty.off})
			}
		}
		return out
	}
	return nil
}

// domCons: constraints from the branch edges dominating block b.
func (c *ivCtx) domCons(b *ssa.BasicBlock, params map[ssa.Value]string) []ivCons {
	var out []ivCons
	for cur := b; cur != nil; cur = cur.Idom() {
		d := cur.Idom()
		if d == nil {
			break
		}
		iff, ok := d.Instrs[len(d.Instrs)-1].(*ssa.If)
		if !ok {
			continue
		}
		if len(cur.Preds) != 1 || cur.Preds[0] != d {
			continue
		}
		if d.Succs[0] == cur && d.Succs[1] != cur {
			out = append(out, c.condCons(iff.Cond, true, params, 0)...)
		} else if d.Succs[1] == cur && d.Succs[0] != cur {
			out = append(out, c.condCons(iff.Cond, false, params, 0)...)
		}
	}
	return out
}

// nonNeg: v ≥ 0 by construction.
func (c *ivCtx) nonNeg(v ssa.Value, assume map[ssa.Value]bool, depth int) bool {
	lb, ok := c.lowerBound(v, map[ssa.Value]int{}, 0)
	return ok && lb >= 0 && lb < 1<<19
}

// lowerBound: a constant L with v ≥ L on every execution, from the shape of the value:
// constants, len/cap, ± constant, range indexes, counters (phis whose back edges only add
// non-negative amounts), integer fields that are only ever set to non-negative constants or
// advanced from their own value.
func (c *ivCtx) lowerBound(v ssa.Value, assume map[ssa.Value]int, depth int) (int, bool) {
	if depth > 30 {
		return 0, false
	}
	if l, ok := assume[v]; ok {
		return l, true
	}
	switch x := v.(type) {
	case *ssa.Const:
		if x.Value != nil && x.Value.Kind() == constant.Int {
			if k, ok := cInt64(x.Value); ok {
				return int(k), true
			}
		}
	case *ssa.Call:
		if bi, ok := x.Call.Value.(*ssa.Builtin); ok && (bi.Name() == "len" || bi.Name() == "cap") {
			return 0, true
		}
		// a module function with one integer result (a counting helper)
		if x.Call.StaticCallee() != nil && isIntType(x.Type()) {
			return c.resultLowerBound(x, 0, assume, depth)
		}
	case *ssa.BinOp:
		switch x.Op {
		case token.ADD:
			a, ok1 := c.lowerBound(x.X, assume, depth+1)
			b, ok2 := c.lowerBound(x.Y, assume, depth+1)
			if ok1 && ok2 {
				return a + b, true
			}
		case token.SUB:
			if k, ok := x.Y.(*ssa.Const); ok && k.Value != nil && k.Value.Kind() == constant.Int {
				if a, ok := c.lowerBound(x.X, assume, depth+1); ok {
					return a - int(k.Int64()), true
				}
			}
		case token.MUL, token.QUO, token.REM:
			a, ok1 := c.lowerBound(x.X, assume, depth+1)
			b, ok2 := c.lowerBound(x.Y, assume, depth+1)
			if ok1 && ok2 && a >= 0 && b >= 0 {
				return 0, true
			}
		}
	case *ssa.Phi:
		// candidate: the least bound of the edges when the phi itself counts as +∞ (what does
		// not run through it decides); then the candidate is checked as an inductive bound
		const big = 1 << 20
		assume[x] = big
		cand, have := 0, false
		for _, e := range x.Edges {
			l, ok := c.lowerBound(e, assume, depth+1)
			if !ok {
				delete(assume, x)
				return 0, false
			}
			if !have || l < cand {
				cand, have = l, true
			}
		}
		if !have {
			delete(assume, x)
			return 0, false
		}
		if cand >= big/2 {
			// everything runs through an enclosing assumption: no bound of its own
			delete(assume, x)
			if depth == 0 {
				return 0, false
			}
			return cand, true
		}
		assume[x] = cand
		defer delete(assume, x)
		for _, e := range x.Edges {
			l, ok := c.lowerBound(e, assume, depth+1)
			if !ok || l < cand {
				return 0, false
			}
		}
		return cand, true
	case *ssa.Extract:
		if _, ok := x.Tuple.(*ssa.Next); ok && x.Index == 1 && isIntType(x.Type()) {
			return 0, true
		}
		if call, ok := x.Tuple.(*ssa.Call); ok {
			return c.resultLowerBound(call, x.Index, assume, depth)
		}
	case *ssa.Convert:
		if isIntType(x.X.Type()) {
			return c.lowerBound(x.X, assume, depth+1)
		}
	case *ssa.UnOp:
		if x.Op == token.MUL {
			if fa, ok := x.X.(*ssa.FieldAddr); ok && c.nonNegField(fa) {
				return 0, true
			}
		}
	}
	return 0, false
}

// atLeast: v ≥ p on every execution, by shape: p itself, something at least p plus a
// non-negative constant, or a phi all of whose edges are at least p.
func atLeast(v ssa.Value, p ssa.Value, assume map[ssa.Value]bool, depth int) bool {
	if v == p || assume[v] {
		return true
	}
	if depth > 12 {
		return false
	}
	switch x := v.(type) {
	case *ssa.BinOp:
		if x.Op == token.ADD {
			if k, ok := x.Y.(*ssa.Const); ok && k.Value != nil && k.Value.Kind() == constant.Int && constant.Sign(k.Value) >= 0 {
				return atLeast(x.X, p, assume, depth+1)
			}
		}
	case *ssa.Phi:
		assume[x] = true
		for _, e := range x.Edges {
			if !atLeast(e, p, assume, depth+1) {
				delete(assume, x)
				return false
			}
		}
		return true
	}
	return false
}

// reachesValue: v is computed (through operands, phis, and results of module calls that
// take it as argument) from target.
func reachesValue(v, target ssa.Value, seen map[ssa.Value]bool) bool {
	if v == target {
		return true
	}
	if seen[v] {
		return false
	}
	seen[v] = true
	ins, ok := v.(ssa.Instruction)
	if !ok {
		return false
	}
	var ops []*ssa.Value
	for _, op := range ins.Operands(ops) {
		if op != nil && *op != nil && reachesValue(*op, target, seen) {
			return true
		}
	}
	return false
}

// resultLowerBound: lower bound of result #idx of a static module call: the least bound of
// what the callee returns, its integer parameters bounded by the arguments' bounds.
func (c *ivCtx) resultLowerBound(call *ssa.Call, idx int, assume map[ssa.Value]int, depth int) (int, bool) {
	cal := call.Call.StaticCallee()
	if cal == nil || cal.Pkg == nil || !inModule(cal.Pkg.Pkg.Path()) || len(cal.Blocks) == 0 || depth > 20 {
		return 0, false
	}
	inner := map[ssa.Value]int{}
	for i, p := range cal.Params {
		if i < len(call.Call.Args) && isIntType(p.Type()) {
			if l, ok := c.lowerBound(call.Call.Args[i], assume, depth+1); ok {
				inner[p] = l
			}
		}
	}
	best, have := 0, false
	for _, b := range cal.Blocks {
		rt, ok := b.Instrs[len(b.Instrs)-1].(*ssa.Return)
		if !ok || idx >= len(rt.Results) {
			continue
		}
		l, ok := c.lowerBound(rt.Results[idx], inner, depth+2)
		if !ok {
			return 0, false
		}
		if !have || l < best {
			best, have = l, true
		}
	}
	return best, have
}

// nonNegField: every store to this struct field in the module is a non-negative constant or
// the field's own value plus a non-negative constant (zero value included).
func (c *ivCtx) nonNegField(fa *ssa.FieldAddr) bool {
	pt, ok := fa.X.Type().Underlying().(*types.Pointer)
	if !ok {
		return false
	}
	key := fmt.Sprintf("%s#%d", pt.Elem().String(), fa.Field)
	if v, ok := c.fieldNN[key]; ok {
		return v
	}
	res := true
	for _, fn := range c.w.Funcs {
		for _, b := range fn.Blocks {
			for _, ins := range b.Instrs {
				st, ok := ins.(*ssa.Store)
				if !ok {
					continue
				}
				f2, ok := st.Addr.(*ssa.FieldAddr)
				if !ok || f2.Field != fa.Field {
					// a whole-struct store could also set the field: only composite literals do
					// that here, and they go through field stores in SSA
					continue
				}
				p2, ok := f2.X.Type().Underlying().(*types.Pointer)
				if !ok || !types.Identical(p2.Elem(), pt.Elem()) {
					continue
				}
				good := false
				switch val := st.Val.(type) {
				case *ssa.Const:
					good = val.Value != nil && val.Value.Kind() == constant.Int && constant.Sign(val.Value) >= 0
				case *ssa.BinOp:
					if val.Op == token.ADD {
						if k, ok := val.Y.(*ssa.Const); ok && k.Value != nil && constant.Sign(k.Value) >= 0 {
							if ld, ok := val.X.(*ssa.UnOp); ok {
								if f3, ok := ld.X.(*ssa.FieldAddr); ok && f3.Field == fa.Field {
									good = true
								}
							}
						}
					}
				}
				if !good {
					res = false
				}
			}
		}
	}
	c.fieldNN[key] = res
	return res
}

// summary of a boolean helper.
func (c *ivCtx) summary(fn *ssa.Function) *ivSummary {
	if s, ok := c.summ[fn]; ok {
		return s
	}
	if c.inProg[fn] {
		return nil
	}
	s := &ivSummary{}
	c.summ[fn] = s
	res := fn.Signature.Results()
	if res.Len() != 1 || !types.Identical(res.At(0).Type().Underlying(), types.Typ[types.Bool]) {
		return s
	}
	c.inProg[fn] = true
	defer delete(c.inProg, fn)
	params := map[ssa.Value]string{}
	var pnodes []string
	for i, p := range fn.Params {
		switch {
		case isIntType(p.Type()):
			params[p] = fmt.Sprintf("P%d", i)
			pnodes = append(pnodes, fmt.Sprintf("P%d", i))
		default:
			switch p.Type().Underlying().(type) {
			case *types.Slice:
				params[p] = fmt.Sprintf("P%d", i)
				pnodes = append(pnodes, fmt.Sprintf("L:P%d", i))
			case *types.Basic:
				if isStringType(p.Type()) {
					params[p] = fmt.Sprintf("P%d", i)
					pnodes = append(pnodes, fmt.Sprintf("L:P%d", i))
				}
			}
		}
	}
	if len(pnodes) < 2 {
		pnodes = append(pnodes, "Z")
	}
	pnodes = append(pnodes, "Z")
	// paths: (constraints, result) per return edge
	type path struct {
		cons  []ivCons
		truth int // 0 true, 1 false
	}
	var paths []path
	var addRet func(b *ssa.BasicBlock, v ssa.Value, extra []ivCons, depth int)
	addRet = func(b *ssa.BasicBlock, v ssa.Value, extra []ivCons, depth int) {
		base := append(append([]ivCons{}, c.domCons(b, params)...), extra...)
		switch x := v.(type) {
		case *ssa.Const:
			t := 1
			if x.Value != nil && cBool(x.Value) {
				t = 0
			}
			paths = append(paths, path{cons: base, truth: t})
		case *ssa.Phi:
			if depth > 3 {
				paths = append(paths, path{cons: nil, truth: 0}, path{cons: nil, truth: 1})
				return
			}
			for i, e := range x.Edges {
				pb := x.Block().Preds[i]
				// the edge pb → phi block may itself be a branch edge
				var ec []ivCons
				if iff, ok := pb.Instrs[len(pb.Instrs)-1].(*ssa.If); ok {
					if pb.Succs[0] == x.Block() && pb.Succs[1] != x.Block() {
						ec = c.condCons(iff.Cond, true, params, 0)
					} else if pb.Succs[1] == x.Block() && pb.Succs[0] != x.Block() {
						ec = c.condCons(iff.Cond, false, params, 0)
					}
				}
				addRet(pb, e, ec, depth+1)
			}
		default:
			paths = append(paths, path{cons: append(append([]ivCons{}, base...), c.condCons(v, true, params, 0)...), truth: 0})
			paths = append(paths, path{cons: append(append([]ivCons{}, base...), c.condCons(v, false, params, 0)...), truth: 1})
		}
	}
	for _, b := range fn.Blocks {
		if rt, ok := b.Instrs[len(b.Instrs)-1].(*ssa.Return); ok && len(rt.Results) == 1 {
			addRet(b, rt.Results[0], nil, 0)
		}
	}
	for t := 0; t < 2; t++ {
		first := true
		var bound map[[2]string]int
		for _, p := range paths {
			if p.truth != t {
				continue
			}
			g := newIvGraph()
			for _, n := range pnodes {
				g.node(n)
			}
			for _, k := range p.cons {
				g.add(k.x, k.y, k.c)
			}
			for _, n := range pnodes {
				if strings.HasPrefix(n, "L:") {
					g.add("Z", n, 0)
				}
			}
			g.close()
			cur := map[[2]string]int{}
			for _, x := range pnodes {
				for _, y := range pnodes {
					if x != y && g.d[g.idx[x]][g.idx[y]] < ivInf {
						cur[[2]string{x, y}] = g.d[g.idx[x]][g.idx[y]]
					}
				}
			}
			if first {
				bound, first = cur, false
				continue
			}
			for k, v := range bound {
				if v2, ok := cur[k]; !ok {
					delete(bound, k)
				} else if v2 > v {
					bound[k] = v2
				}
			}
		}
		var keys [][2]string
		for k := range bound {
			keys = append(keys, k)
		}
		sort.Slice(keys, func(i, j int) bool { return keys[i][0]+keys[i][1] < keys[j][0]+keys[j][1] })
		for _, k := range keys {
			s.when[t] = append(s.when[t], ivCons{x: k[0], y: k[1], c: bound[k]})
		}
	}
	s.ok = true
	return s
}

type ivSite struct {
	ins   ssa.Instruction
	base  ssa.Value
	what  string // "index" / "slice"
	idx   ssa.Value
	lo    ssa.Value
	hi    ssa.Value
	isStr bool
}

func (c *ivCtx) sitesOf(fn *ssa.Function) []ivSite {
	var out []ivSite
	isConstInt := func(v ssa.Value) bool {
		k, ok := v.(*ssa.Const)
		return ok && k.Value != nil && k.Value.Kind() == constant.Int
	}
	sliceOrString := func(t types.Type) (ok, str bool) {
		switch u := t.Underlying().(type) {
		case *types.Slice:
			return true, false
		case *types.Basic:
			return u.Info()&types.IsString != 0, true
		}
		return false, false
	}
	for _, b := range fn.Blocks {
		for _, ins := range b.Instrs {
			switch x := ins.(type) {
			case *ssa.IndexAddr:
				if ok, _ := sliceOrString(x.X.Type()); ok && !isConstInt(x.Index) {
					out = append(out, ivSite{ins: x, base: x.X, what: "index", idx: x.Index})
				}
			case *ssa.Index:
				if ok, str := sliceOrString(x.X.Type()); ok && !isConstInt(x.Index) {
					out = append(out, ivSite{ins: x, base: x.X, what: "index", idx: x.Index, isStr: str})
				}
			case *ssa.Slice:
				ok, str := sliceOrString(x.X.Type())
				if !ok {
					continue
				}
				if (x.Low == nil || isConstInt(x.Low)) && (x.High == nil || isConstInt(x.High)) {
					continue
				}
				out = append(out, ivSite{ins: x, base: x.X, what: "slice", lo: x.Low, hi: x.High, isStr: str})
			}
		}
	}
	return out
}

// ivReq: a ≤ b − strict
type ivReq struct {
	desc   string
	a, b   ivTerm
	strict int
}

func (c *ivCtx) requirements(s ivSite, params map[ssa.Value]string) []ivReq {
	L := ivTerm{node: "L:" + c.key(s.base, params)}
	Z := ivTerm{node: "Z"}
	var out []ivReq
	switch s.what {
	case "index":
		i := c.term(s.idx, params, 0)
		out = append(out, ivReq{"index ≥ 0", Z, i, 0}, ivReq{"index < len", i, L, 1})
	case "slice":
		lo, hi := Z, L
		if s.lo != nil {
			lo = c.term(s.lo, params, 0)
			out = append(out, ivReq{"low ≥ 0", Z, lo, 0})
		}
		if s.hi != nil {
			hi = c.term(s.hi, params, 0)
			out = append(out, ivReq{"high ≤ len", hi, L, 0})
		}
		out = append(out, ivReq{"low ≤ high", lo, hi, 0})
	}
	return out
}

func rootOfTerm(v ssa.Value) ssa.Value {
	for {
		if bo, ok := v.(*ssa.BinOp); ok && (bo.Op == token.ADD || bo.Op == token.SUB) {
			if _, isC := bo.Y.(*ssa.Const); isC {
				v = bo.X
				continue
			}
			if _, isC := bo.X.(*ssa.Const); isC && bo.Op == token.ADD {
				v = bo.Y
				continue
			}
		}
		if cv, ok := v.(*ssa.Convert); ok && isIntType(cv.X.Type()) {
			v = cv.X
			continue
		}
		return v
	}
}

// graphAt: everything known at block b of fn, closed.
func (c *ivCtx) graphAt(fn *ssa.Function, b *ssa.BasicBlock, ints []ssa.Value, bases []ssa.Value, params map[ssa.Value]string) *ivGraph {
	g := newIvGraph()
	g.node("Z")
	for _, k := range c.domCons(b, params) {
		g.add(k.x, k.y, k.c)
	}
	// structural lower bounds of the integer roots (and of every integer mentioned in a fact)
	for _, v := range ints {
		if v == nil {
			continue
		}
		root := rootOfTerm(v)
		rt := c.term(root, params, 0)
		if rt.node == "Z" {
			continue
		}
		if lb, ok := c.lowerBound(root, map[ssa.Value]int{}, 0); ok && lb < 1<<19 {
			g.add("Z", rt.node, -lb+rt.off)
		}
	}
	// a counter that starts at a parameter and only grows stays at least that parameter
	for _, v := range ints {
		if v == nil {
			continue
		}
		root := rootOfTerm(v)
		if ph, ok := root.(*ssa.Phi); ok {
			for _, p := range fn.Params {
				if isIntType(p.Type()) && atLeast(ph, p, map[ssa.Value]bool{}, 0) {
					g.add(c.term(p, params, 0).node, c.term(ph, params, 0).node, 0)
				}
			}
		}
	}
	for _, base := range bases {
		c.structuralLen(g, fn, b, base, params, 0)
	}
	// results of one call that are built in step have equal lengths
	for _, blk := range fn.Blocks {
		for _, ins := range blk.Instrs {
			call, ok := ins.(*ssa.Call)
			if !ok {
				continue
			}
			cal := call.Call.StaticCallee()
			if cal == nil || cal.Pkg == nil || !inModule(cal.Pkg.Pkg.Path()) || len(cal.Blocks) == 0 {
				continue
			}
			for _, pr := range c.eqLenResults(cal) {
				var e0, e1 ssa.Value
				for _, ref := range *call.Referrers() {
					if ex, ok := ref.(*ssa.Extract); ok {
						if ex.Index == pr[0] {
							e0 = ex
						}
						if ex.Index == pr[1] {
							e1 = ex
						}
					}
				}
				if e0 != nil && e1 != nil {
					l0, l1 := "L:"+c.key(e0, params), "L:"+c.key(e1, params)
					g.add(l0, l1, 0)
					g.add(l1, l0, 0)
				}
			}
		}
	}
	for n := range g.idx {
		if strings.HasPrefix(n, "L:") {
			g.add("Z", n, 0)
		}
	}
	c.phiLenBounds(g, fn, bases, params)
	g.close()
	return g
}

// phiLenBounds: a slice (or string) that is a phi is bounded by what bounds it on every
// incoming edge. `if len(a) < len(b) { b = b[:len(a)] }` leaves len(b) ≤ len(a): on the edge
// that skips the clamp the test says so, on the other one the re-slice does. For every slice
// phi mentioned in the graph and every base X of the site, len(phi) ≤ len(X) is added when it
// follows on each edge from the facts of that edge and the shape of the edge's value.
func (c *ivCtx) phiLenBounds(g *ivGraph, fn *ssa.Function, bases []ssa.Value, params map[ssa.Value]string) {
	if params != nil {
		return
	}
	for _, b := range fn.Blocks {
		for _, ins := range b.Instrs {
			ph, ok := ins.(*ssa.Phi)
			if !ok {
				break
			}
			switch ph.Type().Underlying().(type) {
			case *types.Slice:
			case *types.Basic:
				if bt := ph.Type().Underlying().(*types.Basic); bt.Kind() != types.String {
					continue
				}
			default:
				continue
			}
			LP := "L:" + c.key(ph, nil)
			if _, mentioned := g.idx[LP]; !mentioned {
				continue
			}
			for _, X := range bases {
				if X == nil || X == ssa.Value(ph) {
					continue
				}
				LX := "L:" + c.key(X, nil)
				all := true
				for ei, e := range ph.Edges {
					pred := b.Preds[ei]
					eg := newIvGraph()
					eg.node("Z")
					for _, k := range c.domCons(pred, nil) {
						eg.add(k.x, k.y, k.c)
					}
					if iff, ok := pred.Instrs[len(pred.Instrs)-1].(*ssa.If); ok && len(pred.Succs) == 2 && pred.Succs[0] != pred.Succs[1] {
						for _, k := range c.condCons(iff.Cond, pred.Succs[0] == b, nil, 0) {
							eg.add(k.x, k.y, k.c)
						}
					}
					c.structuralLen(eg, fn, pred, e, nil, 0)
					eg.close()
					if !eg.le("L:"+c.key(e, nil), LX, 0) {
						all = false
						break
					}
				}
				if all && len(ph.Edges) > 0 {
					g.add(LP, LX, 0)
				}
			}
		}
	}
}

func (g *ivGraph) holds(r ivReq) bool {
	if r.a.node == r.b.node {
		return r.a.off+r.strict <= r.b.off
	}
	return g.le(r.a.node, r.b.node, r.b.off-r.a.off-r.strict)
}

// structuralLen: facts about the length of base that follow from how it was built.
func (c *ivCtx) structuralLen(g *ivGraph, fn *ssa.Function, at *ssa.BasicBlock, base ssa.Value, params map[ssa.Value]string, depth int) {
	if depth > 3 {
		return
	}
	L := "L:" + c.key(base, params)
	eq := func(t ivTerm) {
		g.add(L, t.node, t.off)
		g.add(t.node, L, -t.off)
	}
	switch x := base.(type) {
	case *ssa.MakeSlice:
		eq(c.term(x.Len, params, 0))
	case *ssa.Slice:
		if x.Low == nil && x.High != nil {
			eq(c.term(x.High, params, 0))
		}
	case *ssa.UnOp:
		// a variable / field that is assigned once, in a block that dominates the site
		if x.Op != token.MUL {
			return
		}
		k := c.ix.exprKey(x.X, nil, 0)
		var stores []*ssa.Store
		for _, b := range fn.Blocks {
			for _, ins := range b.Instrs {
				if st, ok := ins.(*ssa.Store); ok && c.ix.exprKey(st.Addr, nil, 0) == k {
					stores = append(stores, st)
				}
			}
		}
		if len(stores) == 1 && (stores[0].Block() == at || stores[0].Block().Dominates(at)) {
			eq(ivTerm{node: "L:" + c.key(stores[0].Val, params)})
			c.structuralLen(g, fn, at, stores[0].Val, params, depth+1)
		}
	}
}

// eqLenResults: pairs (i, j) of slice results of fn that have the same length at every
// return: both empty, or grown in step — each is a chain of single-element appends over a
// pair of phis whose incoming values are pairwise equal in length (coinductively).
func (c *ivCtx) eqLenResults(fn *ssa.Function) [][2]int {
	if r, ok := c.eqLen[fn]; ok {
		return r
	}
	c.eqLen[fn] = nil
	res := fn.Signature.Results()
	var out [][2]int
	for i := 0; i < res.Len(); i++ {
		for j := i + 1; j < res.Len(); j++ {
			_, s0 := res.At(i).Type().Underlying().(*types.Slice)
			_, s1 := res.At(j).Type().Underlying().(*types.Slice)
			if !s0 || !s1 {
				continue
			}
			ok := true
			n := 0
			for _, b := range fn.Blocks {
				rt, isRet := b.Instrs[len(b.Instrs)-1].(*ssa.Return)
				if !isRet {
					continue
				}
				n++
				if !sameLen(rt.Results[i], rt.Results[j], map[[2]ssa.Value]bool{}, 0) {
					ok = false
				}
			}
			if ok && n > 0 {
				out = append(out, [2]int{i, j})
			}
		}
	}
	c.eqLen[fn] = out
	return out
}

// sameLen: a and b have the same length (structural, coinductive over phi pairs).
func sameLen(a, b ssa.Value, assume map[[2]ssa.Value]bool, depth int) bool {
	if depth > 12 {
		return false
	}
	if assume[[2]ssa.Value{a, b}] {
		return true
	}
	ea, eb := emptySlice(a), emptySlice(b)
	if ea && eb {
		return true
	}
	if ea != eb {
		return false
	}
	switch x := a.(type) {
	case *ssa.Phi:
		y, ok := b.(*ssa.Phi)
		if !ok || x.Block() != y.Block() {
			return false
		}
		assume[[2]ssa.Value{a, b}] = true
		for i := range x.Edges {
			if !sameLen(x.Edges[i], y.Edges[i], assume, depth+1) {
				delete(assume, [2]ssa.Value{a, b})
				return false
			}
		}
		return true
	case *ssa.Call:
		y, ok := b.(*ssa.Call)
		if !ok {
			return false
		}
		n1, base1, ok1 := appendOne(x)
		n2, base2, ok2 := appendOne(y)
		if !ok1 || !ok2 || n1 != n2 || x.Block() != y.Block() {
			return false
		}
		return sameLen(base1, base2, assume, depth+1)
	}
	return false
}

func emptySlice(v ssa.Value) bool {
	switch x := v.(type) {
	case *ssa.Const:
		return x.IsNil()
	case *ssa.Slice:
		if al, ok := x.X.(*ssa.Alloc); ok {
			if at, ok := al.Type().Underlying().(*types.Pointer).Elem().Underlying().(*types.Array); ok {
				return at.Len() == 0
			}
		}
	case *ssa.MakeSlice:
		if k, ok := x.Len.(*ssa.Const); ok && k.Value != nil && k.Int64() == 0 {
			return true
		}
	}
	return false
}

// appendOne: call is append(base, e1..en) with a fresh variadic list of n elements.
func appendOne(call *ssa.Call) (int, ssa.Value, bool) {
	bi, ok := call.Call.Value.(*ssa.Builtin)
	if !ok || bi.Name() != "append" || len(call.Call.Args) != 2 {
		return 0, nil, false
	}
	sl, ok := call.Call.Args[1].(*ssa.Slice)
	if !ok {
		return 0, nil, false
	}
	al, ok := sl.X.(*ssa.Alloc)
	if !ok {
		return 0, nil, false
	}
	at, ok := al.Type().Underlying().(*types.Pointer).Elem().Underlying().(*types.Array)
	if !ok {
		return 0, nil, false
	}
	return int(at.Len()), call.Call.Args[0], true
}

// discharge: which of the requirements do not follow at block b of fn, after asking the
// static callers for those that are stated over parameters.
func (c *ivCtx) discharge(fn *ssa.Function, b *ssa.BasicBlock, reqs []ivReq, ints, bases []ssa.Value, depth int) (unmet []ivReq, via string) {
	g := c.graphAt(fn, b, ints, bases, nil)
	var rest []ivReq
	for _, r := range reqs {
		if !g.holds(r) {
			rest = append(rest, r)
		}
	}
	if len(rest) == 0 || depth > 2 {
		return rest, ""
	}
	// translate to callers
	pnode := map[string]int{} // node → parameter index
	for i, p := range fn.Params {
		pnode[fmt.Sprintf("v:%p", ssa.Value(p))] = i
		pnode["L:"+c.key(p, nil)] = i
	}
	// a requirement whose left side is a local value can be replaced by a stronger one over
	// parameters: a ≤ y + d is known, so y + d ≤ b − strict suffices
	for i, r := range rest {
		if _, ok := pnode[r.a.node]; ok || r.a.node == "Z" {
			continue
		}
		ai, ok := g.idx[r.a.node]
		if !ok {
			continue
		}
		var cands []string
		for y := range pnode {
			if _, in := g.idx[y]; in {
				cands = append(cands, y)
			}
		}
		sort.Strings(cands)
		for _, y := range cands {
			if d := g.d[ai][g.idx[y]]; d < ivInf {
				rest[i] = ivReq{desc: r.desc, a: ivTerm{node: y, off: d + r.a.off}, b: r.b, strict: r.strict}
				break
			}
		}
	}
	// the same on the right side: b ≥ y − d is known, so a ≤ y − d − strict suffices
	for i, r := range rest {
		if _, ok := pnode[r.b.node]; ok || r.b.node == "Z" {
			continue
		}
		bi, ok := g.idx[r.b.node]
		if !ok {
			continue
		}
		var cands []string
		for y := range pnode {
			if _, in := g.idx[y]; in {
				cands = append(cands, y)
			}
		}
		sort.Strings(cands)
		for _, y := range cands {
			if d := g.d[g.idx[y]][bi]; d < ivInf {
				rest[i] = ivReq{desc: r.desc, a: r.a, b: ivTerm{node: y, off: -d + r.b.off}, strict: r.strict}
				break
			}
		}
	}
	for _, r := range rest {
		for _, t := range []ivTerm{r.a, r.b} {
			if t.node == "Z" {
				continue
			}
			if _, ok := pnode[t.node]; !ok {
				return rest, ""
			}
		}
	}
	node := c.w.CallGraph().Nodes[fn]
	if node == nil {
		return rest, ""
	}
	var names []string
	callers := 0
	for _, e := range node.In {
		if e.Site == nil {
			continue
		}
		if e.Site.Common().StaticCallee() != fn {
			return rest, "" // reached dynamically: callers cannot be enumerated
		}
		caller := e.Caller.Func
		if caller == nil || caller == fn {
			continue
		}
		callers++
		args := e.Site.Common().Args
		tr := func(t ivTerm) ivTerm {
			if t.node == "Z" {
				return t
			}
			i := pnode[t.node]
			if strings.HasPrefix(t.node, "L:") {
				return ivTerm{node: "L:" + c.key(args[i], nil), off: t.off}
			}
			at := c.term(args[i], nil, 0)
			return ivTerm{node: at.node, off: at.off + t.off}
		}
		var creqs []ivReq
		for _, r := range rest {
			creqs = append(creqs, ivReq{desc: r.desc, a: tr(r.a), b: tr(r.b), strict: r.strict})
		}
		var cints, cbases []ssa.Value
		for _, a := range args {
			if isIntType(a.Type()) {
				cints = append(cints, a)
			} else if _, ok := a.Type().Underlying().(*types.Slice); ok {
				cbases = append(cbases, a)
			}
		}
		left, _ := c.discharge(caller, e.Site.(ssa.Instruction).Block(), creqs, cints, cbases, depth+1)
		if len(left) > 0 {
			return rest, ""
		}
		names = append(names, fnKey(caller))
	}
	if callers == 0 {
		return rest, ""
	}
	sort.Strings(names)
	return nil, strings.Join(names, ", ")
}

func newIvCtx(w *World) *ivCtx {
	return &ivCtx{w: w, ix: &ixCtx{w: w, pure: map[*ssa.Function]int8{}, predSumm: map[*ssa.Function]map[string]int{}, inProg: map[*ssa.Function]bool{}}, summ: map[*ssa.Function]*ivSummary{}, inProg: map[*ssa.Function]bool{}, fieldNN: map[string]bool{}, eqLen: map[*ssa.Function][][2]int{}, stable: map[string]bool{}}
}

// satisfiable: the difference constraints have a solution (no negative cycle).
func ivSatisfiable(cons []ivCons) bool {
	g := newIvGraph()
	for _, k := range cons {
		g.add(k.x, k.y, k.c)
	}
	g.close()
	for i := range g.d {
		if g.d[i][i] < 0 {
			return false
		}
	}
	return true
}

func engineIV(w *World, tier string) *EngineResult {
	r := newResult("IV", "every index / slice expression on a slice or string whose position is not a constant is in bounds: 0 ≤ i < len, 0 ≤ low ≤ high ≤ len follow — by shortest paths in a difference-constraint graph — from the branch edges that dominate the site, from summaries of boolean helper functions (constraints over their parameters per result value), from structural facts (counters that only grow, lengths of made / re-sliced / step-wise appended slices), or from the same facts at every static caller when the missing part is stated over parameters")
	c := &ivCtx{w: w, ix: &ixCtx{w: w, pure: map[*ssa.Function]int8{}, predSumm: map[*ssa.Function]map[string]int{}, inProg: map[*ssa.Function]bool{}}, summ: map[*ssa.Function]*ivSummary{}, inProg: map[*ssa.Function]bool{}, fieldNN: map[string]bool{}, eqLen: map[*ssa.Function][][2]int{}, stable: map[string]bool{}}
	n := 0
	for _, fn := range w.Funcs {
		switch pkgShort(fn) {
		case "cmd/rbs2json", "cmd/c2json":
			continue
		}
		ord := map[string]int{}
		for _, s := range c.sitesOf(fn) {
			if s.what == "index" && isRangeIndexOf(s.idx, s.base) {
				continue
			}
			if c.ixHandles(s) {
				continue
			}
			if sortLessIndex(fn, s) {
				continue
			}
			n++
			src := w.bracketExprAt(instrPos(s.ins))
			if src == "" {
				src = s.what + " of " + c.ix.exprKey(s.base, nil, 0)
			}
			construct := src
			ord[construct]++
			if ord[construct] > 1 {
				construct = fmt.Sprintf("%s#%d", construct, ord[construct])
			}
			pos := w.pos(instrPos(s.ins))
			unmet, via := c.discharge(fn, s.ins.Block(), c.requirements(s, nil), []ssa.Value{s.idx, s.lo, s.hi}, []ssa.Value{s.base}, 0)
			if len(unmet) == 0 {
				d := "in bounds by the dominating comparisons / helper summaries / structural facts"
				if via != "" {
					d += "; the part stated over parameters holds at every static caller (" + via + ")"
				}
				r.holds("IX-var", fnKey(fn), construct, d, pos)
				continue
			}
			okey := "IX-var|" + fnKey(fn) + "|" + construct
			if why, ok := ivReviewed[okey]; ok {
				r.Reviewed[okey] = why
				r.add(Obligation{Rule: "IX-var", Func: fnKey(fn), Construct: construct, Verdict: Holds, Detail: "reviewed exception", Pos: pos, Reviewed: why})
				continue
			}
			var ds []string
			for _, u := range unmet {
				ds = append(ds, u.desc)
			}
			r.violated("IX-var", fnKey(fn), construct, "not established on every path to this expression: "+strings.Join(ds, ", "), pos)
		}
	}
	r.Stats["variable_position_sites"] = n
	r.floor("variable_position_sites", 30)
	for k := range ivReviewed {
		if _, used := r.Reviewed[k]; !used {
			r.Notes = append(r.Notes, "reviewed entry without a matching site (stale): "+k)
		}
	}
	r.finish()
	return r
}

var ivReviewed = map[string]string{
	"IX-var|base.(*T).AppendVariant|newVariants[targetTVariantIdx]":   ivAppendVariantWhy,
	"IX-var|base.(*T).AppendVariant|newVariants[targetTVariantIdx]#2": ivAppendVariantWhy,
	"IX-var|base.(*T).AppendVariant|newVariants[targetTVariantIdx]#3": ivAppendVariantWhy,
	"IX-var|base.(*T).AppendVariant|newVariants[targetTVariantIdx]#4": ivAppendVariantWhy,
	"IX-var|base.(*T).AppendVariant|newVariants[targetTVariantIdx]#5": ivAppendVariantWhy,
	"IX-var|eval.(*Bind).handleMultipleToMultipleAsigntment|rightTs.GetVariants()[rightIdx]#3": "inside the inner loop rightIdx ≤ rightLen − len(leftTs[leftIdx:]) (the break above), and len(leftTs[leftIdx:]) ≥ 1 because the outer loop left when leftIdx + 1 > len(leftTs); so rightIdx ≤ rightLen − 1. The argument needs len(s[a:]) = len(s) − a, a three-variable fact outside the difference-constraint domain — read, not decided",
}

const ivAppendVariantWhy = "loop invariant len(newVariants) ≥ targetTVariantIdx at the head of the range loop: it holds for index 0; in the body `if idx >= len(nv) { nv = append(nv, x) }` makes len(nv) ≥ idx + 1 (with the invariant the test is len == idx, one append suffices), nothing in the body shrinks nv, and the next index is idx + 1. An inductive invariant over a loop-carried slice is outside the dominating-facts domain — read, not decided"

// ixHandles: all positions are constants or len(base) − k: engine IX decides those.
func (c *ivCtx) ixHandles(s ivSite) bool {
	L := "L:" + c.key(s.base, nil)
	for _, v := range []ssa.Value{s.idx, s.lo, s.hi} {
		if v == nil {
			continue
		}
		t := c.term(v, nil, 0)
		if t.node == "Z" || (t.node == L && t.off <= 0) {
			continue
		}
		return false
	}
	return true
}

// sortLessIndex: x[i] inside the less function handed to sort.Slice(x, less): the sort
// package only passes positions of x.
func sortLessIndex(fn *ssa.Function, s ivSite) bool {
	if fn.Parent() == nil || len(fn.Params) != 2 {
		return false
	}
	if s.idx != ssa.Value(fn.Params[0]) && s.idx != ssa.Value(fn.Params[1]) {
		return false
	}
	var fv *ssa.FreeVar
	switch b := s.base.(type) {
	case *ssa.UnOp:
		fv, _ = b.X.(*ssa.FreeVar)
	case *ssa.FreeVar:
		fv = b
	}
	if fv == nil {
		return false
	}
	for _, b := range fn.Parent().Blocks {
		for _, ins := range b.Instrs {
			call, ok := ins.(*ssa.Call)
			if !ok {
				continue
			}
			cal := call.Call.StaticCallee()
			if cal == nil || cal.Pkg == nil || cal.Pkg.Pkg.Path() != "sort" || len(call.Call.Args) != 2 {
				continue
			}
			mc, ok := call.Call.Args[1].(*ssa.MakeClosure)
			if !ok || mc.Fn != ssa.Value(fn) {
				continue
			}
			return true
		}
	}
	return false
}
