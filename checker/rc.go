package main

// RC — rows are counted where runes are consumed.

import (
	"fmt"
	"go/types"
	"strings"

	"golang.org/x/tools/go/ssa"
)

func engineRC(w *World, tier string) *EngineResult {
	r := newResult("RC", "(RC1) the lexer conserves newlines: from every rune-read site of package lexer, on every feasible path where that read yields '\\n', the newline is un-read, stored as the token kind, or written into the buffer of a string token before the next rune is read or the function returns; (RC2) every store to the parser's row counter is dominated, in the same function, by the call that advances the lexer (rows move once per consumed token, not once per delivered token); (RC3) every store to the diagnostic row outside the advancing function restores a value read from it earlier in the same function")
	rc1(w, r)
	rc23(w, r)
	r.finish()
	return r
}

func rc1(w *World, r *EngineResult) {
	a := newAE(w, envNone, "quick")
	lp := w.Pkg("lexer")
	if lp == nil {
		r.undecided("RC1", "lexer", "anchors", "unresolved anchor: package lexer", "-")
		return
	}
	tokField := -1
	if st, ok := lookupObj(lp, "Lexer").Type().Underlying().(*types.Struct); ok {
		for i := 0; i < st.NumFields(); i++ {
			if types.Identical(st.Field(i).Type(), types.Typ[types.Rune]) && tokField < 0 {
				tokField = i
			}
		}
	}
	// un-read: parameterless, resultless methods of *LexerReader
	isUnread := func(fn *ssa.Function) bool {
		if fn == nil || fn.Signature.Recv() == nil || !isPtrToNamed(fn.Signature.Recv().Type(), modulePath+"/lexer/reader", "LexerReader") {
			return false
		}
		return fn.Signature.Params().Len() == 0 && fn.Signature.Results().Len() == 0
	}
	// history push: method of *LexerReader taking a rune
	isPush := func(fn *ssa.Function) bool {
		if fn == nil || fn.Signature.Recv() == nil || !isPtrToNamed(fn.Signature.Recv().Type(), modulePath+"/lexer/reader", "LexerReader") {
			return false
		}
		return fn.Signature.Params().Len() == 1 && types.Identical(fn.Signature.Params().At(0).Type(), types.Typ[types.Rune])
	}
	nSites := 0
	for _, fn := range w.Funcs {
		if pkgShort(fn) != "lexer" {
			continue
		}
		ord := 0
		for _, b0 := range fn.Blocks {
			for i0, ins0 := range b0.Instrs {
				c0, ok := ins0.(*ssa.Call)
				if !ok || !a.isRuneReader(c0.Call.StaticCallee()) {
					continue
				}
				nSites++
				ord++
				construct := fmt.Sprintf("rune read#%d", ord)
				pos := w.pos(instrPos(c0))
				fr := newFrame(fn, 20000)
				var bad []string
				visited := map[string]bool{}
				var walk func(b, pred *ssa.BasicBlock, e aenv, start int)
				walk = func(b, pred *ssa.BasicBlock, e aenv, start int) {
					if len(bad) > 0 {
						return
					}
					e = e.clone()
					i := start
					if start == 0 {
						for ; i < len(b.Instrs); i++ {
							if ph, ok := b.Instrs[i].(*ssa.Phi); ok {
								a.phi(ph, pred, e)
								continue
							}
							break
						}
					}
					k := fmt.Sprintf("%d.%d|%s", b.Index, start, a.digestAt(b, e))
					if visited[k] {
						return
					}
					visited[k] = true
					for ; i < len(b.Instrs); i++ {
						ins := b.Instrs[i]
						switch x := ins.(type) {
						case *ssa.Call:
							cal := x.Call.StaticCallee()
							if x == c0 && start > 0 || (x == c0 && i == i0 && b == b0 && len(visited) == 1) {
								e[x] = vInt('\n')
								continue
							}
							if a.isRuneReader(cal) {
								bad = append(bad, "the next rune is read at "+w.pos(instrPos(x))+" while the newline is neither un-read, emitted nor kept")
								return
							}
							if isUnread(cal) {
								return // accepted: the newline will be delivered again
							}
							if isPush(cal) && len(x.Call.Args) == 2 {
								if v := a.get(e, x.Call.Args[1]); v.k == kInt && v.i == '\n' {
									return // pushed back through the history buffer
								}
							}
							if cal != nil && cal.String() == "(*strings.Builder).WriteRune" && len(x.Call.Args) == 2 {
								if v := a.get(e, x.Call.Args[1]); v.k == kInt && v.i == '\n' {
									return // kept in the token text (string literals): counted at delivery
								}
							}
							// calls of lexer helpers with the newline as argument: continue inside? keep simple:
							if cal != nil && pkgShort(cal) == "lexer" && len(cal.Blocks) > 0 && cal.Signature.Recv() != nil {
								// a helper that receives the rune: it must be one of the accepting shapes itself
								passes := false
								for _, arg := range x.Call.Args {
									if v := a.get(e, arg); v.k == kInt && v.i == '\n' {
										passes = true
									}
								}
								if passes {
									bad = append(bad, "the newline is handed to "+fnKey(cal)+" at "+w.pos(instrPos(x))+": not followed (treated as swallowed)")
									return
								}
								if a.reads(cal, 0) {
									bad = append(bad, "helper "+fnKey(cal)+" reads further runes at "+w.pos(instrPos(x))+" while the newline is pending")
									return
								}
							}
							if dead := a.step(fr, ins, e); dead {
								return
							}
						case *ssa.Store:
							if fa, ok := x.Addr.(*ssa.FieldAddr); ok && fa.Field == tokField && isNamed(fa.X.Type(), modulePath+"/lexer", "Lexer") {
								if v := a.get(e, x.Val); v.k == kInt && v.i == '\n' {
									return // emitted as the newline token
								}
							}
						case *ssa.Return:
							bad = append(bad, "the function returns at "+w.pos(instrPos(x))+" with the newline consumed and not accounted for")
							return
						case *ssa.If:
							c := a.get(e, x.Cond)
							if c.k != kBool {
								// comparison of a known rune with a parameter whose possible values
								// (constants at every call site, from the dominating case labels) are known
								if bo, ok := x.Cond.(*ssa.BinOp); ok && (bo.Op.String() == "==" || bo.Op.String() == "!=") {
									for _, pr := range [][2]ssa.Value{{bo.X, bo.Y}, {bo.Y, bo.X}} {
										v := a.get(e, pr[0])
										prm, isP := pr[1].(*ssa.Parameter)
										if v.k != kInt || !isP {
											continue
										}
										if set, ok := paramConstSet(w, fn, prm); ok && !set[v.i] {
											c = vBool(bo.Op.String() == "!=")
										}
									}
								}
							}
							if c.k == kBool {
								if c.b {
									walk(b.Succs[0], b, e, 0)
								} else {
									walk(b.Succs[1], b, e, 0)
								}
							} else {
								walk(b.Succs[0], b, e, 0)
								walk(b.Succs[1], b, e, 0)
							}
							return
						case *ssa.Jump:
							walk(b.Succs[0], b, e, 0)
							return
						case *ssa.Panic:
							return
						default:
							if dead := a.step(fr, ins, e); dead {
								return
							}
						}
					}
				}
				// one walk per calling context: the constants the call sites pass for the
				// parameters (a follower set, a rule) decide which way the tests go
				for _, ctx := range constContexts(w, fn) {
					e0 := aenv{}
					for p, v := range ctx {
						e0[p] = v
					}
					e0[c0] = vInt('\n')
					visited = map[string]bool{}
					walk(b0, nil, e0, i0+1)
					if len(bad) > 0 {
						break
					}
				}
				if len(bad) > 0 {
					r.violated("RC1", fnKey(fn), construct, "a newline read here can be swallowed: "+strings.Join(bad, "; ")+" — every later row would be off by one", pos)
				} else {
					r.holds("RC1", fnKey(fn), construct, "on every path the newline is un-read, emitted as the newline token, or kept in a string buffer", pos)
				}
			}
		}
	}
	r.Stats["lexer_rune_read_sites"] = nSites
	r.floor("lexer_rune_read_sites", 18)
}

func rc23(w *World, r *EngineResult) {
	pp := w.Pkg("parser")
	if pp == nil {
		r.undecided("RC2", "parser", "anchors", "unresolved anchor: package parser", "-")
		return
	}
	st, _ := lookupObj(pp, "Parser").Type().Underlying().(*types.Struct)
	if st == nil {
		r.undecided("RC2", "parser", "Parser", "unresolved anchor: Parser struct", "-")
		return
	}
	// row counter: the int field incremented by 1 in the function that calls the lexer's
	// token source; diagnostic row: the int field assigned from the row counter there.
	var advFn *ssa.Function
	rowIdx, errRowIdx := -1, -1
	isLexAdvance := func(cal *ssa.Function) bool {
		if cal == nil || cal.Signature.Recv() == nil || !isPtrToNamed(cal.Signature.Recv().Type(), modulePath+"/lexer", "Lexer") {
			return false
		}
		if cal.Signature.Params().Len() != 0 || cal.Signature.Results().Len() != 1 {
			return false
		}
		b, ok := cal.Signature.Results().At(0).Type().Underlying().(*types.Basic)
		return ok && b.Kind() == types.Bool
	}
	for _, fn := range w.Funcs {
		if pkgShort(fn) != "parser" {
			continue
		}
		calls := false
		for _, b := range fn.Blocks {
			for _, ins := range b.Instrs {
				if c, ok := ins.(*ssa.Call); ok && isLexAdvance(c.Call.StaticCallee()) {
					calls = true
				}
			}
		}
		if !calls {
			continue
		}
		advFn = fn
	}
	// the advance region: the advancing function and the helpers that only run as part of
	// it, after the lexer call (bookkeeping extracted into a function of its own)
	afterAdvance := func(site ssa.Instruction) bool {
		fn := site.Parent()
		for _, b2 := range fn.Blocks {
			for _, i2 := range b2.Instrs {
				if c, ok := i2.(*ssa.Call); ok && isLexAdvance(c.Call.StaticCallee()) {
					if b2 == site.Block() {
						for _, i3 := range b2.Instrs {
							if i3 == i2 {
								return true
							}
							if i3 == site {
								break
							}
						}
					} else if b2.Dominates(site.Block()) {
						return true
					}
				}
			}
		}
		return false
	}
	region := map[*ssa.Function]bool{}
	if advFn != nil {
		region[advFn] = true
		cg := w.CallGraph()
		for changed := true; changed; {
			changed = false
			for _, fn := range w.Funcs {
				if region[fn] || pkgShort(fn) != "parser" {
					continue
				}
				n := cg.Nodes[fn]
				if n == nil || len(n.In) == 0 {
					continue
				}
				all := true
				for _, in := range n.In {
					caller := in.Caller.Func
					if !region[caller] || (caller == advFn && !afterAdvance(in.Site)) {
						all = false
					}
				}
				if all {
					region[fn] = true
					changed = true
				}
			}
		}
	}
	for fn := range region {
		for _, b := range fn.Blocks {
			for _, ins := range b.Instrs {
				s, ok := ins.(*ssa.Store)
				if !ok {
					continue
				}
				fa, ok := s.Addr.(*ssa.FieldAddr)
				if !ok || !isNamed(fa.X.Type(), modulePath+"/parser", "Parser") {
					continue
				}
				if bo, ok := s.Val.(*ssa.BinOp); ok && bo.Op.String() == "+" {
					if k, ok := bo.Y.(*ssa.Const); ok && constVal(k).k == kInt && constVal(k).i == 1 {
						rowIdx = fa.Field
					}
				}
			}
		}
	}
	for fn := range region {
		for _, b := range fn.Blocks {
			for _, ins := range b.Instrs {
				s, ok := ins.(*ssa.Store)
				if !ok {
					continue
				}
				fa, ok := s.Addr.(*ssa.FieldAddr)
				if !ok || !isNamed(fa.X.Type(), modulePath+"/parser", "Parser") || fa.Field == rowIdx {
					continue
				}
				if u, ok := s.Val.(*ssa.UnOp); ok {
					if f2, ok := u.X.(*ssa.FieldAddr); ok && f2.Field == rowIdx {
						errRowIdx = fa.Field
					}
				}
			}
		}
	}
	if advFn == nil || rowIdx < 0 || errRowIdx < 0 {
		r.undecided("RC2", "parser", "row fields", "unresolved anchor: function advancing the lexer / row counter / diagnostic row", "-")
		return
	}
	rowName, errName := st.Field(rowIdx).Name(), st.Field(errRowIdx).Name()
	n2, n3 := 0, 0
	for _, fn := range w.Funcs {
		ps := pkgShort(fn)
		if ps == "cmd/rbs2json" || ps == "cmd/c2json" {
			continue
		}
		o2, o3 := 0, 0
		for _, b := range fn.Blocks {
			for _, ins := range b.Instrs {
				s, ok := ins.(*ssa.Store)
				if !ok {
					continue
				}
				fa, ok := s.Addr.(*ssa.FieldAddr)
				if !ok || !isNamed(fa.X.Type(), modulePath+"/parser", "Parser") {
					continue
				}
				if _, fresh := fa.X.(*ssa.Alloc); fresh {
					continue // constructor literal
				}
				pos := w.pos(instrPos(s))
				switch fa.Field {
				case rowIdx:
					n2++
					o2++
					construct := fmt.Sprintf("store to %s#%d", rowName, o2)
					dominated := false
					for _, b2 := range fn.Blocks {
						for _, i2 := range b2.Instrs {
							if c, ok := i2.(*ssa.Call); ok && isLexAdvance(c.Call.StaticCallee()) {
								if b2 == b || b2.Dominates(b) {
									dominated = true
								}
							}
						}
					}
					if !dominated && fn != advFn && region[fn] {
						r.holds("RC2", fnKey(fn), construct, "in a helper that only runs as part of the token advance, after the lexer call: counted once per consumed token", pos)
						continue
					}
					if dominated {
						r.holds("RC2", fnKey(fn), construct, "in the function that advances the lexer, after the advance: counted once per consumed token", pos)
					} else {
						r.violated("RC2", fnKey(fn), construct, "the row counter is changed outside the token advance (in a function that also runs when a token is re-delivered after Unget): rows can be counted twice or, with compensation heuristics, not at all", pos)
					}
				case errRowIdx:
					if region[fn] {
						continue
					}
					n3++
					o3++
					construct := fmt.Sprintf("store to %s#%d", errName, o3)
					// the stored value must be a load of the same field earlier in the function
					restores := false
					var chase func(v ssa.Value, d int) bool
					chase = func(v ssa.Value, d int) bool {
						if d > 4 {
							return false
						}
						switch x := v.(type) {
						case *ssa.UnOp:
							if f2, ok := x.X.(*ssa.FieldAddr); ok && f2.Field == errRowIdx && isNamed(f2.X.Type(), modulePath+"/parser", "Parser") {
								return true
							}
							if al, ok := x.X.(*ssa.Alloc); ok {
								for _, ref := range *al.Referrers() {
									if st2, ok := ref.(*ssa.Store); ok && st2.Addr == ssa.Value(al) && chase(st2.Val, d+1) {
										return true
									}
								}
							}
						case *ssa.Phi:
							for _, e := range x.Edges {
								if !chase(e, d+1) {
									return false
								}
							}
							return len(x.Edges) > 0
						}
						return false
					}
					restores = chase(s.Val, 0)
					if restores {
						r.holds("RC3", fnKey(fn), construct, "restores a value read from the same field earlier in the function", pos)
					} else {
						r.violated("RC3", fnKey(fn), construct, "the diagnostic row is set to a value that is not a saved copy of itself: diagnostics of the statement move to another row", pos)
					}
				}
			}
		}
	}
	r.Stats["row_counter_stores"] = n2
	r.Stats["diagnostic_row_restores"] = n3
	r.floor("row_counter_stores", 1)
	r.floor("diagnostic_row_restores", 1)
}

// paramConstSet: the constants a parameter can hold, when at every call site the
// argument is a constant or a value whose dominating `x == c` true edges (switch case
// labels) enumerate its possible values.
func paramConstSet(w *World, fn *ssa.Function, prm *ssa.Parameter) (map[int64]bool, bool) {
	pi := -1
	for i, p := range fn.Params {
		if p == prm {
			pi = i
		}
	}
	if pi < 0 {
		return nil, false
	}
	cg := w.CallGraph()
	n := cg.Nodes[fn]
	if n == nil || len(n.In) == 0 {
		return nil, false
	}
	out := map[int64]bool{}
	for _, in := range n.In {
		args := in.Site.Common().Args
		if pi >= len(args) {
			return nil, false
		}
		arg := args[pi]
		if k, ok := arg.(*ssa.Const); ok {
			if cv := constVal(k); cv.k == kInt {
				out[cv.i] = true
				continue
			}
			return nil, false
		}
		// case labels: the call's block is reached only through true edges of arg == c
		site := in.Site.(ssa.Instruction)
		vals := map[int64]bool{}
		var collect func(b *ssa.BasicBlock, depth int) bool
		collect = func(b *ssa.BasicBlock, depth int) bool {
			if depth > 12 || len(b.Preds) == 0 {
				return false
			}
			for _, p := range b.Preds {
				iff, ok := p.Instrs[len(p.Instrs)-1].(*ssa.If)
				if ok && p.Succs[0] == b {
					if bo, ok := iff.Cond.(*ssa.BinOp); ok && bo.Op.String() == "==" && bo.X == arg {
						if k, ok := bo.Y.(*ssa.Const); ok {
							if cv := constVal(k); cv.k == kInt {
								vals[cv.i] = true
								continue
							}
						}
					}
				}
				// a plain jump from a case-body join: follow it
				if _, isJump := p.Instrs[len(p.Instrs)-1].(*ssa.Jump); isJump && len(p.Instrs) == 1 {
					if !collect(p, depth+1) {
						return false
					}
					continue
				}
				return false
			}
			return true
		}
		if !collect(site.Block(), 0) || len(vals) == 0 {
			return nil, false
		}
		for v := range vals {
			out[v] = true
		}
	}
	return out, true
}


// constContexts: the bindings of fn's parameters to constants, one per call site, for the
// parameters that receive a constant there. A function without callers in the module, or
// with a caller that is not a static call, gets the single empty context as well.
func constContexts(w *World, fn *ssa.Function) []map[ssa.Value]Val {
	empty := []map[ssa.Value]Val{{}}
	n := w.CallGraph().Nodes[fn]
	if n == nil || len(n.In) == 0 {
		return empty
	}
	seen := map[string]bool{}
	var out []map[ssa.Value]Val
	for _, in := range n.In {
		site, ok := in.Site.(*ssa.Call)
		if !ok || site.Call.StaticCallee() != fn {
			return empty
		}
		ctx := map[ssa.Value]Val{}
		var parts []string
		for i, p := range fn.Params {
			if i >= len(site.Call.Args) {
				continue
			}
			if k, ok := site.Call.Args[i].(*ssa.Const); ok {
				if v := constVal(k); v.k == kInt || v.k == kStr || v.k == kBool {
					ctx[p] = v
					parts = append(parts, fmt.Sprintf("%d=%s", i, v))
				}
			}
		}
		key := strings.Join(parts, ",")
		if !seen[key] {
			seen[key] = true
			out = append(out, ctx)
		}
		if len(out) > 12 {
			return empty
		}
	}
	return out
}
