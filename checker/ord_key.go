package main

import (
	"go/ast"
	"go/token"
	"go/types"
	"regexp"
)

// ORD-key (C24, C27): the two halves of a qualified name come from one object. Wherever a
// string is concatenated from a frame accessor immediately followed (string literals such as
// "::" aside) by a class accessor — the shape of every key of the frame-qualified tables —
// both accessors must be applied to the same receiver. A key that pairs the frame of one
// object (say, the calling context) with the class of another (the receiver of a call) names
// no object at all as soon as the two live in different frames.
var (
	frameAccessorRe = regexp.MustCompile(`^(Get)?Frame$`)
	classAccessorRe = regexp.MustCompile(`^(Get)?(Object)?Class$`)
)

func ordKey(w *World, r *EngineResult) {
	n := 0
	for _, p := range w.Pkgs {
		info := p.TypesInfo
		for _, file := range p.Syntax {
			var stack []ast.Node
			ast.Inspect(file, func(nd ast.Node) bool {
				if nd == nil {
					stack = stack[:len(stack)-1]
					return true
				}
				stack = append(stack, nd)
				be, ok := nd.(*ast.BinaryExpr)
				if !ok || be.Op != token.ADD {
					return true
				}
				if len(stack) >= 2 {
					if pb, ok := stack[len(stack)-2].(*ast.BinaryExpr); ok && pb.Op == token.ADD && pb.X == be {
						return true // not the top of the chain
					}
				}
				if tv, ok := info.Types[be]; !ok || !isStringType(tv.Type) {
					return true
				}
				var body *ast.BlockStmt
				var fname string
				for i := len(stack) - 1; i >= 0; i-- {
					if fd, ok := stack[i].(*ast.FuncDecl); ok {
						body = fd.Body
						if obj, ok := info.Defs[fd.Name].(*types.Func); ok {
							if sf := w.fnOf[obj]; sf != nil {
								fname = fnKey(sf)
							}
						}
						break
					}
				}
				if fname == "" {
					return true
				}
				var ops []ast.Expr
				var flat func(e ast.Expr)
				flat = func(e ast.Expr) {
					e = ast.Unparen(e)
					if b, ok := e.(*ast.BinaryExpr); ok && b.Op == token.ADD {
						flat(b.X)
						flat(b.Y)
						return
					}
					ops = append(ops, e)
				}
				flat(be)
				type acc struct {
					recv string
					root types.Object
					ok   bool
				}
				classify := func(e ast.Expr, re *regexp.Regexp) acc {
					e = singleDef(info, body, e)
					var sel *ast.SelectorExpr
					switch x := e.(type) {
					case *ast.CallExpr:
						if len(x.Args) != 0 {
							return acc{}
						}
						sel, _ = x.Fun.(*ast.SelectorExpr)
					case *ast.SelectorExpr:
						sel = x
					}
					if sel == nil || !re.MatchString(sel.Sel.Name) {
						return acc{}
					}
					recv := singleDef(info, body, sel.X)
					a := acc{recv: types.ExprString(recv), ok: true}
					rt := recv
					for {
						switch y := ast.Unparen(rt).(type) {
						case *ast.SelectorExpr:
							rt = y.X
							continue
						case *ast.CallExpr:
							if s2, ok := y.Fun.(*ast.SelectorExpr); ok {
								rt = s2.X
								continue
							}
						case *ast.StarExpr:
							rt = y.X
							continue
						case *ast.Ident:
							a.root = info.ObjectOf(y)
						}
						break
					}
					return a
				}
				for i := 0; i < len(ops); i++ {
					fa := classify(ops[i], frameAccessorRe)
					if !fa.ok {
						continue
					}
					j := i + 1
					for j < len(ops) {
						if bl, ok := ops[j].(*ast.BasicLit); ok && bl.Kind == token.STRING {
							j++
							continue
						}
						break
					}
					if j >= len(ops) {
						continue
					}
					ca := classify(ops[j], classAccessorRe)
					if !ca.ok {
						continue
					}
					n++
					construct := "qualified name " + types.ExprString(ops[i]) + " + " + types.ExprString(ops[j])
					pos := w.pos(be.Pos())
					if fa.recv == ca.recv && fa.root == ca.root {
						r.holds("ORD-key", fname, construct, "frame and class are read from the same object ("+fa.recv+")", pos)
					} else {
						r.violated("ORD-key", fname, construct, "the frame is read from "+fa.recv+" but the class from "+ca.recv+": the concatenation names an object only while both live in the same frame", pos)
					}
				}
				return true
			})
		}
	}
	r.Stats["qualified_name_concatenations"] = n
	r.floor("qualified_name_concatenations", 1)
}

func isStringType(t types.Type) bool {
	b, ok := t.Underlying().(*types.Basic)
	return ok && b.Info()&types.IsString != 0
}

// singleDef: an identifier that is defined once (`x := e`) in body and never assigned again
// stands for e.
func singleDef(info *types.Info, body *ast.BlockStmt, e ast.Expr) ast.Expr {
	for depth := 0; depth < 4; depth++ {
		id, ok := ast.Unparen(e).(*ast.Ident)
		if !ok || body == nil {
			return e
		}
		obj := info.ObjectOf(id)
		if obj == nil {
			return e
		}
		var def ast.Expr
		writes := 0
		ast.Inspect(body, func(n ast.Node) bool {
			switch x := n.(type) {
			case *ast.AssignStmt:
				for k, l := range x.Lhs {
					li, ok := l.(*ast.Ident)
					if !ok || info.ObjectOf(li) != obj {
						continue
					}
					writes++
					if x.Tok == token.DEFINE && len(x.Lhs) == len(x.Rhs) {
						def = x.Rhs[k]
					}
				}
			case *ast.IncDecStmt:
				if li, ok := x.X.(*ast.Ident); ok && info.ObjectOf(li) == obj {
					writes++
				}
			case *ast.UnaryExpr:
				if x.Op == token.AND {
					if li, ok := x.X.(*ast.Ident); ok && info.ObjectOf(li) == obj {
						writes++
					}
				}
			}
			return true
		})
		if writes != 1 || def == nil {
			return e
		}
		e = def
	}
	return e
}
