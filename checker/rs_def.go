package main

import (
	"fmt"
	"os"
	"go/constant"
	"go/types"

	"golang.org/x/tools/go/ssa"
)

// RS-def (C18, C11): the type a definition records never depends on what was evaluated
// before the definition. In the methods of the evaluator registered under the keyword
// "def", every read of the parser's last evaluated value that happens after the evaluator
// has started reading tokens is preceded, on every path from the evaluator's entry, by a
// definite write of that value made by the evaluator itself (a call of the parser's
// publish setter in its own methods; what sub-evaluations may or may not write does not
// count). Otherwise a body that leaves the value untouched (`def f = ()`) takes the type of
// the previous statement — another file's, when files are concatenated.
func rsDef(w *World, r *EngineResult) {
	// the type registered under "def"
	var defType *types.Named
	for _, fn := range w.Funcs {
		for _, b := range fn.Blocks {
			for _, ins := range b.Instrs {
				mu, ok := ins.(*ssa.MapUpdate)
				if !ok {
					continue
				}
				k, ok := mu.Key.(*ssa.Const)
				if !ok || k.Value == nil || k.Value.Kind() != constant.String || constant.StringVal(k.Value) != "def" {
					continue
				}
				v := mu.Value
				if mi, ok := v.(*ssa.MakeInterface); ok {
					v = mi.X
				}
				t := v.Type()
				if c, ok := v.(*ssa.Call); ok {
					// constructor returning the interface: look inside
					if cal := c.Call.StaticCallee(); cal != nil {
						for _, cb := range cal.Blocks {
							if rt, ok := cb.Instrs[len(cb.Instrs)-1].(*ssa.Return); ok && len(rt.Results) == 1 {
								if mi, ok := rt.Results[0].(*ssa.MakeInterface); ok {
									t = mi.X.Type()
								}
							}
						}
					}
				}
				if n := namedOf(t); n != nil {
					defType = n
				}
			}
		}
	}
	if defType == nil {
		r.undecided("RS-def", "eval", "definition evaluator", "unresolved anchor: evaluator registered under the keyword \"def\"", "-")
		return
	}
	isGetter := func(f *ssa.Function) bool {
		if f == nil || f.Signature.Recv() == nil || !isPtrToNamed(f.Signature.Recv().Type(), modulePath+"/parser", "Parser") {
			return false
		}
		if f.Signature.Params().Len() != 0 || f.Signature.Results().Len() != 1 {
			return false
		}
		return isNamed(f.Signature.Results().At(0).Type(), modulePath+"/base", "T") && !isPtrToNamed(f.Signature.Results().At(0).Type(), modulePath+"/base", "T")
	}
	a := newAE(w, envNone, "quick")
	own := map[*ssa.Function]bool{}
	var entry *ssa.Function
	for _, fn := range w.Funcs {
		if fn.Signature.Recv() == nil || fn.Parent() != nil {
			continue
		}
		if n := namedOf(fn.Signature.Recv().Type()); n != nil && n.Obj() == defType.Obj() {
			own[fn] = true
			// the method the registry interface declares
			for _, reg := range findRegistries(w) {
				if it, ok := reg.iface.Underlying().(*types.Interface); ok {
					for i := 0; i < it.NumMethods(); i++ {
						if it.Method(i).Name() == fn.Name() && types.Implements(fn.Signature.Recv().Type(), it) {
							entry = fn
						}
					}
				}
			}
		}
	}
	if entry == nil {
		r.undecided("RS-def", "eval", "definition evaluator", "unresolved anchor: the Evaluation method of "+defType.Obj().Name(), "-")
		return
	}
	// mustWrite[f]: every path through f passes a definite write
	mustWrite := map[*ssa.Function]int8{}
	var mw func(f *ssa.Function, depth int) bool
	isWriteCall := func(c *ssa.Call, depth int) bool {
		cal := c.Call.StaticCallee()
		if cal == nil {
			return false
		}
		if isPublishSetter(cal) {
			if os.Getenv("VERIF_DEBUG") == "rsdef" {
				fmt.Fprintln(os.Stderr, "write: publish setter", fnKey(cal), "at", w.pos(instrPos(c)))
			}
			return true
		}
		if own[cal] && depth < 4 && mw(cal, depth+1) {
			if os.Getenv("VERIF_DEBUG") == "rsdef" {
				fmt.Fprintln(os.Stderr, "write: own must-writer", fnKey(cal), "at", w.pos(instrPos(c)))
			}
			return true
		}
		return false
	}
	mw = func(f *ssa.Function, depth int) bool {
		if v, ok := mustWrite[f]; ok {
			return v == 1
		}
		mustWrite[f] = 0
		// forward: blocks reachable from entry without passing a write must not contain a return
		seen := map[*ssa.BasicBlock]bool{f.Blocks[0]: true}
		stack := []*ssa.BasicBlock{f.Blocks[0]}
		ok := true
		for len(stack) > 0 && ok {
			b := stack[len(stack)-1]
			stack = stack[:len(stack)-1]
			written := false
			for _, ins := range b.Instrs {
				if c, isC := ins.(*ssa.Call); isC && isWriteCall(c, depth) {
					written = true
					break
				}
				if rt, isR := ins.(*ssa.Return); isR {
					// an error return does not hand control on to a reader
					if n := len(rt.Results); n > 0 && definiteError(rt.Results[n-1]) {
						continue
					}
					ok = false
				}
			}
			if written {
				continue
			}
			for _, s := range b.Succs {
				if !seen[s] {
					seen[s] = true
					stack = append(stack, s)
				}
			}
		}
		if ok {
			mustWrite[f] = 1
		}
		return ok
	}
	// readsTokens: the function (transitively) reads tokens
	// unwrittenAt: can `site` in f be reached from f's entry without a definite write, and was
	// f itself entered unwritten (through every chain of own callers up to the entry)?
	var enteredUnwritten func(f *ssa.Function, depth int) (bool, string)
	reachUnwritten := func(f *ssa.Function, site ssa.Instruction) bool {
		seen := map[*ssa.BasicBlock]bool{f.Blocks[0]: true}
		stack := []*ssa.BasicBlock{f.Blocks[0]}
		for len(stack) > 0 {
			b := stack[len(stack)-1]
			stack = stack[:len(stack)-1]
			written := false
			for _, ins := range b.Instrs {
				if ins == site {
					return true
				}
				if c, isC := ins.(*ssa.Call); isC && isWriteCall(c, 0) {
					written = true
					break
				}
			}
			if written {
				continue
			}
			for _, s := range b.Succs {
				if !seen[s] {
					seen[s] = true
					stack = append(stack, s)
				}
			}
		}
		return false
	}
	cg := w.CallGraph()
	enteredUnwritten = func(f *ssa.Function, depth int) (bool, string) {
		if f == entry {
			return true, fnKey(entry)
		}
		if depth > 5 {
			return true, "…"
		}
		nd := cg.Nodes[f]
		if nd == nil {
			return true, "?"
		}
		for _, e := range nd.In {
			if os.Getenv("VERIF_DEBUG") == "rsdef" {
				fmt.Fprintln(os.Stderr, "in-edge of", fnKey(f), "from", fnKey(e.Caller.Func), e.Site != nil)
			}
			if e.Site == nil || e.Site.Common().StaticCallee() != f || !own[e.Caller.Func] {
				continue
			}
			if reachUnwritten(e.Caller.Func, e.Site.(ssa.Instruction)) {
				if un, via := enteredUnwritten(e.Caller.Func, depth+1); un {
					return true, via + " → " + fnKey(f)
				}
			}
		}
		return false, ""
	}
	n := 0
	for fn := range own {
		_ = fn
	}
	var fns []*ssa.Function
	for _, fn := range w.Funcs {
		if own[fn] {
			fns = append(fns, fn)
		}
	}
	for _, fn := range fns {
		ord := 0
		for _, b := range fn.Blocks {
			for _, ins := range b.Instrs {
				c, ok := ins.(*ssa.Call)
				if !ok || !isGetter(c.Call.StaticCallee()) {
					continue
				}
				// operand reads: before the evaluator has read any token in this function and
				// in the entry method only
				if fn == entry && !tokenReadCanPrecede(a, fn, c) {
					continue
				}
				n++
				ord++
				construct := "read of the last evaluated value"
				if ord > 1 {
					construct += fmt.Sprintf("#%d", ord)
				}
				pos := w.pos(instrPos(c))
				if !reachUnwritten(fn, c) {
					r.holds("RS-def", fnKey(fn), construct, "a definite write by the evaluator precedes the read on every path in this method", pos)
					continue
				}
				if un, via := enteredUnwritten(fn, 0); un {
					r.violated("RS-def", fnKey(fn), construct, "the read can be reached from the evaluator's entry without a definite write of the value by the evaluator ("+via+"): a body that leaves the value untouched records the type of whatever was evaluated before the definition", pos)
				} else {
					r.holds("RS-def", fnKey(fn), construct, "every chain of calls from the evaluator's entry passes a definite write before this method is entered", pos)
				}
			}
		}
	}
	r.Stats["definition_value_reads"] = n
	r.floor("definition_value_reads", 2)
}

// tokenReadCanPrecede: some call that (transitively) reads tokens can run before site in fn.
func tokenReadCanPrecede(a *AE, fn *ssa.Function, site ssa.Instruction) bool {
	seen := map[*ssa.BasicBlock]bool{fn.Blocks[0]: true}
	stack := []*ssa.BasicBlock{fn.Blocks[0]}
	for len(stack) > 0 {
		b := stack[len(stack)-1]
		stack = stack[:len(stack)-1]
		for _, ins := range b.Instrs {
			if ins == site {
				break
			}
			if c, ok := ins.(*ssa.Call); ok {
				if cal := c.Call.StaticCallee(); cal != nil && (a.isTokenReader(cal) || a.reads(cal, 0)) {
					// does the site lie after it?
					return true
				}
			}
		}
		for _, s := range b.Succs {
			if !seen[s] {
				seen[s] = true
				stack = append(stack, s)
			}
		}
	}
	return false
}
