package main

import (
	"go/token"
	"go/types"

	"golang.org/x/tools/go/ssa"
)

// GEN — fresh-name generators never hand out a name twice (C18, C11).
//
// A generator is a function that returns a string built from an integer cell of a
// package-level variable and stores that cell + k (k > 0) back. Names it hands out are kept
// in the global tables for the rest of the process (hidden classes of `def obj.meth`,
// synthetic parameter names, key/value ids), so the cell has to be monotone over the whole
// process: every store to it, anywhere in the module, must be cell + k with k > 0. A reset
// (per file, per round) makes the first name of a preloaded file and the first name of the
// target collide, which a concatenation never does.
func init() { engines["GEN"] = engineGEN }

type genCell struct {
	g     *ssa.Global
	field int // -1: the global itself is the cell
}

func cellOf(addr ssa.Value) (genCell, bool) {
	switch x := addr.(type) {
	case *ssa.Global:
		return genCell{g: x, field: -1}, true
	case *ssa.FieldAddr:
		if g, ok := x.X.(*ssa.Global); ok {
			return genCell{g: g, field: x.Field}, true
		}
	}
	return genCell{}, false
}

func engineGEN(w *World, tier string) *EngineResult {
	r := newResult("GEN", "every store to the counter of a fresh-name generator (a function that returns a string built from an integer cell of a package-level variable and advances that cell) is an increment of the cell's own value: names handed out earlier stay in the global tables, so a reset or a decrement hands a name out twice")
	gens := map[genCell][]*ssa.Function{}
	for _, fn := range w.Funcs {
		if fn.Signature.Results().Len() != 1 || !isStringType(fn.Signature.Results().At(0).Type()) {
			continue
		}
		for _, b := range fn.Blocks {
			for _, ins := range b.Instrs {
				st, ok := ins.(*ssa.Store)
				if !ok {
					continue
				}
				cell, ok := cellOf(st.Addr)
				if !ok {
					continue
				}
				if bt, ok := st.Val.Type().Underlying().(*types.Basic); !ok || bt.Info()&types.IsInteger == 0 {
					continue
				}
				if !isIncrementOf(st.Val, cell) {
					continue
				}
				// the cell's value feeds the returned string (formatted or converted)
				if cellFeedsString(fn, cell) {
					gens[cell] = append(gens[cell], fn)
				}
			}
		}
	}
	nStores := 0
	for cell, fns := range gens {
		name := globalName(cell.g)
		if cell.field >= 0 {
			if stt, ok := cell.g.Type().(*types.Pointer).Elem().Underlying().(*types.Struct); ok {
				name += "." + stt.Field(cell.field).Name()
			}
		}
		r.Notes = append(r.Notes, "generator cell "+name+" advanced by "+fnKey(fns[0]))
		for _, fn := range w.Funcs {
			ord := 0
			for _, b := range fn.Blocks {
				for _, ins := range b.Instrs {
					st, ok := ins.(*ssa.Store)
					if !ok {
						continue
					}
					c2, ok := cellOf(st.Addr)
					if !ok || c2.g != cell.g || (c2 != cell && c2.field != -1) {
						continue
					}
					if fn.Synthetic != "" || fn.Name() == "init" {
						continue // the initial value
					}
					nStores++
					ord++
					construct := "store to " + name
					if ord > 1 {
						construct += "#" + itoa(ord)
					}
					pos := w.pos(instrPos(st))
					if isIncrementOf(st.Val, cell) {
						r.holds("GEN-mono", fnKey(fn), construct, "the counter is advanced from its own value", pos)
					} else {
						r.violated("GEN-mono", fnKey(fn), construct, "the counter of a fresh-name generator is overwritten with a value that is not an increment of itself: names handed out before (kept in the frame, class and signature tables) are handed out again", pos)
					}
				}
			}
		}
	}
	r.Stats["generator_cells"] = len(gens)
	r.Stats["generator_cell_stores"] = nStores
	r.floor("generator_cells", 1)
	r.floor("generator_cell_stores", 1)
	r.finish()
	return r
}

func isIncrementOf(v ssa.Value, cell genCell) bool {
	bo, ok := v.(*ssa.BinOp)
	if !ok || bo.Op != token.ADD {
		return false
	}
	for _, pr := range [][2]ssa.Value{{bo.X, bo.Y}, {bo.Y, bo.X}} {
		ld, ok := pr[0].(*ssa.UnOp)
		if !ok || ld.Op != token.MUL {
			continue
		}
		c2, ok := cellOf(ld.X)
		if !ok || c2 != cell {
			continue
		}
		if k, ok := pr[1].(*ssa.Const); ok && k.Value != nil && k.Int64() > 0 {
			return true
		}
	}
	return false
}

func cellFeedsString(fn *ssa.Function, cell genCell) bool {
	for _, b := range fn.Blocks {
		for _, ins := range b.Instrs {
			ld, ok := ins.(*ssa.UnOp)
			if !ok || ld.Op != token.MUL {
				continue
			}
			if c2, ok := cellOf(ld.X); !ok || c2 != cell {
				continue
			}
			for _, ref := range *ld.Referrers() {
				switch x := ref.(type) {
				case *ssa.MakeInterface, *ssa.Convert:
					return true
				case *ssa.Call:
					if cal := x.Call.StaticCallee(); cal != nil && cal.Pkg != nil && cal.Pkg.Pkg.Path() == "strconv" {
						return true
					}
				}
			}
		}
	}
	return false
}
