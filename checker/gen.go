package main

import (
	"fmt"
	"go/token"
	"go/types"

	"golang.org/x/tools/go/ssa"
)

// GEN — fresh-name generators never hand out a name twice (C18, C11).
//
// A generator is a function that returns a string built from an integer cell of a
// package-level variable and stores that cell + k (k > 0) back. Names it hands out are kept
// in the global tables for the rest of the process (hidden classes of `def obj.meth`,
// synthetic parameter names, key/value ids), so the cell has to be monotone over the whole
// process: every store to it, anywhere in the module, must be cell + k with k > 0. A reset
// (per file, per round) makes the first name of a preloaded file and the first name of the
// target collide, which a concatenation never does.
func init() { engines["GEN"] = engineGEN }

type genCell struct {
	g     *ssa.Global
	field int // -1: the global itself is the cell
}

func cellOf(addr ssa.Value) (genCell, bool) {
	switch x := addr.(type) {
	case *ssa.Global:
		return genCell{g: x, field: -1}, true
	case *ssa.FieldAddr:
		if g, ok := x.X.(*ssa.Global); ok {
			return genCell{g: g, field: x.Field}, true
		}
	}
	return genCell{}, false
}

func engineGEN(w *World, tier string) *EngineResult {
	r := newResult("GEN", "every store to the counter of a fresh-name generator (a function that returns a string built from an integer cell of a package-level variable and advances that cell) is an increment of the cell's own value: names handed out earlier stay in the global tables, so a reset or a decrement hands a name out twice")
	gens := map[genCell][]*ssa.Function{}
	for _, fn := range w.Funcs {
		if fn.Signature.Results().Len() != 1 || !isStringType(fn.Signature.Results().At(0).Type()) {
			continue
		}
		for _, b := range fn.Blocks {
			for _, ins := range b.Instrs {
				st, ok := ins.(*ssa.Store)
				if !ok {
					continue
				}
				cell, ok := cellOf(st.Addr)
				if !ok {
					continue
				}
				if bt, ok := st.Val.Type().Underlying().(*types.Basic); !ok || bt.Info()&types.IsInteger == 0 {
					continue
				}
				if !isIncrementOf(st.Val, cell) {
					continue
				}
				// the cell's value feeds the returned string (formatted or converted)
				if cellFeedsString(fn, cell) {
					gens[cell] = append(gens[cell], fn)
				}
			}
		}
	}
	nStores := 0
	for cell, fns := range gens {
		name := globalName(cell.g)
		if cell.field >= 0 {
			if stt, ok := cell.g.Type().(*types.Pointer).Elem().Underlying().(*types.Struct); ok {
				name += "." + stt.Field(cell.field).Name()
			}
		}
		r.Notes = append(r.Notes, "generator cell "+name+" advanced by "+fnKey(fns[0]))
		for _, fn := range w.Funcs {
			ord := 0
			for _, b := range fn.Blocks {
				for _, ins := range b.Instrs {
					st, ok := ins.(*ssa.Store)
					if !ok {
						continue
					}
					c2, ok := cellOf(st.Addr)
					if !ok || c2.g != cell.g || (c2 != cell && c2.field != -1) {
						continue
					}
					if fn.Synthetic != "" || fn.Name() == "init" {
						continue // the initial value
					}
					nStores++
					ord++
					construct := "store to " + name
					if ord > 1 {
						construct += "#" + itoa(ord)
					}
					pos := w.pos(instrPos(st))
					if isIncrementOf(st.Val, cell) {
						r.holds("GEN-mono", fnKey(fn), construct, "the counter is advanced from its own value", pos)
					} else {
						r.violated("GEN-mono", fnKey(fn), construct, "the counter of a fresh-name generator is overwritten with a value that is not an increment of itself: names handed out before (kept in the frame, class and signature tables) are handed out again", pos)
					}
				}
			}
		}
	}
	genScope(w, r)
	r.Stats["generator_cells"] = len(gens)
	r.Stats["generator_cell_stores"] = nStores
	r.floor("generator_cells", 1)
	r.floor("generator_cell_stores", 1)
	r.finish()
	return r
}

func isIncrementOf(v ssa.Value, cell genCell) bool {
	bo, ok := v.(*ssa.BinOp)
	if !ok || bo.Op != token.ADD {
		return false
	}
	for _, pr := range [][2]ssa.Value{{bo.X, bo.Y}, {bo.Y, bo.X}} {
		ld, ok := pr[0].(*ssa.UnOp)
		if !ok || ld.Op != token.MUL {
			continue
		}
		c2, ok := cellOf(ld.X)
		if !ok || c2 != cell {
			continue
		}
		if k, ok := pr[1].(*ssa.Const); ok && k.Value != nil && k.Int64() > 0 {
			return true
		}
	}
	return false
}

func cellFeedsString(fn *ssa.Function, cell genCell) bool {
	for _, b := range fn.Blocks {
		for _, ins := range b.Instrs {
			ld, ok := ins.(*ssa.UnOp)
			if !ok || ld.Op != token.MUL {
				continue
			}
			if c2, ok := cellOf(ld.X); !ok || c2 != cell {
				continue
			}
			for _, ref := range *ld.Referrers() {
				switch x := ref.(type) {
				case *ssa.MakeInterface, *ssa.Convert:
					return true
				case *ssa.Call:
					if cal := x.Call.StaticCallee(); cal != nil && cal.Pkg != nil && cal.Pkg.Pkg.Path() == "strconv" {
						return true
					}
				}
			}
		}
	}
	return false
}

// GEN-scope (C19, C18): a name that becomes (part of) a key of a process-wide table must
// come from a process-wide generator. A generator whose counter is a field of its receiver
// hands out the same names from every instance (one per configuration file, say); used in
// keys of a package-level map, the entries of two instances overwrite each other.
func genScope(w *World, r *EngineResult) {
	// instance-scoped generators: methods returning a string built from an integer field of
	// the receiver that they advance
	inst := map[*ssa.Function]string{}
	for _, fn := range w.Funcs {
		if fn.Signature.Recv() == nil || len(fn.Params) == 0 || fn.Signature.Results().Len() != 1 || !isStringType(fn.Signature.Results().At(0).Type()) {
			continue
		}
		recv := fn.Params[0]
		for _, b := range fn.Blocks {
			for _, ins := range b.Instrs {
				st, ok := ins.(*ssa.Store)
				if !ok {
					continue
				}
				fa, ok := st.Addr.(*ssa.FieldAddr)
				if !ok || fa.X != ssa.Value(recv) || !isIntType(st.Val.Type()) {
					continue
				}
				bo, ok := st.Val.(*ssa.BinOp)
				if !ok || bo.Op != token.ADD {
					continue
				}
				ld, ok := bo.X.(*ssa.UnOp)
				if !ok {
					continue
				}
				f2, ok := ld.X.(*ssa.FieldAddr)
				if !ok || f2.X != ssa.Value(recv) || f2.Field != fa.Field {
					continue
				}
				// the field's value reaches the returned string
				feeds := false
				for _, b2 := range fn.Blocks {
					for _, in2 := range b2.Instrs {
						if l2, ok := in2.(*ssa.UnOp); ok && l2.Op == token.MUL {
							if f3, ok := l2.X.(*ssa.FieldAddr); ok && f3.X == ssa.Value(recv) && f3.Field == fa.Field {
								for _, ref := range *l2.Referrers() {
									switch y := ref.(type) {
									case *ssa.MakeInterface, *ssa.Convert:
										feeds = true
									case *ssa.BinOp:
										// count - 1 handed to a formatter
										for _, r2 := range *y.Referrers() {
											switch z := r2.(type) {
											case *ssa.MakeInterface, *ssa.Convert:
												feeds = true
											case *ssa.Call:
												if cal := z.Call.StaticCallee(); cal != nil && cal.Pkg != nil && cal.Pkg.Pkg.Path() == "strconv" {
													feeds = true
												}
											}
										}
									case *ssa.Call:
										if cal := y.Call.StaticCallee(); cal != nil && cal.Pkg != nil && cal.Pkg.Pkg.Path() == "strconv" {
											feeds = true
										}
									}
								}
							}
						}
					}
				}
				if feeds {
					inst[fn] = fieldNameOf(fa)
				}
			}
		}
	}
	r.Stats["instance_scoped_generators"] = len(inst)
	n := 0
	for _, fn := range w.Funcs {
		ord := 0
		for _, b := range fn.Blocks {
			for _, ins := range b.Instrs {
				c, ok := ins.(*ssa.Call)
				if !ok {
					continue
				}
				cal := c.Call.StaticCallee()
				fld, isGen := inst[cal]
				if !isGen {
					continue
				}
				n++
				ord++
				construct := "name from " + cal.Name()
				if ord > 1 {
					construct += fmt.Sprintf("#%d", ord)
				}
				pos := w.pos(instrPos(c))
				if where := flowsToGlobalKey(w, c, 0, map[ssa.Value]bool{}); where != "" {
					r.violated("GEN-scope", fnKey(fn), construct, "the name comes from a counter kept in the receiver (field "+fld+": every instance starts over) and becomes part of a key of a package-level table ("+where+"): entries made through two instances overwrite each other", pos)
				} else {
					r.holds("GEN-scope", fnKey(fn), construct, "the name does not reach a key of a package-level table", pos)
				}
			}
		}
	}
	r.Stats["instance_scoped_names"] = n
}

// flowsToGlobalKey: where v (a string) becomes part of a key of a package-level map.
func flowsToGlobalKey(w *World, v ssa.Value, depth int, seen map[ssa.Value]bool) string {
	if seen[v] || depth > 6 || v.Referrers() == nil {
		return ""
	}
	seen[v] = true
	for _, ref := range *v.Referrers() {
		switch x := ref.(type) {
		case *ssa.BinOp, *ssa.Phi, *ssa.ChangeType, *ssa.Convert, *ssa.Slice:
			if s := flowsToGlobalKey(w, x.(ssa.Value), depth, seen); s != "" {
				return s
			}
		case *ssa.MapUpdate:
			if x.Key == v {
				if g := rootGlobal(x.Map); g != nil {
					return "store into " + globalName(g) + " at " + w.pos(instrPos(x))
				}
			}
		case *ssa.Lookup:
			if x.Index == v {
				if g := rootGlobal(x.X); g != nil {
					return "look-up in " + globalName(g) + " at " + w.pos(instrPos(x))
				}
			}
		case *ssa.Store:
			if x.Val != v {
				continue
			}
			// a field of a key struct under construction, or a local variable
			var cell ssa.Value
			switch a := x.Addr.(type) {
			case *ssa.FieldAddr:
				cell = a.X
			case *ssa.Alloc:
				cell = a
			}
			if al, ok := cell.(*ssa.Alloc); ok {
				for _, r2 := range *al.Referrers() {
					if ld, ok := r2.(*ssa.UnOp); ok {
						if s := flowsToGlobalKey(w, ld, depth, seen); s != "" {
							return s
						}
					}
				}
			}
		case *ssa.Return:
			// the caller continues the flow
			fn := x.Parent()
			if nd := w.CallGraph().Nodes[fn]; nd != nil && depth < 5 {
				for _, e := range nd.In {
					if e.Site == nil || e.Site.Value() == nil {
						continue
					}
					if s := flowsToGlobalKey(w, e.Site.Value(), depth+1, seen); s != "" {
						return s
					}
				}
			}
		case *ssa.Call:
			cal := x.Call.StaticCallee()
			if cal == nil || cal.Pkg == nil || !inModule(cal.Pkg.Pkg.Path()) || len(cal.Blocks) == 0 {
				continue
			}
			for ai, a := range x.Call.Args {
				if a == v && ai < len(cal.Params) {
					if s := flowsToGlobalKey(w, cal.Params[ai], depth+1, seen); s != "" {
						return s
					}
				}
			}
		}
	}
	return ""
}
