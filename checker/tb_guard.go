package main

import (
	"fmt"
	"go/token"
	"go/types"

	"golang.org/x/tools/go/ssa"
)

// TB-guard (C12): where a function asks "is this value a configured one?" (the is-builtin
// predicates, derived from the source) and afterwards writes into the frame table, the
// writes lie on the predicate's false edge: every table write that can follow the test is
// dominated by the edge on which the predicate answered no. A test that is conjoined with
// another condition (`if x.IsBuiltin() && …`) lets a configured value through to the writes
// whenever the other condition fails.
func tbGuard(c *tbCtx, r *EngineResult) {
	w := c.w
	// table writers: functions that (through static calls, three levels) update the frame table
	writers := map[*ssa.Function]int8{}
	var writes func(f *ssa.Function, depth int) bool
	writes = func(f *ssa.Function, depth int) bool {
		if f == nil || len(f.Blocks) == 0 {
			return false
		}
		if v, ok := writers[f]; ok {
			return v == 1
		}
		writers[f] = 0
		res := false
		for _, b := range f.Blocks {
			for _, ins := range b.Instrs {
				switch x := ins.(type) {
				case *ssa.MapUpdate:
					if g := rootGlobal(x.Map); g != nil && g == c.tframe {
						res = true
					}
				case *ssa.Call:
					if cal := x.Call.StaticCallee(); cal != nil && cal.Pkg != nil && pkgShort(cal) == "base" && depth < 3 && writes(cal, depth+1) {
						res = true
					}
				}
			}
		}
		if res {
			writers[f] = 1
		}
		return res
	}
	n := 0
	for _, fn := range w.Funcs {
		switch pkgShort(fn) {
		case "eval", "eval/method_evaluator":
		default:
			continue
		}
		ord := 0
		// the blocks that are only reached after some is-configured test answered no
		safe := map[*ssa.BasicBlock]bool{}
		for _, b := range fn.Blocks {
			iff, ok := b.Instrs[len(b.Instrs)-1].(*ssa.If)
			if !ok {
				continue
			}
			cond, neg := iff.Cond, false
			if u, ok := cond.(*ssa.UnOp); ok && u.Op == token.NOT {
				cond, neg = u.X, true
			}
			gc, ok := cond.(*ssa.Call)
			if !ok || !c.guardPreds[gc.Call.StaticCallee()] {
				continue
			}
			fs := b.Succs[1]
			if neg {
				fs = b.Succs[0]
			}
			if len(fs.Preds) != 1 {
				continue
			}
			for _, wb := range fn.Blocks {
				if wb == fs || fs.Dominates(wb) {
					safe[wb] = true
				}
			}
		}
		for _, b := range fn.Blocks {
			for _, ins := range b.Instrs {
				g, ok := ins.(*ssa.Call)
				if !ok || !c.guardPreds[g.Call.StaticCallee()] || len(g.Call.Args) == 0 {
					continue
				}
				// used as a branch condition (directly or negated)
				var iff *ssa.If
				neg := false
				for _, ref := range *g.Referrers() {
					switch x := ref.(type) {
					case *ssa.If:
						iff = x
					case *ssa.UnOp:
						if x.Op == token.NOT {
							for _, r2 := range *x.Referrers() {
								if i2, ok := r2.(*ssa.If); ok {
									iff, neg = i2, true
								}
							}
						}
					}
				}
				if iff == nil {
					continue
				}
				falseSucc := iff.Block().Succs[1]
				if neg {
					falseSucc = iff.Block().Succs[0]
				}
				// the value under test is the result of a table lookup made in this function; the
				// writes that matter are those into the same slot: they share a (non-constant) string
				// argument — the name under which the value was looked up — with that lookup
				keyArgs := lookupKeyArgs(g.Call.Args[0], map[ssa.Value]bool{})
				if len(keyArgs) == 0 {
					continue
				}
				// table writes reachable from the test
				reach := map[*ssa.BasicBlock]bool{}
				var walk func(b *ssa.BasicBlock)
				walk = func(b *ssa.BasicBlock) {
					if reach[b] {
						return
					}
					reach[b] = true
					for _, s := range b.Succs {
						walk(s)
					}
				}
				for _, s := range iff.Block().Succs {
					walk(s)
				}
				var bad []string
				nw := 0
				for wb := range reach {
					for _, wi := range wb.Instrs {
						wc, ok := wi.(*ssa.Call)
						if !ok || !writes(wc.Call.StaticCallee(), 0) {
							continue
						}
						same := false
						for _, a := range wc.Call.Args {
							if keyArgs[a] {
								same = true
							}
						}
						if !same {
							continue
						}
						nw++
						// in a region where an is-configured test answered no?
						if safe[wb] || wb == falseSucc && len(falseSucc.Preds) == 1 {
							continue
						}
						// or in the region where it answered yes exclusively (a write made for a configured value on purpose)
						trueSucc := iff.Block().Succs[0]
						if neg {
							trueSucc = iff.Block().Succs[1]
						}
						if len(trueSucc.Preds) == 1 && (wb == trueSucc || trueSucc.Dominates(wb)) && !reachableFrom(falseSucc, wb) {
							continue
						}
						bad = append(bad, w.pos(instrPos(wc)))
					}
				}
				if nw == 0 {
					continue
				}
				n++
				ord++
				construct := "table writes after " + g.Call.StaticCallee().Name() + "()"
				if ord > 1 {
					construct += fmt.Sprintf("#%d", ord)
				}
				pos := w.pos(instrPos(g))
				if len(bad) == 0 {
					r.holds("TB-guard", fnKey(fn), construct, "every table write that can follow the test lies on the edge where the predicate answered no", pos)
				} else {
					r.violated("TB-guard", fnKey(fn), construct, "a write into the frame table at "+bad[0]+" can be reached although the predicate answered yes (the test is conjoined with another condition, or the write is not on its false edge): the entry of a configured value is replaced", pos)
				}
			}
		}
	}
	r.Stats["guarded_table_write_regions"] = n
}

func reachableFrom(from, to *ssa.BasicBlock) bool {
	seen := map[*ssa.BasicBlock]bool{}
	var walk func(b *ssa.BasicBlock) bool
	walk = func(b *ssa.BasicBlock) bool {
		if b == to {
			return true
		}
		if seen[b] {
			return false
		}
		seen[b] = true
		for _, s := range b.Succs {
			if walk(s) {
				return true
			}
		}
		return false
	}
	return walk(from)
}

// lookupKeyArgs: the non-constant string arguments of the module call(s) v results from.
func lookupKeyArgs(v ssa.Value, seen map[ssa.Value]bool) map[ssa.Value]bool {
	out := map[ssa.Value]bool{}
	if seen[v] {
		return out
	}
	seen[v] = true
	switch x := v.(type) {
	case *ssa.Call:
		if cal := x.Call.StaticCallee(); cal != nil && isTPtr(x.Type()) && cal.Pkg != nil && inModule(cal.Pkg.Pkg.Path()) {
			for _, a := range x.Call.Args {
				if _, isC := a.(*ssa.Const); !isC && isStringType(a.Type()) {
					out[a] = true
				}
			}
		}
	case *ssa.Parameter:
		// the value was looked up by the caller: the name it was looked up under is handed in
		// alongside it
		if isTPtr(x.Type()) && x.Parent() != nil {
			for _, p := range x.Parent().Params {
				if isStringType(p.Type()) {
					out[p] = true
				}
			}
		}
	case *ssa.Phi:
		for _, e := range x.Edges {
			for k := range lookupKeyArgs(e, seen) {
				out[k] = true
			}
		}
	}
	return out
}

// fromTableLookup: v is (a phi over) the result of a module call returning *T, or a parameter.
func fromTableLookup(v ssa.Value) bool {
	switch x := v.(type) {
	case *ssa.Call:
		return x.Call.StaticCallee() != nil && isTPtr(x.Type())
	case *ssa.Extract:
		return isTPtr(x.Type())
	case *ssa.Parameter:
		return isTPtr(x.Type())
	case *ssa.Phi:
		for _, e := range x.Edges {
			if fromTableLookup(e) {
				return true
			}
		}
	}
	_ = types.Typ
	return false
}
