package main

import (
	"fmt"
	"go/types"

	"golang.org/x/tools/go/ssa"
)

// CHK — evaluated call arguments are checked against the declaration before a call is
// accepted (C07).
//
// Roles by signature in the method evaluator: a *collector* takes the evaluator and a
// declared signature and returns ([]*T, error) — the evaluated arguments of the call; a
// *checker* takes the evaluator, a class (or class list), a signature (or list) and a []*T
// and returns an error (possibly with a result type). Rule: from every collector call, every
// path to a return that reports success (error result nil or the checker's own result)
// passes through a checker call that receives the collected list. A path that returns
// success without one accepts a call with any number and any types of arguments.
func init() { engines["CHK"] = engineCHK }

func engineCHK(w *World, tier string) *EngineResult {
	r := newResult("CHK", "from every call that collects the evaluated arguments of a configured call, every path to a success return passes through a call of the declaration check that receives the collected list (must-pass-through over the SSA control-flow graph); collector and checker are resolved by signature shape")
	isT := func(t types.Type) bool { return isPtrToNamed(t, modulePath+"/base", "T") }
	isTs := func(t types.Type) bool {
		sl, ok := t.Underlying().(*types.Slice)
		return ok && isT(sl.Elem())
	}
	isME := func(t types.Type) bool { return isPtrToNamed(t, modulePath+"/eval/method_evaluator", "MethodEvaluator") }
	isErr := func(t types.Type) bool { return t.String() == "error" }
	collector := func(f *ssa.Function) bool {
		if f == nil || pkgShort(f) != "eval/method_evaluator" || f.Signature.Recv() != nil {
			return false
		}
		p, rs := f.Signature.Params(), f.Signature.Results()
		return p.Len() == 2 && isME(p.At(0).Type()) && isT(p.At(1).Type()) && rs.Len() == 2 && isTs(rs.At(0).Type()) && isErr(rs.At(1).Type())
	}
	checker := func(f *ssa.Function) bool {
		if f == nil || pkgShort(f) != "eval/method_evaluator" || f.Signature.Recv() != nil {
			return false
		}
		p, rs := f.Signature.Params(), f.Signature.Results()
		if p.Len() != 4 || !isME(p.At(0).Type()) || !isTs(p.At(3).Type()) || rs.Len() == 0 || !isErr(rs.At(rs.Len()-1).Type()) {
			return false
		}
		return isT(p.At(2).Type()) || isTs(p.At(2).Type())
	}
	nCollectors, nCheckers := 0, 0
	for _, fn := range w.Funcs {
		if collector(fn) {
			nCollectors++
		}
		if checker(fn) {
			nCheckers++
		}
	}
	r.Stats["collector_functions"] = nCollectors
	r.Stats["checker_functions"] = nCheckers
	if nCollectors == 0 || nCheckers == 0 {
		r.undecided("CHK", "eval/method_evaluator", "roles", "unresolved anchor: no function with the collector / checker signature shape", "-")
		r.finish()
		return r
	}
	// functions that check the list they are given (so that handing the list on counts)
	checksParam := map[*ssa.Function]map[int]bool{}
	var passes func(fn *ssa.Function, start ssa.Instruction, list ssa.Value, depth int) (ok bool, where string)
	listFlows := func(v, list ssa.Value) bool {
		if v == list {
			return true
		}
		// through phis / slices of the same list (filtered copies are a different list)
		switch x := v.(type) {
		case *ssa.Phi:
			for _, e := range x.Edges {
				if e == list {
					return true
				}
			}
		}
		return false
	}
	isCheckCall := func(c *ssa.Call, list ssa.Value, depth int) bool {
		cal := c.Call.StaticCallee()
		if cal == nil {
			return false
		}
		for ai, a := range c.Call.Args {
			if !listFlows(a, list) {
				continue
			}
			if checker(cal) && ai == 3 {
				return true
			}
			// a module function that itself checks that parameter on all its success paths
			if depth < 2 && cal.Pkg != nil && inModule(cal.Pkg.Pkg.Path()) && len(cal.Blocks) > 0 && ai < len(cal.Params) {
				if m := checksParam[cal]; m != nil {
					if v, ok := m[ai]; ok {
						if v {
							return true
						}
						continue
					}
				} else {
					checksParam[cal] = map[int]bool{}
				}
				checksParam[cal][ai] = false
				ok, _ := passes(cal, nil, cal.Params[ai], depth+1)
				checksParam[cal][ai] = ok
				if ok {
					return true
				}
			}
		}
		return false
	}
	// passes: every path from start (or the entry) to a success return meets a check of list
	passes = func(fn *ssa.Function, start ssa.Instruction, list ssa.Value, depth int) (bool, string) {
		type st struct {
			b *ssa.BasicBlock
			i int
		}
		seen := map[*ssa.BasicBlock]bool{}
		var stack []st
		if start == nil {
			stack = append(stack, st{fn.Blocks[0], 0})
		} else {
			b := start.Block()
			for i, ins := range b.Instrs {
				if ins == start {
					stack = append(stack, st{b, i + 1})
				}
			}
		}
		for len(stack) > 0 {
			cur := stack[len(stack)-1]
			stack = stack[:len(stack)-1]
			checked := false
			for _, ins := range cur.b.Instrs[cur.i:] {
				if c, ok := ins.(*ssa.Call); ok && isCheckCall(c, list, depth) {
					checked = true
					break
				}
				if rt, ok := ins.(*ssa.Return); ok {
					// success return?
					res := fn.Signature.Results()
					if res.Len() > 0 && isErr(res.At(res.Len()-1).Type()) {
						ev := rt.Results[len(rt.Results)-1]
						if k, isC := ev.(*ssa.Const); isC && k.IsNil() {
							return false, w.pos(instrPos(rt))
						}
						if definiteError(ev) {
							continue
						}
						// an error variable: success only if it can be nil here; the error of the
						// collector itself is non-nil on its own error path (tested before)
						if ex, isEx := ev.(*ssa.Extract); isEx {
							if c, isCall := ex.Tuple.(*ssa.Call); isCall && collector(c.Call.StaticCallee()) {
								continue
							}
						}
						if _, isPhi := ev.(*ssa.Phi); isPhi {
							return false, w.pos(instrPos(rt))
						}
						continue
					}
					return false, w.pos(instrPos(rt))
				}
			}
			if checked {
				continue
			}
			for _, s := range cur.b.Succs {
				if !seen[s] {
					seen[s] = true
					stack = append(stack, st{s, 0})
				}
			}
		}
		return true, ""
	}
	n := 0
	for _, fn := range w.Funcs {
		if pkgShort(fn) != "eval/method_evaluator" {
			continue
		}
		ord := 0
		for _, b := range fn.Blocks {
			for _, ins := range b.Instrs {
				c, ok := ins.(*ssa.Call)
				if !ok || !collector(c.Call.StaticCallee()) {
					continue
				}
				// the collected list
				var list ssa.Value
				for _, ref := range *c.Referrers() {
					if ex, ok := ref.(*ssa.Extract); ok && ex.Index == 0 {
						list = ex
					}
				}
				if collector(fn) {
					continue // a collector built on another collector hands the list to its caller
				}
				n++
				ord++
				construct := "arguments collected by " + c.Call.StaticCallee().Name()
				if ord > 1 {
					construct += fmt.Sprintf("#%d", ord)
				}
				pos := w.pos(instrPos(c))
				if list == nil {
					r.violated("CHK", fnKey(fn), construct, "the collected arguments are dropped: nothing can check them", pos)
					continue
				}
				okey := "CHK|" + fnKey(fn) + "|" + construct
				if ok, where := passes(fn, c, list, 0); ok {
					r.holds("CHK", fnKey(fn), construct, "every path to a success return passes a declaration check of the collected list", pos)
				} else if why, rev := chkReviewed[okey]; rev {
					r.Reviewed[okey] = why
					r.add(Obligation{Rule: "CHK", Func: fnKey(fn), Construct: construct, Verdict: Holds, Detail: "reviewed exception", Pos: pos, Reviewed: why})
				} else {
					r.violated("CHK", fnKey(fn), construct, "a path reaches the success return at "+where+" without checking the collected arguments against the declaration: a call with the wrong number or types of arguments is accepted silently", pos)
				}
			}
		}
	}
	r.Stats["collector_call_sites"] = n
	r.floor("collector_call_sites", 8)
	chkWalk(w, r, checker)
	r.finish()
	return r
}

var chkReviewed = map[string]string{}
