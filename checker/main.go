package main

import (
	"encoding/json"
	"flag"
	"fmt"
	"os"
	"path/filepath"
	"sort"
	"strconv"
	"strings"
	"time"
)

func usage() {
	fmt.Fprintln(os.Stderr, `tiverif — static checks of ruby-ti properties
  tiverif check -property C05 [-tier quick|thorough]
  tiverif engine <NAME> [-v]          run one engine and print its obligations
  tiverif replay <file>               re-derive one reported obligation on the current tree
  tiverif list                        properties and engines`)
	os.Exit(2)
}

func main() {
	if len(os.Args) < 2 {
		usage()
	}
	switch os.Args[1] {
	case "check":
		os.Exit(cmdCheck(os.Args[2:]))
	case "engine":
		os.Exit(cmdEngine(os.Args[2:]))
	case "replay":
		os.Exit(cmdReplay(os.Args[2:]))
	case "list":
		for _, p := range propertyOrder() {
			fmt.Printf("%s: %s\n", p, strings.Join(specNames(properties[p].Engines), ", "))
		}
		os.Exit(0)
	case "selftest":
		os.Exit(cmdSelftest(os.Args[2:]))
	default:
		if f, ok := extraCommands[os.Args[1]]; ok {
			os.Exit(f(os.Args[2:]))
		}
		usage()
	}
}

func propertyOrder() []string {
	var ps []string
	for p := range properties {
		ps = append(ps, p)
	}
	sort.Strings(ps)
	return ps
}

func specNames(es []EngineSpec) []string {
	var s []string
	for _, e := range es {
		s = append(s, e.Name)
	}
	return s
}

func cmdEngine(args []string) int {
	if len(args) < 1 {
		usage()
	}
	name := args[0]
	fs := flag.NewFlagSet("engine", flag.ExitOnError)
	verbose := fs.Bool("v", false, "print holding obligations too")
	tier := fs.String("tier", "quick", "")
	fs.Parse(args[1:])
	run, ok := engines[name]
	if !ok {
		fmt.Fprintln(os.Stderr, "unknown engine", name)
		return 2
	}
	t0 := time.Now()
	w, err := loadWorld(repoDir())
	if err != nil {
		fmt.Fprintln(os.Stderr, err)
		return 1
	}
	tl := time.Since(t0)
	res := run(w, *tier)
	reconcileReviewed(w, name, res)
	counts := map[string]int{}
	for _, o := range res.Obligations {
		counts[o.Verdict]++
		if o.Verdict == Holds && !*verbose {
			continue
		}
		fmt.Printf("%-9s %s  [%s]\n", o.Verdict, o.Key(), o.Pos)
		if o.Detail != "" {
			fmt.Printf("          %s\n", o.Detail)
		}
		if o.Reviewed != "" {
			fmt.Printf("          reviewed: %s\n", o.Reviewed)
		}
	}
	var ks []string
	for k := range res.Stats {
		ks = append(ks, k)
	}
	sort.Strings(ks)
	for _, k := range ks {
		fmt.Printf("stat %s=%d\n", k, res.Stats[k])
	}
	for _, n := range res.Notes {
		fmt.Println("note", n)
	}
	fmt.Printf("obligations=%d holds=%d violated=%d undecided=%d load=%.1fs total=%.1fs\n", len(res.Obligations), counts[Holds], counts[Violated], counts[Undecided], tl.Seconds(), time.Since(t0).Seconds())
	return 0
}

// cmdCheck is what MANIFEST.json registers.
func cmdCheck(args []string) int {
	fs := flag.NewFlagSet("check", flag.ExitOnError)
	prop := fs.String("property", "", "property id, e.g. C05")
	tier := fs.String("tier", "", "quick|thorough (default: $VERIF_TIER or quick)")
	fs.Parse(args)
	if *tier == "" {
		*tier = os.Getenv("VERIF_TIER")
	}
	if *tier != "thorough" {
		*tier = "quick"
	}
	spec, ok := properties[*prop]
	if !ok {
		fmt.Fprintf(os.Stderr, "unknown or unclaimed property %q\n", *prop)
		return 2
	}
	seed := 0
	if s := os.Getenv("VERIF_SEED"); s != "" {
		seed, _ = strconv.Atoi(s)
	}
	t0 := time.Now()
	evPath := filepath.Join(evidenceDir(), *prop+".json")
	os.Remove(evPath)

	fail := func(msg string) int {
		// infrastructure failure: the check cannot vouch for anything
		rp := writeReplay(*prop, 0, Obligation{Rule: "INFRA", Func: "-", Construct: "load", Verdict: Undecided, Detail: msg})
		fmt.Printf("ERROR %s\n", msg)
		fmt.Printf("VIOLATION property=%s replay=%s\n", *prop, rp)
		ev := Evidence{PropertyID: *prop, Tier: *tier, Seed: seed, Level: "other", WallS: time.Since(t0).Seconds(), Violations: 1,
			Coverage: map[string]any{"explanation": "the check could not analyse the tree: " + msg, "obligations": 1, "discharged": 0}}
		writeJSON(evPath, ev)
		return 1
	}

	w, err := loadWorld(repoDir())
	if err != nil {
		return fail(err.Error())
	}
	loadS := time.Since(t0).Seconds()

	known, err := loadKnown()
	if err != nil {
		return fail(err.Error())
	}
	knownByKey := map[string]KnownFinding{}
	for _, k := range known {
		if k.Status == "known" && k.Property == *prop {
			knownByKey[k.Key] = k
		}
	}

	var all []Obligation
	engineInfo := []map[string]any{}
	reviewed := map[string]string{}
	var floorFailures []string
	selfNotes := []string{}
	for _, es := range spec.Engines {
		run := engines[es.Name]
		if run == nil {
			return fail("engine " + es.Name + " not built")
		}
		res := cachedRun(es.Name, run, w, *tier)
		n := 0
		for _, o := range res.Obligations {
			if es.Filter != nil && !es.Filter(w, o) {
				continue
			}
			all = append(all, o)
			n++
		}
		for k, v := range res.Reviewed {
			reviewed[k] = v
		}
		for k, min := range res.Floors {
			if res.Stats[k] < min {
				floorFailures = append(floorFailures, fmt.Sprintf("%s: %s=%d below the floor %d confirmed by hand", es.Name, k, res.Stats[k], min))
			}
		}
		if n == 0 {
			all = append(all, Obligation{Rule: "FLOOR", Func: "-", Construct: "engine " + es.Name + " produced no obligation for this property", Verdict: Undecided, Detail: "the rule instances this property relies on were not found: unresolved anchors or a filter that matches nothing"})
		}
		engineInfo = append(engineInfo, map[string]any{"engine": es.Name, "rule": res.Rule, "analysed": res.Stats, "floors": res.Floors, "obligations_for_this_property": n, "notes": res.Notes})
	}
	for _, f := range floorFailures {
		all = append(all, Obligation{Rule: "FLOOR", Func: "-", Construct: f, Verdict: Undecided, Detail: "instance count fell below the reviewed floor: the rule may be matching nothing"})
	}

	// thorough tier extras
	if *tier == "thorough" {
		extra, notes := thoroughExtras(w, *prop, spec)
		all = append(all, extra...)
		selfNotes = append(selfNotes, notes...)
	}

	sort.SliceStable(all, func(i, j int) bool { return all[i].Key() < all[j].Key() })
	os.RemoveAll(filepath.Join(evidenceDir(), "replay", *prop))
	discharged, violations := 0, 0
	knownMatched := []string{}
	var samples []any
	var bad []Obligation
	for _, o := range all {
		switch o.Verdict {
		case Holds:
			discharged++
		default:
			if k, ok := knownByKey[o.Key()]; ok {
				fmt.Printf("KNOWN-FINDING: property=%s %s — %s\n", *prop, o.Key(), k.What)
				knownMatched = append(knownMatched, o.Key())
				delete(knownByKey, o.Key())
				continue
			}
			bad = append(bad, o)
		}
	}
	// a listed finding whose site was renamed or extracted is still that finding
	if len(bad) > 0 && len(knownByKey) > 0 {
		entries := map[string]string{}
		for k, v := range knownByKey {
			entries[k] = v.What
		}
		present := map[string]bool{}
		for _, o := range all {
			present[o.Key()] = true
		}
		taken := map[string]bool{}
		kept := bad[:0]
		for _, o := range bad {
			k, how := pairOrphan(w, o, entries, func(k string) bool { return present[k] || taken[k] }, nil)
			if k == "" {
				kept = append(kept, o)
				continue
			}
			taken[k] = true
			fmt.Printf("KNOWN-FINDING: property=%s %s — %s (listed as %s: %s)\n", *prop, o.Key(), knownByKey[k].What, k, how)
			knownMatched = append(knownMatched, k)
			delete(knownByKey, k)
		}
		bad = kept
	}
	for i, o := range bad {
		violations++
		rp := writeReplay(*prop, i+1, o)
		fmt.Printf("%s %s [%s]\n    %s\n", strings.ToUpper(o.Verdict), o.Key(), o.Pos, o.Detail)
		fmt.Printf("VIOLATION property=%s replay=%s\n", *prop, rp)
	}
	stale := []string{}
	for k := range knownByKey {
		stale = append(stale, k)
	}
	sort.Strings(stale)
	for _, k := range stale {
		fmt.Printf("note: known finding no longer reproduced on this tree: %s\n", k)
	}
	// samples: a few obligations of each verdict written out
	perRule := map[string]int{}
	for _, o := range all {
		k := o.Rule + "/" + o.Verdict
		if perRule[k] < 2 {
			perRule[k]++
			samples = append(samples, o)
		}
	}
	rules := map[string]int{}
	for _, o := range all {
		rules[o.Rule]++
	}
	cov := map[string]any{
		"explanation":           spec.Clause,
		"not_covered":           spec.NotCovered,
		"obligations":           len(all),
		"discharged":            discharged,
		"known_findings":        knownMatched,
		"stale_known_findings":  stale,
		"obligations_by_rule":   rules,
		"engines":               engineInfo,
		"reviewed_exceptions":   reviewed,
		"samples":               samples,
		"exhaustive":            true,
		"packages_loaded":       len(w.Pkgs),
		"source_functions":      len(w.Funcs),
		"load_s":                loadS,
		"checker_cmd":           "bin/tiverif check -property " + *prop + " -tier " + *tier,
		"trusted_base":          []string{"go/types, go/ssa, callgraph/vta of golang.org/x/tools v0.50.0", "Go 1.26.8 type checker", "AE axioms listed in DESIGN.md section 9"},
		"evaluations":           len(all),
		"distinct_nontrivial":   len(rules) + len(all),
		"rule":                  "one obligation per rule instance found in the source; distinct by rule|function|construct",
		"thorough_notes":        selfNotes,
	}
	ev := Evidence{PropertyID: *prop, Tier: *tier, Seed: seed, Level: "other", Coverage: cov, WallS: time.Since(t0).Seconds(), Violations: violations,
		Assumptions: spec.Assumptions}
	if err := writeJSON(evPath, ev); err != nil {
		fmt.Println("ERROR writing evidence:", err)
		return 1
	}
	fmt.Printf("property=%s tier=%s obligations=%d discharged=%d known=%d violations=%d wall=%.1fs\n", *prop, *tier, len(all), discharged, len(knownMatched), violations, time.Since(t0).Seconds())
	if violations > 0 {
		return 1
	}
	return 0
}

var runCache = map[string]*EngineResult{}

func cachedRun(name string, run EngineFunc, w *World, tier string) *EngineResult {
	if r, ok := runCache[name+"/"+tier]; ok {
		return r
	}
	r := run(w, tier)
	reconcileReviewed(w, name, r)
	runCache[name+"/"+tier] = r
	return r
}

func evidenceDir() string {
	if d := os.Getenv("VERIF_EVIDENCE_DIR"); d != "" {
		return d
	}
	return filepath.Join(verifDir(), "evidence")
}

type replayFile struct {
	Property   string     `json:"property"`
	Obligation Obligation `json:"obligation"`
	Engine     string     `json:"engine"`
	Hint       string     `json:"hint"`
}

func writeReplay(prop string, n int, o Obligation) string {
	p := filepath.Join(evidenceDir(), "replay", prop, fmt.Sprintf("%s-%d.json", prop, n))
	writeJSON(p, replayFile{Property: prop, Obligation: o, Engine: engineOfRule(o.Rule), Hint: "bin/tiverif replay " + p})
	return p
}

func engineOfRule(rule string) string {
	if i := strings.IndexAny(rule, "-"); i > 0 {
		if _, ok := engines[rule[:i]]; ok {
			return rule[:i]
		}
	}
	if _, ok := engines[rule]; ok {
		return rule
	}
	return ruleEngine[rule]
}

func cmdReplay(args []string) int {
	if len(args) < 1 {
		usage()
	}
	b, err := os.ReadFile(args[0])
	if err != nil {
		fmt.Fprintln(os.Stderr, err)
		return 2
	}
	var rf replayFile
	if err := json.Unmarshal(b, &rf); err != nil {
		fmt.Fprintln(os.Stderr, err)
		return 2
	}
	run := engines[rf.Engine]
	if run == nil {
		fmt.Printf("recorded obligation (engine %q cannot be re-run in isolation):\n%s\n", rf.Engine, b)
		return 1
	}
	w, err := loadWorld(repoDir())
	if err != nil {
		fmt.Fprintln(os.Stderr, err)
		return 1
	}
	res := run(w, "quick")
	for _, o := range res.Obligations {
		if o.Key() == rf.Obligation.Key() {
			fmt.Printf("%s %s [%s]\n  %s\n", o.Verdict, o.Key(), o.Pos, o.Detail)
			for _, p := range o.Path {
				fmt.Println("   ", p)
			}
			if o.Verdict == Holds {
				return 0
			}
			fmt.Printf("VIOLATION property=%s replay=%s\n", rf.Property, args[0])
			return 1
		}
	}
	fmt.Printf("obligation %s is no longer produced on this tree\n", rf.Obligation.Key())
	return 0
}
