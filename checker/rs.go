package main

// RS — per-call parser state is reset where each method evaluation starts (C11).

import (
	"fmt"
	"go/types"
	"sort"
	"strings"

	"golang.org/x/tools/go/ssa"
)

func init() { engines["RS"] = engineRS }

func engineRS(w *World, tier string) *EngineResult {
	r := newResult("RS", "a field of the parser that method evaluation writes (through its setter, with a computed value) and block/definition evaluation in package eval reads (through its getter) is per-call state; it must not survive into the next, unrelated call: the function that starts every method evaluation stores to it on every path, or every setter call is paired with a deferred clear in the same function, or every reader clears it in the function that reads it (consume-on-read)")
	// accessors of *parser.Parser
	type acc struct {
		field   int
		name    string
		setters []*ssa.Function // store of a parameter into the field
		clears  []*ssa.Function // store of a constant/empty value into the field
		getters []*ssa.Function // return a load of the field
	}
	fields := map[int]*acc{}
	get := func(i int, name string) *acc {
		if fields[i] == nil {
			fields[i] = &acc{field: i, name: name}
		}
		return fields[i]
	}
	for _, fn := range w.Funcs {
		if fn.Signature.Recv() == nil || !isPtrToNamed(fn.Signature.Recv().Type(), modulePath+"/parser", "Parser") || pkgShort(fn) != "parser" || len(fn.Params) == 0 {
			continue
		}
		recv := fn.Params[0]
		for _, b := range fn.Blocks {
			for _, ins := range b.Instrs {
				switch x := ins.(type) {
				case *ssa.Store:
					fa, ok := x.Addr.(*ssa.FieldAddr)
					if !ok || fa.X != ssa.Value(recv) {
						continue
					}
					a := get(fa.Field, fieldNameOf(fa))
					isParam := false
					for _, p := range fn.Params[1:] {
						if x.Val == ssa.Value(p) {
							isParam = true
						}
					}
					if isParam && len(fn.Blocks) <= 4 {
						a.setters = append(a.setters, fn)
					} else if _, isConst := x.Val.(*ssa.Const); isConst || isEmptyLiteral(x.Val) {
						a.clears = append(a.clears, fn)
					}
				case *ssa.Return:
					if len(x.Results) == 1 {
						if u, ok := x.Results[0].(*ssa.UnOp); ok {
							if fa, ok := u.X.(*ssa.FieldAddr); ok && fa.X == ssa.Value(recv) && len(fn.Blocks) == 1 {
								get(fa.Field, fieldNameOf(fa)).getters = append(get(fa.Field, fieldNameOf(fa)).getters, fn)
							}
						}
					}
				}
			}
		}
	}
	// the function that starts a method evaluation: returns *MethodEvaluator
	var starter *ssa.Function
	for _, fn := range w.Funcs {
		if pkgShort(fn) == "eval/method_evaluator" && fn.Parent() == nil && fn.Signature.Recv() == nil && fn.Signature.Results().Len() == 1 &&
			isPtrToNamed(fn.Signature.Results().At(0).Type(), modulePath+"/eval/method_evaluator", "MethodEvaluator") {
			starter = fn
		}
	}
	if starter == nil {
		r.undecided("RS", "eval/method_evaluator", "starter", "unresolved anchor: function returning *MethodEvaluator", "-")
		r.finish()
		return r
	}
	cg := w.CallGraph()
	callersIn := func(fns []*ssa.Function, pkg string) []*ssa.Function {
		var out []*ssa.Function
		seen := map[*ssa.Function]bool{}
		for _, f := range fns {
			if n := cg.Nodes[f]; n != nil {
				for _, in := range n.In {
					c := in.Caller.Func
					for c.Parent() != nil {
						c = c.Parent()
					}
					if pkgShort(c) == pkg && !seen[c] {
						seen[c] = true
						out = append(out, c)
					}
				}
			}
		}
		return out
	}
	var idxs []int
	for i := range fields {
		idxs = append(idxs, i)
	}
	sort.Ints(idxs)
	n := 0
	for _, i := range idxs {
		a := fields[i]
		if len(a.setters) == 0 || len(a.getters) == 0 {
			continue
		}
		writers := callersIn(a.setters, "eval/method_evaluator")
		readers := callersIn(a.getters, "eval")
		if len(writers) == 0 || len(readers) == 0 {
			continue
		}
		// a computed (non-constant) value must be written somewhere in method evaluation
		computed := false
		for _, wf := range writers {
			for _, b := range wf.Blocks {
				for _, ins := range b.Instrs {
					if c, ok := ins.(*ssa.Call); ok && c.Call.StaticCallee() != nil && containsFn(a.setters, c.Call.StaticCallee()) && len(c.Call.Args) > 1 {
						if _, isConst := c.Call.Args[1].(*ssa.Const); !isConst {
							computed = true
						}
					}
				}
			}
		}
		if !computed {
			continue
		}
		n++
		construct := "parser field " + a.name
		pos := w.pos(starter.Pos())
		// (1) the starter stores to the field on every path
		isWrite := func(ins ssa.Instruction) bool {
			switch x := ins.(type) {
			case *ssa.Call:
				cal := x.Call.StaticCallee()
				return cal != nil && (containsFn(a.setters, cal) || containsFn(a.clears, cal))
			case *ssa.Store:
				if fa, ok := x.Addr.(*ssa.FieldAddr); ok && fa.Field == a.field && isNamed(fa.X.Type(), modulePath+"/parser", "Parser") {
					return true
				}
			}
			return false
		}
		miss, _ := pathWithoutRelease(starter.Blocks[0], -1, isWrite, nil)
		if !miss {
			r.holds("RS", fnKey(starter), construct, "stored on every path through the function that starts a method evaluation", pos)
			continue
		}
		// (2) every computed set is paired with a deferred clear in the same function
		paired := true
		for _, wf := range writers {
			sets, defersClear := false, false
			for _, b := range wf.Blocks {
				for _, ins := range b.Instrs {
					switch x := ins.(type) {
					case *ssa.Call:
						if cal := x.Call.StaticCallee(); cal != nil && containsFn(a.setters, cal) {
							sets = true
						}
					case *ssa.Defer:
						if cal := x.Call.StaticCallee(); cal != nil && containsFn(a.clears, cal) {
							defersClear = true
						}
					}
				}
			}
			if sets && !defersClear {
				paired = false
			}
		}
		if paired {
			r.holds("RS", fnKey(starter), construct, "every function that sets it defers its clearing", pos)
			continue
		}
		// (3) consume-on-read: every reader function also clears it
		consumed := true
		for _, rf := range readers {
			clears := false
			for _, b := range rf.Blocks {
				for _, ins := range b.Instrs {
					if c, ok := ins.(*ssa.Call); ok && c.Call.StaticCallee() != nil && containsFn(a.clears, c.Call.StaticCallee()) {
						clears = true
					}
				}
			}
			if !clears {
				consumed = false
			}
		}
		if consumed {
			r.holds("RS", fnKey(starter), construct, "every reader clears it in the function that reads it (consume-on-read)", pos)
			continue
		}
		var ws, rs []string
		for _, f := range writers {
			ws = append(ws, fnKey(f))
		}
		for _, f := range readers {
			rs = append(rs, fnKey(f))
		}
		sort.Strings(ws)
		sort.Strings(rs)
		r.violated("RS", fnKey(starter), construct, fmt.Sprintf("method evaluation leaves a computed value in this field (set in %s) and package eval reads it later (%s), but nothing resets it when the next method call starts: a call that does not set it (union receiver, dynamic strategy, unresolved method) is analysed with the value of an earlier, unrelated call", strings.Join(ws, ","), strings.Join(rs, ",")), pos)
	}
	r.Stats["per_call_state_fields"] = n
	r.floor("per_call_state_fields", 2)
	rsDef(w, r)
	rsHandover(w, r)
	r.finish()
	return r
}

func containsFn(fs []*ssa.Function, f *ssa.Function) bool {
	for _, x := range fs {
		if x == f {
			return true
		}
	}
	return false
}

func isEmptyLiteral(v ssa.Value) bool {
	switch x := v.(type) {
	case *ssa.Slice:
		if al, ok := x.X.(*ssa.Alloc); ok {
			if at, ok := al.Type().Underlying().(*types.Pointer).Elem().Underlying().(*types.Array); ok && at.Len() == 0 {
				return true
			}
		}
	case *ssa.MakeSlice:
		return true
	}
	return false
}
