package main

// NL — dispatch must not depend on the length of a user identifier.

import (
	"fmt"
	"go/token"
	"go/types"

	"golang.org/x/tools/go/ssa"
)

var nlReviewed = map[string]string{}

func engineNL(w *World, tier string) *EngineResult {
	r := newResult("NL", "a comparison of len(s) with a constant, where s is text (a string) in the analyser's own packages, may only serve as (a) one conjunct of a condition whose neighbouring conjunct tests a decoration of the same text (an index or slice of s compared with a constant), or (b) a bounds guard that establishes exactly the length the index/slice sites it dominates need; any other length test selects behaviour by the length of a name, so renaming an identifier to a shorter or longer name of the same category changes the analysis")
	c := &ixCtx{w: w, pure: map[*ssa.Function]int8{}, predSumm: map[*ssa.Function]map[string]int{}, inProg: map[*ssa.Function]bool{}}
	n := 0
	for _, fn := range w.Funcs {
		switch pkgShort(fn) {
		case "base", "eval", "eval/method_evaluator", "parser", "cmd":
		default:
			continue
		}
		sites := c.sitesOf(fn)
		ord := map[string]int{}
		for _, b := range fn.Blocks {
			for _, ins := range b.Instrs {
				bo, ok := ins.(*ssa.BinOp)
				if !ok {
					continue
				}
				switch bo.Op {
				case token.EQL, token.NEQ, token.LSS, token.GTR, token.LEQ, token.GEQ:
				default:
					continue
				}
				var lenCall *ssa.Call
				var k *ssa.Const
				for _, pr := range [][2]ssa.Value{{bo.X, bo.Y}, {bo.Y, bo.X}} {
					if call, ok := pr[0].(*ssa.Call); ok {
						if bi, ok := call.Call.Value.(*ssa.Builtin); ok && bi.Name() == "len" && len(call.Call.Args) == 1 {
							if kk, ok := pr[1].(*ssa.Const); ok {
								lenCall, k = call, kk
							}
						}
					}
				}
				if lenCall == nil {
					continue
				}
				x := lenCall.Call.Args[0]
				if bt, ok := x.Type().Underlying().(*types.Basic); !ok || bt.Info()&types.IsString == 0 {
					continue
				}
				cv := constVal(k)
				if cv.k != kInt {
					continue
				}
				// the comparison must feed a branch
				var iff *ssa.If
				for _, ref := range *bo.Referrers() {
					if i, ok := ref.(*ssa.If); ok {
						iff = i
					}
				}
				n++
				key := c.exprKey(x, nil, 0)
				src := w.bracketExprAt(0)
				_ = src
				construct := fmt.Sprintf("len(%s) %s %d", nlName(c, x), bo.Op, cv.i)
				ord[construct]++
				if ord[construct] > 1 {
					construct = fmt.Sprintf("%s#%d", construct, ord[construct])
				}
				pos := w.pos(instrPos(bo))
				if iff == nil {
					// value used as data (returned): a predicate on length
					if nlDecorationNeighbour(c, bo, key) {
						r.holds("NL", fnKey(fn), construct, "conjunct next to a decoration test of the same text", pos)
						continue
					}
					r.violated("NL", fnKey(fn), construct, "the length of a text is returned as a boolean on its own: behaviour depends on how long a name is", pos)
					continue
				}
				// (a) neighbouring conjunct tests a decoration of the same text: the length test may
				// ask for the decoration plus one character of name, not more
				if d := nlDecorationLen(c, bo, key); d > 0 {
					fs := map[string]int{}
					c.lenFacts(bo, true, nil, fs, 0)
					e := fs[key]
					fs = map[string]int{}
					c.lenFacts(bo, false, nil, fs, 0)
					if fs[key] > e {
						e = fs[key]
					}
					if e > d+1 {
						r.violated("NL", fnKey(fn), construct, fmt.Sprintf("the length test next to a decoration test of %d character(s) establishes len ≥ %d: a decorated name needs the decoration and one more character (len ≥ %d); the extra strength classifies short names differently — renaming to a one-character name changes the analysis", d, e, d+1), pos)
						continue
					}
					r.holds("NL", fnKey(fn), construct, fmt.Sprintf("conjunct next to a decoration test (index/slice of the same text compared with a constant of %d character(s)); it asks for no more than the decoration and one character of name", d), pos)
					continue
				}
				// (b) exact bounds guard
				facts := map[string]int{}
				c.lenFacts(bo, true, nil, facts, 0)
				estT := facts[key]
				facts = map[string]int{}
				c.lenFacts(bo, false, nil, facts, 0)
				estF := facts[key]
				need := 0
				blk := iff.Block()
				for _, s := range sites {
					if s.array || c.exprKey(s.base, nil, 0) != key {
						continue
					}
					sb := s.ins.Block()
					if sb != blk && blk.Dominates(sb) {
						if s.need > need {
							need = s.need
						}
					}
				}
				est := estT
				if estF > est {
					est = estF
				}
				lenFirst := bo.X == ssa.Value(lenCall)
				isEmptiness := func() bool {
					n := cv.i
					op := bo.Op
					if !lenFirst { // c op len  →  len op' c
						switch op {
						case token.LSS:
							op = token.GTR
						case token.GTR:
							op = token.LSS
						case token.LEQ:
							op = token.GEQ
						case token.GEQ:
							op = token.LEQ
						}
					}
					switch {
					case (op == token.EQL || op == token.NEQ) && n == 0:
						return true
					case op == token.GTR && n == 0, op == token.LSS && n == 1, op == token.GEQ && n == 1, op == token.LEQ && n == 0:
						return true
					}
					return false
				}
				if isEmptiness() {
					r.holds("NL", fnKey(fn), construct, "emptiness test: distinguishes only the empty text, which no identifier is", pos)
					continue
				}
				if need > 0 && est == need {
					r.holds("NL", fnKey(fn), construct, fmt.Sprintf("bounds guard: establishes len ≥ %d, exactly what the indexing it dominates needs", need), pos)
					continue
				}
				okey := "NL|" + fnKey(fn) + "|" + construct
				if why, ok := nlReviewed[okey]; ok {
					r.Reviewed[okey] = why
					r.add(Obligation{Rule: "NL", Func: fnKey(fn), Construct: construct, Verdict: Holds, Detail: "reviewed exception", Pos: pos, Reviewed: why})
					continue
				}
				d := "a bare length test on a text selects behaviour"
				if need > 0 {
					d = fmt.Sprintf("the test establishes len ≥ %d although the indexing it protects needs only len ≥ %d: the extra strength distinguishes names by their length", est, need)
				}
				r.violated("NL", fnKey(fn), construct, d+" — renaming an identifier to a name of another length (one character, say) of the same lexical category changes the analysis", pos)
			}
		}
	}
	r.Stats["length_tests_on_text"] = n
	r.floor("length_tests_on_text", 12)
	r.finish()
	return r
}

func nlName(c *ixCtx, v ssa.Value) string {
	switch x := v.(type) {
	case *ssa.Parameter:
		return x.Name()
	case *ssa.Call:
		if cal := x.Call.StaticCallee(); cal != nil {
			if len(x.Call.Args) > 0 {
				return nlName(c, x.Call.Args[0]) + "." + cal.Name() + "()"
			}
			return cal.Name() + "()"
		}
	case *ssa.UnOp:
		return nlName(c, x.X)
	case *ssa.FieldAddr:
		return nlName(c, x.X) + "." + fieldNameOf(x)
	case *ssa.Alloc:
		if x.Comment != "" {
			return x.Comment
		}
	case *ssa.Phi:
		if x.Comment != "" {
			return x.Comment
		}
	}
	return "text"
}

// nlDecorationNeighbour: the comparison is one conjunct of an && chain whose adjacent
// conjunct compares an index or slice of the same text with a constant.
func nlDecorationNeighbour(c *ixCtx, bo *ssa.BinOp, key string) bool {
	return nlDecorationLen(c, bo, key) > 0
}

// nlDecorationLen: length of the decoration tested by the neighbouring conjunct (0: none).
func nlDecorationLen(c *ixCtx, bo *ssa.BinOp, key string) int {
	isDecorationTest := func(b *ssa.BasicBlock) int {
		for _, ins := range b.Instrs {
			// strings.HasPrefix / HasSuffix(text, "…") tests a decoration of that length
			if call, ok := ins.(*ssa.Call); ok {
				if cal := call.Call.StaticCallee(); cal != nil && cal.Pkg != nil && cal.Pkg.Pkg.Path() == "strings" && (cal.Name() == "HasPrefix" || cal.Name() == "HasSuffix") && len(call.Call.Args) == 2 {
					if kc, ok := call.Call.Args[1].(*ssa.Const); ok && c.exprKey(call.Call.Args[0], nil, 0) == key {
						if cv := constVal(kc); cv.k == kStr && len(cv.s) > 0 {
							return len(cv.s)
						}
					}
				}
			}
			cmp, ok := ins.(*ssa.BinOp)
			if !ok || (cmp.Op != token.EQL && cmp.Op != token.NEQ) {
				continue
			}
			for _, pr := range [][2]ssa.Value{{cmp.X, cmp.Y}, {cmp.Y, cmp.X}} {
				kc, isConst := pr[1].(*ssa.Const)
				if !isConst {
					continue
				}
				d := 1
				if cv := constVal(kc); cv.k == kStr {
					d = len(cv.s)
					if d == 0 {
						d = 1
					}
				}
				switch y := pr[0].(type) {
				case *ssa.Index:
					if c.exprKey(y.X, nil, 0) == key {
						if ic, ok := y.Index.(*ssa.Const); ok {
							if iv := constVal(ic); iv.k == kInt && iv.i >= 0 {
								return int(iv.i) + 1
							}
						}
						return d
					}
				case *ssa.Slice:
					if c.exprKey(y.X, nil, 0) == key {
						return d
					}
				case *ssa.Lookup:
					if c.exprKey(y.X, nil, 0) == key {
						return d
					}
				}
			}
		}
		return 0
	}
	blk := bo.Block()
	// successor on the true edge (len test first), or the unique predecessor (len test second)
	if iff, ok := blk.Instrs[len(blk.Instrs)-1].(*ssa.If); ok && iff.Cond == ssa.Value(bo) {
		for _, s := range blk.Succs {
			if len(s.Preds) == 1 {
				if d := isDecorationTest(s); d > 0 {
					// the decoration may be tested character by character along the && chain
					cur := s
					for hops := 0; hops < 6; hops++ {
						var nxt *ssa.BasicBlock
						for _, s2 := range cur.Succs {
							if len(s2.Preds) == 1 {
								if d2 := isDecorationTest(s2); d2 > 0 {
									if d2 > d {
										d = d2
									}
									nxt = s2
								}
							}
						}
						if nxt == nil {
							break
						}
						cur = nxt
					}
					return d
				}
			}
		}
	}
	if len(blk.Preds) == 1 {
		if d := isDecorationTest(blk.Preds[0]); d > 0 {
			return d
		}
	}
	return 0
}
