package main

import (
	"fmt"
	"go/types"

	"golang.org/x/tools/go/ssa"
)

// RS-handover (C17) — a synthesized dispatch hands its operand over in the parser's value
// slot, so the slot is published right before the dispatch.
//
// Besides the tokens read from the source, the evaluator is sometimes entered with a token
// made on the spot (`Eval(p, ctx, MakeIdentifier("do"))`): the construct registered under that
// keyword then runs as if the keyword had been read, and takes its operand — the receiver of
// the block call — from the parser's last-evaluated slot. Everything that was evaluated since
// the receiver (the arguments of the call) has overwritten that slot. Rule: when the
// evaluator registered under the constant keyword reads the slot, the dispatch is dominated
// by a publication of the slot in the dispatching function, with nothing in between that can
// write it again.
func rsHandover(w *World, r *EngineResult) {
	regs := findRegistries(w)
	cg := w.CallGraph()
	// keyword → registered evaluator methods (all methods of the registered concrete type that
	// implement the registry interface)
	evalOf := map[string][]*ssa.Function{}
	for _, fn := range w.Funcs {
		for _, b := range fn.Blocks {
			for _, ins := range b.Instrs {
				mu, ok := ins.(*ssa.MapUpdate)
				if !ok {
					continue
				}
				g := rootGlobal(mu.Map)
				isReg := false
				for _, rg := range regs {
					if rg.global == g {
						isReg = true
					}
				}
				k, isC := mu.Key.(*ssa.Const)
				if !isReg || !isC || constVal(k).k != kStr {
					continue
				}
				for _, t := range concreteTypesOf(mu.Value, 0) {
					ms := w.Prog.MethodSets.MethodSet(t)
					for i := 0; i < ms.Len(); i++ {
						if f := w.Prog.MethodValue(ms.At(i)); f != nil && len(f.Blocks) > 0 {
							evalOf[constVal(k).s] = append(evalOf[constVal(k).s], f)
						}
					}
				}
			}
		}
	}
	// slot getters: parameterless methods of *Parser whose result is the `any` slot or the
	// value unwrapped from it — they load the field the publish setter stores
	slotField := -1
	for _, fn := range w.Funcs {
		if !isPublishSetter(fn) {
			continue
		}
		for _, b := range fn.Blocks {
			for _, ins := range b.Instrs {
				if st, ok := ins.(*ssa.Store); ok {
					if fa, ok := st.Addr.(*ssa.FieldAddr); ok && fa.X == ssa.Value(fn.Params[0]) {
						if _, isIface := st.Val.Type().Underlying().(*types.Interface); isIface {
							slotField = fa.Field
						}
					}
				}
			}
		}
	}
	if slotField < 0 {
		r.undecided("RS-handover", "parser", "value slot", "unresolved anchor: the field the publish setter stores", "-")
		return
	}
	readsSlotDirect := func(f *ssa.Function) bool {
		if f.Signature.Recv() == nil || !isPtrToNamed(f.Signature.Recv().Type(), modulePath+"/parser", "Parser") {
			return false
		}
		for _, b := range f.Blocks {
			for _, ins := range b.Instrs {
				if u, ok := ins.(*ssa.UnOp); ok {
					if fa, ok := u.X.(*ssa.FieldAddr); ok && fa.Field == slotField && fa.X == ssa.Value(f.Params[0]) {
						return true
					}
				}
			}
		}
		return false
	}
	reachMemo := map[*ssa.Function]map[bool]int8{}
	var reaches func(f *ssa.Function, setter bool, seen map[*ssa.Function]bool) bool
	reaches = func(f *ssa.Function, setter bool, seen map[*ssa.Function]bool) bool {
		if f == nil || seen[f] {
			return false
		}
		if m := reachMemo[f]; m != nil && m[setter] != 0 {
			return m[setter] == 2
		}
		seen[f] = true
		res := false
		if setter && isPublishSetter(f) || !setter && readsSlotDirect(f) {
			res = true
		}
		if !res {
			if n := cg.Nodes[f]; n != nil {
				for _, e := range n.Out {
					c := e.Callee.Func
					if c.Pkg != nil && inModule(c.Pkg.Pkg.Path()) && reaches(c, setter, seen) {
						res = true
						break
					}
				}
			}
		}
		if reachMemo[f] == nil {
			reachMemo[f] = map[bool]int8{}
		}
		if res {
			reachMemo[f][setter] = 2
		}
		return res
	}
	n := 0
	for _, fn := range w.Funcs {
		ord := 0
		for _, b := range fn.Blocks {
			for _, ins := range b.Instrs {
				d, ok := ins.(*ssa.Call)
				if !ok || len(d.Call.Args) == 0 {
					continue
				}
				// a token made on the spot from a constant keyword among the arguments
				kw := ""
				for _, a := range d.Call.Args {
					if mk, ok := a.(*ssa.Call); ok {
						if cal := mk.Call.StaticCallee(); cal != nil && pkgShort(cal) == "base" && len(mk.Call.Args) == 1 {
							if k, ok := mk.Call.Args[0].(*ssa.Const); ok && constVal(k).k == kStr {
								if _, registered := evalOf[constVal(k).s]; registered {
									kw = constVal(k).s
								}
							}
						}
					}
				}
				if kw == "" {
					continue
				}
				// the callee must be the evaluator's dispatch (static or through the interface)
				reads := false
				for _, ev := range evalOf[kw] {
					if reaches(ev, false, map[*ssa.Function]bool{}) {
						reads = true
					}
				}
				if !reads {
					continue
				}
				n++
				ord++
				construct := fmt.Sprintf("dispatch of the %q evaluator with a synthesized token", kw)
				if ord > 1 {
					construct = fmt.Sprintf("%s#%d", construct, ord)
				}
				pos := w.pos(instrPos(d))
				// a publication that dominates the dispatch, nothing that can write the slot between
				ok2, why := false, "no publication of the value slot dominates the dispatch"
				for _, b2 := range fn.Blocks {
					for _, i2 := range b2.Instrs {
						s, isCall := i2.(*ssa.Call)
						if !isCall || !isPublishSetter(s.Call.StaticCallee()) {
							continue
						}
						between, dom := instrsBetween(s, d)
						if !dom {
							continue
						}
						clobber := ""
						for _, x := range between {
							c, isC := x.(*ssa.Call)
							if !isC {
								continue
							}
							cal := c.Call.StaticCallee()
							if cal == nil {
								if _, bi := c.Call.Value.(*ssa.Builtin); bi {
									continue
								}
								clobber = "a dynamic call at " + w.pos(instrPos(c))
								continue
							}
							if cal.Pkg != nil && inModule(cal.Pkg.Pkg.Path()) && reaches(cal, true, map[*ssa.Function]bool{}) {
								clobber = fnKey(cal) + " at " + w.pos(instrPos(c))
							}
						}
						if clobber == "" {
							ok2 = true
						} else {
							why = "the slot is published at " + w.pos(instrPos(s)) + " but " + clobber + " can overwrite it before the dispatch"
						}
					}
				}
				if ok2 {
					r.holds("RS-handover", fnKey(fn), construct, "the value slot is published right before the dispatch: the dispatched construct reads the operand meant for it", pos)
				} else {
					r.violated("RS-handover", fnKey(fn), construct, why+": the construct registered under the keyword takes its operand from the parser's last-evaluated slot, and what it finds there is whatever was evaluated last (an argument of the call instead of its receiver)", pos)
				}
			}
		}
	}
	r.Stats["synthesized_dispatches_reading_the_slot"] = n
	r.floor("synthesized_dispatches_reading_the_slot", 1)
}


// concreteTypesOf: the concrete types boxed into the interface value v (through calls that
// return a boxed value, phis and single-store locals).
func concreteTypesOf(v ssa.Value, depth int) []types.Type {
	if depth > 4 {
		return nil
	}
	switch x := v.(type) {
	case *ssa.MakeInterface:
		return []types.Type{x.X.Type()}
	case *ssa.Call:
		if cal := x.Call.StaticCallee(); cal != nil {
			var out []types.Type
			for _, b := range cal.Blocks {
				if ret, ok := b.Instrs[len(b.Instrs)-1].(*ssa.Return); ok && len(ret.Results) == 1 {
					out = append(out, concreteTypesOf(ret.Results[0], depth+1)...)
				}
			}
			return out
		}
	case *ssa.Phi:
		var out []types.Type
		for _, e := range x.Edges {
			out = append(out, concreteTypesOf(e, depth+1)...)
		}
		return out
	}
	return nil
}
