package main

// PAIR — what is saved must be restored on every exit.

import (
	"fmt"
	"go/types"
	"sort"
	"strings"

	"golang.org/x/tools/go/ssa"
)

func isFuncNoArgs(t types.Type) bool {
	s, ok := t.Underlying().(*types.Signature)
	return ok && s.Params().Len() == 0 && s.Results().Len() == 0
}

// restoreResultIndex: index of the result of type func() or []func(), or -1.
func restoreResultIndex(sig *types.Signature) (int, bool) {
	for i := 0; i < sig.Results().Len(); i++ {
		t := sig.Results().At(i).Type()
		if isFuncNoArgs(t) {
			if _, named := t.(*types.Named); !named {
				return i, false
			}
		}
		if sl, ok := t.Underlying().(*types.Slice); ok && isFuncNoArgs(sl.Elem()) {
			return i, true
		}
	}
	return -1, false
}

// derivesFrom: v is x or obtained from x by Extract/IndexAddr/load/Phi/ChangeType.
func derivesFrom(v, x ssa.Value, depth int) bool {
	if v == x {
		return true
	}
	if depth > 6 {
		return false
	}
	switch y := v.(type) {
	case *ssa.Extract:
		return derivesFrom(y.Tuple, x, depth+1)
	case *ssa.IndexAddr:
		return derivesFrom(y.X, x, depth+1)
	case *ssa.UnOp:
		return derivesFrom(y.X, x, depth+1)
	case *ssa.Phi:
		for _, e := range y.Edges {
			if derivesFrom(e, x, depth+1) {
				return true
			}
		}
	case *ssa.ChangeType:
		return derivesFrom(y.X, x, depth+1)
	case *ssa.Slice:
		return derivesFrom(y.X, x, depth+1)
	}
	return false
}

// pathWithoutRelease searches a path from (b0, idx0) to a Return that passes no release
// instruction; exempt(b, succIndex) prunes edges.
func pathWithoutRelease(b0 *ssa.BasicBlock, idx0 int, isRelease func(ssa.Instruction) bool, exemptEdge func(from *ssa.BasicBlock, succ int) bool) (bool, *ssa.BasicBlock) {
	seen := map[*ssa.BasicBlock]bool{}
	var bad *ssa.BasicBlock
	var walk func(b *ssa.BasicBlock, start int) bool
	walk = func(b *ssa.BasicBlock, start int) bool {
		if start == 0 {
			if seen[b] {
				return false
			}
			seen[b] = true
		}
		for i := start; i < len(b.Instrs); i++ {
			ins := b.Instrs[i]
			if isRelease(ins) {
				return false
			}
			if _, ok := ins.(*ssa.Return); ok {
				bad = b
				return true
			}
		}
		for si, s := range b.Succs {
			if exemptEdge != nil && exemptEdge(b, si) {
				continue
			}
			if walk(s, 0) {
				return true
			}
		}
		return false
	}
	found := walk(b0, idx0+1)
	return found, bad
}

func enginePAIR(w *World, tier string) *EngineResult {
	r := newResult("PAIR", "acquire/release on all paths: (a) every call whose result is a restore closure (func() or []func()) must call or defer it (every element, for slices) on every path to a function exit, or return it; paths that leave at once on the acquire's own error result are exempt; (b) every path from the argument-snapshot call to an exit passes the restore call; (c) a function that sets flags through a *Context parameter either restores them in a defer or is only called with the address of the caller's own by-value context; (d) the evaluator interface takes the Context by value")
	// (a) restore closures
	nAcq := 0
	for _, fn := range w.Funcs {
		siteOrd := map[string]int{}
		for _, b := range fn.Blocks {
			for i, ins := range b.Instrs {
				c, ok := ins.(*ssa.Call)
				if !ok {
					continue
				}
				cal := c.Call.StaticCallee()
				var sig *types.Signature
				if cal != nil {
					if cal.Pkg == nil || !inModule(cal.Pkg.Pkg.Path()) {
						continue
					}
					sig = cal.Signature
				} else {
					continue
				}
				ri, isSlice := restoreResultIndex(sig)
				if ri < 0 {
					continue
				}
				nAcq++
				construct := "restore closure from " + cal.Name()
				siteOrd[construct]++
				if siteOrd[construct] > 1 {
					construct = fmt.Sprintf("%s#%d", construct, siteOrd[construct])
				}
				pos := w.pos(instrPos(c))
				// the closure value(s)
				var clo ssa.Value = c
				var errVal ssa.Value
				if sig.Results().Len() > 1 {
					clo = nil
					for _, ref := range *c.Referrers() {
						if ex, ok := ref.(*ssa.Extract); ok {
							if ex.Index == ri {
								clo = ex
							} else if types.Identical(ex.Type(), types.Universe.Lookup("error").Type()) {
								errVal = ex
							}
						}
					}
				}
				if clo == nil || clo.Referrers() == nil || len(*clo.Referrers()) == 0 {
					r.violated("PAIR", fnKey(fn), construct, "the restore closure(s) returned by "+cal.Name()+" are discarded: what it saved is never restored", pos)
					continue
				}
				// returned to the caller?
				returned := false
				for _, bb := range fn.Blocks {
					if ret, ok := bb.Instrs[len(bb.Instrs)-1].(*ssa.Return); ok {
						for _, rv := range ret.Results {
							if derivesFrom(rv, clo, 0) {
								returned = true
							}
						}
					}
				}
				isRelease := func(x ssa.Instruction) bool {
					switch y := x.(type) {
					case *ssa.Defer:
						return derivesFrom(y.Call.Value, clo, 0)
					case *ssa.Call:
						return !y.Call.IsInvoke() && y.Call.StaticCallee() == nil && derivesFrom(y.Call.Value, clo, 0)
					case *ssa.Return:
						for _, rv := range y.Results {
							if derivesFrom(rv, clo, 0) {
								return true
							}
						}
					}
					return false
				}
				orderBad := ""
				if isSlice {
					// cells the slice is stored into (captured variables)
					cells := map[ssa.Value]bool{}
					for _, ref := range *clo.Referrers() {
						if st, ok := ref.(*ssa.Store); ok && st.Val == clo {
							cells[st.Addr] = true
						}
					}
					// a closure that captures the slice and calls its elements releases them when it
					// is called or deferred; it runs them in forward (acquisition) order
					closureRelease := func(v ssa.Value) bool {
						mc, ok := v.(*ssa.MakeClosure)
						if !ok {
							return false
						}
						cf := mc.Fn.(*ssa.Function)
						for bi, bnd := range mc.Bindings {
							if !(cells[bnd] || derivesFrom(bnd, clo, 0)) {
								continue
							}
							fv := cf.FreeVars[bi]
							for _, cb := range cf.Blocks {
								for _, ci := range cb.Instrs {
									if call, ok := ci.(*ssa.Call); ok && call.Call.StaticCallee() == nil && derivesFrom(call.Call.Value, fv, 0) {
										backward := false
										// a manual loop counting down is last-in-first-out
										for _, l := range findLoops(cf) {
											if l.body[cb] && !isRangeLoop(l) {
												backward = true
											}
										}
										if !backward {
											orderBad = "the restore closures are run in one deferred function in acquisition order (first-in-first-out) at " + w.pos(instrPos(call)) + ": when two of them restore the same variable, the later snapshot (taken after the first narrowing) overwrites the original type"
										}
										return true
									}
								}
							}
						}
						return false
					}
					base := isRelease
					isRelease = func(x ssa.Instruction) bool {
						switch y := x.(type) {
						case *ssa.Defer:
							if closureRelease(y.Call.Value) {
								return true
							}
						case *ssa.Call:
							if closureRelease(y.Call.Value) {
								return true
							}
							// an immediate call of each element inside a forward range loop
							if !y.Call.IsInvoke() && y.Call.StaticCallee() == nil && derivesFrom(y.Call.Value, clo, 0) {
								for d := y.Block(); d != nil; d = d.Idom() {
									if strings.HasPrefix(d.Comment, "rangeindex.loop") {
										orderBad = "the restore closures are called in acquisition order (first-in-first-out) at " + w.pos(instrPos(y)) + ": a later snapshot overwrites the original value of a variable restored twice"
										break
									}
								}
							}
						}
						return base(x)
					}
					// release = entering a range loop over the slice whose body calls/defers each element
					loopHeads := map[*ssa.BasicBlock]bool{}
					for _, bb := range fn.Blocks {
						for _, x := range bb.Instrs {
							if isRelease(x) {
								if d, ok := x.(*ssa.Defer); ok && closureRelease(d.Call.Value) {
									continue
								}
								// find the range loop header dominating bb
								for d := bb; d != nil; d = d.Idom() {
									if strings.HasPrefix(d.Comment, "rangeindex.loop") {
										loopHeads[d] = true
										break
									}
								}
							}
						}
					}
					inner := isRelease
					isRelease = func(x ssa.Instruction) bool {
						if loopHeads[x.Block()] {
							return true
						}
						switch y := x.(type) {
						case *ssa.Return:
							return inner(x)
						case *ssa.Defer:
							return closureRelease(y.Call.Value)
						case *ssa.Call:
							return closureRelease(y.Call.Value)
						}
						return false
					}
				}
				exempt := func(from *ssa.BasicBlock, succ int) bool {
					if errVal == nil {
						return false
					}
					iff, ok := from.Instrs[len(from.Instrs)-1].(*ssa.If)
					if !ok {
						return false
					}
					bo, ok := iff.Cond.(*ssa.BinOp)
					if !ok {
						return false
					}
					isErr := func(v ssa.Value) bool {
						if v == errVal {
							return true
						}
						// named result spilled to memory: a load of the cell errVal was stored to
						if u, ok := v.(*ssa.UnOp); ok {
							for _, ref := range *errVal.Referrers() {
								if st, ok := ref.(*ssa.Store); ok && st.Val == errVal && st.Addr == u.X && st.Block() == b {
									return true
								}
							}
						}
						return false
					}
					if !isErr(bo.X) && !isErr(bo.Y) {
						return false
					}
					// err != nil: true edge exempt; err == nil: false edge exempt
					if bo.Op.String() == "!=" {
						return succ == 0
					}
					if bo.Op.String() == "==" {
						return succ == 1
					}
					return false
				}
				bad, where := pathWithoutRelease(b, i, isRelease, exempt)
				if !bad && orderBad != "" {
					r.violated("PAIR-order", fnKey(fn), construct, orderBad, pos)
					continue
				}
				if bad && !returned {
					r.violated("PAIR", fnKey(fn), construct, "a path from this call reaches the exit at "+w.pos(blockPos(where))+" without calling, deferring or returning the restore closure", pos)
				} else if bad {
					r.violated("PAIR", fnKey(fn), construct, "returned on some paths, but a path reaches the exit at "+w.pos(blockPos(where))+" without it", pos)
				} else {
					r.holds("PAIR", fnKey(fn), construct, "called, deferred or returned on every path", pos)
				}
			}
		}
	}
	r.Stats["restore_closure_call_sites"] = nAcq
	r.floor("restore_closure_call_sites", 6)

	// (a') a snapshot handed to a restore-closure maker must be a fresh copy: the function
	// that produces it allocates the map it returns on every path (nested scopes each hold
	// their own snapshot until their closure runs)
	nSnapMaps := 0
	for _, fn := range w.Funcs {
		for _, b := range fn.Blocks {
			for _, ins := range b.Instrs {
				c, ok := ins.(*ssa.Call)
				if !ok {
					continue
				}
				cal := c.Call.StaticCallee()
				if cal == nil || cal.Pkg == nil || !inModule(cal.Pkg.Pkg.Path()) {
					continue
				}
				if ri, _ := restoreResultIndex(cal.Signature); ri < 0 {
					continue
				}
				for _, arg := range c.Call.Args {
					if _, isMap := arg.Type().Underlying().(*types.Map); !isMap {
						continue
					}
					src, ok := arg.(*ssa.Call)
					if !ok || src.Call.StaticCallee() == nil || len(src.Call.StaticCallee().Blocks) == 0 {
						continue
					}
					producer := src.Call.StaticCallee()
					nSnapMaps++
					fresh := true
					for _, pb := range producer.Blocks {
						if ret, ok := pb.Instrs[len(pb.Instrs)-1].(*ssa.Return); ok && len(ret.Results) == 1 {
							if mm, ok := ret.Results[0].(*ssa.MakeMap); !ok || mm.Parent() != producer {
								fresh = false
							}
						}
					}
					construct := "snapshot from " + producer.Name()
					if fresh {
						r.holds("PAIR-fresh", fnKey(fn), construct, "the snapshot captured by the restore closure is a map allocated by "+fnKey(producer)+" for this call", w.pos(instrPos(src)))
					} else {
						r.violated("PAIR-fresh", fnKey(fn), construct, fnKey(producer)+" does not return a freshly allocated map: scopes nest, so an inner scope's snapshot overwrites the one an outer scope still holds and the outer restore keeps what it should delete", w.pos(instrPos(src)))
					}
				}
			}
		}
	}
	// … or captured directly by a restore closure made in place (the maker inlined into the
	// function that returns the closure)
	checkFresh := func(fn *ssa.Function, src *ssa.Call) {
		producer := src.Call.StaticCallee()
		if producer == nil || len(producer.Blocks) == 0 {
			return
		}
		nSnapMaps++
		fresh := true
		for _, pb := range producer.Blocks {
			if ret, ok := pb.Instrs[len(pb.Instrs)-1].(*ssa.Return); ok && len(ret.Results) == 1 {
				if mm, ok := ret.Results[0].(*ssa.MakeMap); !ok || mm.Parent() != producer {
					fresh = false
				}
			}
		}
		construct := "snapshot from " + producer.Name()
		if fresh {
			r.holds("PAIR-fresh", fnKey(fn), construct, "the snapshot captured by the restore closure is a map allocated by "+fnKey(producer)+" for this call", w.pos(instrPos(src)))
		} else {
			r.violated("PAIR-fresh", fnKey(fn), construct, fnKey(producer)+" does not return a freshly allocated map: scopes nest, so an inner scope's snapshot overwrites the one an outer scope still holds and the outer restore keeps what it should delete", w.pos(instrPos(src)))
		}
	}
	for _, fn := range w.Funcs {
		if ri, _ := restoreResultIndex(fn.Signature); ri < 0 {
			continue
		}
		for _, b := range fn.Blocks {
			for _, ins := range b.Instrs {
				mc, ok := ins.(*ssa.MakeClosure)
				if !ok {
					continue
				}
				for _, bnd := range mc.Bindings {
					var val ssa.Value = bnd
					if al, isCell := bnd.(*ssa.Alloc); isCell && al.Referrers() != nil {
						// the captured variable's cell: its single store
						var stores []ssa.Value
						for _, ref := range *al.Referrers() {
							if st, ok := ref.(*ssa.Store); ok && st.Addr == ssa.Value(al) {
								stores = append(stores, st.Val)
							}
						}
						if len(stores) == 1 {
							val = stores[0]
						}
					}
					if _, isMap := val.Type().Underlying().(*types.Map); !isMap {
						continue
					}
					if src, ok := val.(*ssa.Call); ok {
						if cal := src.Call.StaticCallee(); cal != nil && cal.Pkg != nil && inModule(cal.Pkg.Pkg.Path()) {
							checkFresh(fn, src)
						}
					}
				}
			}
		}
	}
	r.Stats["snapshot_maps_captured"] = nSnapMaps
	r.floor("snapshot_maps_captured", 1)

	// (b) snapshot/restore of argument types: resolved by role over base.ArgumentSnapShot
	var snapGlobal *ssa.Global
	if bp := w.Prog.ImportedPackage(modulePath + "/base"); bp != nil {
		for _, m := range bp.Members {
			if g, ok := m.(*ssa.Global); ok {
				if mt, ok := g.Type().(*types.Pointer).Elem().Underlying().(*types.Map); ok {
					if isNamed(mt.Key(), modulePath+"/base", "FrameKey") && isNamed(mt.Elem(), modulePath+"/base", "T") {
						if _, ptr := mt.Elem().(*types.Pointer); !ptr {
							snapGlobal = g
						}
					}
				}
			}
		}
	}
	if snapGlobal == nil {
		r.undecided("PAIR-snap", "base", "argument snapshot table", "unresolved anchor: package-level map[FrameKey]T in base", "-")
	} else {
		writers, readers := map[*ssa.Function]bool{}, map[*ssa.Function]bool{}
		eff := w.Effects()
		for _, fn := range w.Funcs {
			if pkgShort(fn) != "base" || fn.Parent() != nil || fn.Synthetic != "" {
				continue
			}
			e := eff.Of(fn)
			if e.globalStores[globalName(snapGlobal)] || e.mapUpdates[globalName(snapGlobal)] {
				writers[fn] = true
				continue
			}
			for _, b := range fn.Blocks {
				for _, ins := range b.Instrs {
					if rg, ok := ins.(*ssa.Range); ok && rootGlobal(rg.X) == snapGlobal {
						readers[fn] = true
					}
				}
			}
		}
		nSnap := 0
		for _, fn := range w.Funcs {
			if pkgShort(fn) == "base" {
				continue
			}
			for _, b := range fn.Blocks {
				for i, ins := range b.Instrs {
					c, ok := ins.(*ssa.Call)
					if !ok || c.Call.StaticCallee() == nil || !writers[c.Call.StaticCallee()] {
						continue
					}
					nSnap++
					isRelease := func(x ssa.Instruction) bool {
						switch y := x.(type) {
						case *ssa.Call:
							return y.Call.StaticCallee() != nil && readers[y.Call.StaticCallee()]
						case *ssa.Defer:
							return y.Call.StaticCallee() != nil && readers[y.Call.StaticCallee()]
						}
						return false
					}
					bad, where := pathWithoutRelease(b, i, isRelease, nil)
					construct := "snapshot by " + c.Call.StaticCallee().Name()
					if bad {
						r.violated("PAIR-snap", fnKey(fn), construct, "a path reaches the exit at "+w.pos(blockPos(where))+" without restoring the argument types saved here", w.pos(instrPos(c)))
					} else {
						r.holds("PAIR-snap", fnKey(fn), construct, "every path to an exit passes the restore call", w.pos(instrPos(c)))
					}
				}
			}
		}
		r.Stats["snapshot_call_sites"] = nSnap
		r.floor("snapshot_call_sites", 1)
	}

	// (c) flags set through *Context parameters
	pairCtx(w, r)
	pairBal(w, r)

	// (d) interface takes Context by value
	for _, reg := range findRegistries(w) {
		it := reg.iface.Underlying().(*types.Interface)
		for i := 0; i < it.NumMethods(); i++ {
			sig := it.Method(i).Type().(*types.Signature)
			for j := 0; j < sig.Params().Len(); j++ {
				pt := sig.Params().At(j).Type()
				if isNamed(pt, modulePath+"/context", "Context") {
					name := reg.iface.Obj().Name() + "." + it.Method(i).Name()
					if _, isPtr := pt.(*types.Pointer); isPtr {
						r.violated("PAIR-byvalue", "eval", name, "the evaluator interface receives *Context: visibility/static flags set by one evaluator outlive it", w.pos(it.Method(i).Pos()))
					} else {
						r.holds("PAIR-byvalue", "eval", name, "Context is passed by value: flags set in an evaluator end with it", w.pos(it.Method(i).Pos()))
						r.Stats["byvalue_interfaces"]++
					}
				}
			}
		}
	}
	r.floor("byvalue_interfaces", 1)
	r.finish()
	return r
}

// ctxFieldWrites: fields of Context written through value base in fn (direct stores and
// calls of Context methods), in instruction order.
type ctxWrite struct {
	field    string
	val      Val // constant stored, if known
	deferred bool
	ins      ssa.Instruction
}

func contextMethodWrites(w *World) map[*ssa.Function][]ctxWrite {
	out := map[*ssa.Function][]ctxWrite{}
	for _, fn := range w.Funcs {
		if fn.Signature.Recv() == nil || !isPtrToNamed(fn.Signature.Recv().Type(), modulePath+"/context", "Context") || len(fn.Params) == 0 {
			continue
		}
		recv := fn.Params[0]
		for _, b := range fn.Blocks {
			for _, ins := range b.Instrs {
				if st, ok := ins.(*ssa.Store); ok {
					if ok, fld := recvRooted(st.Addr, recv); ok && fld != "" {
						v := unknown
						if c, ok := st.Val.(*ssa.Const); ok {
							v = constVal(c)
						}
						out[fn] = append(out[fn], ctxWrite{field: fld, val: v, ins: ins})
					}
				}
			}
		}
	}
	return out
}

// paramAlias: v is the parameter or a load of the cell the parameter is spilled into (a
// parameter captured by a closure lives in a cell).
func paramAlias(prm *ssa.Parameter) func(ssa.Value) bool {
	var cell *ssa.Alloc
	if prm.Referrers() != nil {
		for _, ref := range *prm.Referrers() {
			if st, ok := ref.(*ssa.Store); ok && st.Val == ssa.Value(prm) {
				if al, ok := st.Addr.(*ssa.Alloc); ok {
					cell = al
				}
			}
		}
	}
	return func(v ssa.Value) bool {
		if v == ssa.Value(prm) {
			return true
		}
		if ld, ok := v.(*ssa.UnOp); ok && cell != nil && ld.X == ssa.Value(cell) {
			return true
		}
		return false
	}
}

// pairBal (PAIR-bal): a function that resets a flag through a *Context parameter — the
// caller's context — has set that flag itself on every path to the reset: the setting call
// dominates the (deferred) resetting call. A reset without an own set closes a section the
// caller opened (`private` before `class << self` in a module).
func pairBal(w *World, r *EngineResult) {
	mw := contextMethodWrites(w)
	n := 0
	for _, fn := range w.Funcs {
		if fn.Signature.Recv() != nil && isPtrToNamed(fn.Signature.Recv().Type(), modulePath+"/context", "Context") {
			continue
		}
		for _, prm := range fn.Params {
			if !isPtrToNamed(prm.Type(), modulePath+"/context", "Context") {
				continue
			}
			isCtx := paramAlias(prm)
			// setting calls per field
			sets := map[string][]*ssa.BasicBlock{}
			for _, b := range fn.Blocks {
				for _, ins := range b.Instrs {
					if c, ok := ins.(*ssa.Call); ok {
						if cal := c.Call.StaticCallee(); cal != nil && len(c.Call.Args) > 0 && isCtx(c.Call.Args[0]) {
							for _, cw := range mw[cal] {
								if cw.val.k == kBool && cw.val.b {
									sets[cw.field] = append(sets[cw.field], b)
								}
							}
						}
					}
				}
			}
			ord := map[string]int{}
			for _, b := range fn.Blocks {
				for _, ins := range b.Instrs {
					var cc *ssa.CallCommon
					switch x := ins.(type) {
					case *ssa.Call:
						cc = &x.Call
					case *ssa.Defer:
						cc = &x.Call
					}
					if cc == nil {
						continue
					}
					cal := cc.StaticCallee()
					if cal == nil || len(cc.Args) == 0 || !isCtx(cc.Args[0]) {
						continue
					}
					for _, cw := range mw[cal] {
						if cw.val.k != kBool || cw.val.b {
							continue
						}
						n++
						construct := "reset of " + cw.field + " through " + prm.Name()
						ord[construct]++
						if ord[construct] > 1 {
							construct = fmt.Sprintf("%s#%d", construct, ord[construct])
						}
						pos := w.pos(instrPos(ins))
						own := false
						for _, sb := range sets[cw.field] {
							if sb == b || sb.Dominates(b) {
								own = true
							}
						}
						if !own && snapshotRestored(fn, prm, cw.field, b) {
							r.holds("PAIR-bal", fnKey(fn), construct, "the function keeps the caller's value of the flag and restores it in a deferred closure: the section is its own scope", pos)
							continue
						}
						if own {
							r.holds("PAIR-bal", fnKey(fn), construct, "the function has set the flag itself on every path to this reset", pos)
						} else {
							r.violated("PAIR-bal", fnKey(fn), construct, "the flag of the caller's context is reset although this function has not set it on every path to the reset: a section the caller opened is closed behind its back", pos)
						}
					}
				}
			}
		}
	}
	r.Stats["context_flag_resets"] = n
	r.floor("context_flag_resets", 2)
}

// snapshotRestored: the field is read through prm in the entry block and a deferred closure
// stores that value back through prm.
func snapshotRestored(fn *ssa.Function, prm *ssa.Parameter, field string, at *ssa.BasicBlock) bool {
	isCtx := paramAlias(prm)
	var cell ssa.Value
	for _, ref := range *prm.Referrers() {
		if st, ok := ref.(*ssa.Store); ok && st.Val == ssa.Value(prm) {
			cell = st.Addr
		}
	}
	// loads of prm.field in the entry block
	snaps := map[ssa.Value]bool{}
	for _, sb := range fn.Blocks {
		if sb != at && !sb.Dominates(at) {
			continue
		}
		for _, ins := range sb.Instrs {
			if ld, ok := ins.(*ssa.UnOp); ok {
				if fa, ok := ld.X.(*ssa.FieldAddr); ok && isCtx(fa.X) && fieldNameOf(fa) == field {
					snaps[ld] = true
				}
			}
		}
	}
	if len(snaps) == 0 {
		return false
	}
	for _, b := range fn.Blocks {
		for _, ins := range b.Instrs {
			df, ok := ins.(*ssa.Defer)
			if !ok || (b != at && !b.Dominates(at)) {
				continue
			}
			mc, ok := df.Call.Value.(*ssa.MakeClosure)
			if !ok {
				continue
			}
			cf := mc.Fn.(*ssa.Function)
			// which free variables hold the snapshot / the context pointer?
			snapFV, ctxFV := map[ssa.Value]bool{}, map[ssa.Value]bool{}
			for i, bnd := range mc.Bindings {
				if snaps[bnd] {
					snapFV[cf.FreeVars[i]] = true
				}
				// a snapshot kept in a local cell
				if al, ok := bnd.(*ssa.Alloc); ok {
					for _, ref := range *al.Referrers() {
						if st, ok := ref.(*ssa.Store); ok && snaps[st.Val] {
							snapFV[cf.FreeVars[i]] = true
						}
					}
				}
				if bnd == ssa.Value(prm) || (cell != nil && bnd == cell) {
					ctxFV[cf.FreeVars[i]] = true
				}
			}
			for _, cb := range cf.Blocks {
				for _, ci := range cb.Instrs {
					st, ok := ci.(*ssa.Store)
					if !ok {
						continue
					}
					fa, ok := st.Addr.(*ssa.FieldAddr)
					if !ok || fieldNameOf(fa) != field {
						continue
					}
					base := fa.X
					if ld, ok := base.(*ssa.UnOp); ok {
						base = ld.X
					}
					if !ctxFV[base] && !ctxFV[fa.X] {
						continue
					}
					v := st.Val
					if ld, ok := v.(*ssa.UnOp); ok {
						v = ld.X
					}
					if snapFV[v] || snapFV[st.Val] {
						return true
					}
				}
			}
		}
	}
	return false
}

func pairCtx(w *World, r *EngineResult) {
	mw := contextMethodWrites(w)
	type escape struct {
		fn     *ssa.Function
		param  int
		fields map[string]bool
	}
	var escapes []escape
	nFuncs := 0
	for _, fn := range w.Funcs {
		if fn.Signature.Recv() != nil && isPtrToNamed(fn.Signature.Recv().Type(), modulePath+"/context", "Context") {
			continue // methods of Context itself
		}
		for pi, prm := range fn.Params {
			if !isPtrToNamed(prm.Type(), modulePath+"/context", "Context") {
				continue
			}
			nFuncs++
			// writes through prm
			set := map[string]bool{}      // fields set to true / non-false and not restored
			restored := map[string]bool{} // fields with a deferred reset
			var order []string
			for _, b := range fn.Blocks {
				for _, ins := range b.Instrs {
					switch x := ins.(type) {
					case *ssa.Store:
						if ok, fld := recvRooted(x.Addr, prm); ok && fld != "" {
							if c, ok := x.Val.(*ssa.Const); ok {
								if v := constVal(c); v.k == kBool && !v.b {
									continue
								}
							}
							if !set[fld] {
								order = append(order, fld)
							}
							set[fld] = true
						}
					case *ssa.Call:
						if cal := x.Call.StaticCallee(); cal != nil && len(x.Call.Args) > 0 && x.Call.Args[0] == ssa.Value(prm) {
							for _, cw := range mw[cal] {
								if cw.val.k == kBool && !cw.val.b {
									continue
								}
								if !set[cw.field] {
									order = append(order, cw.field)
								}
								set[cw.field] = true
							}
						}
					case *ssa.Defer:
						if cal := x.Call.StaticCallee(); cal != nil && len(x.Call.Args) > 0 && x.Call.Args[0] == ssa.Value(prm) {
							for _, cw := range mw[cal] {
								restored[cw.field] = true
							}
						}
						if mc, ok := x.Call.Value.(*ssa.MakeClosure); ok {
							cf := mc.Fn.(*ssa.Function)
							for bi, bnd := range mc.Bindings {
								if bnd == ssa.Value(prm) {
									for _, cb := range cf.Blocks {
										for _, ci := range cb.Instrs {
											if st, ok := ci.(*ssa.Store); ok {
												if ok, fld := recvRooted(st.Addr, cf.FreeVars[bi]); ok {
													if fld == "" {
														restored["*"] = true
													}
													restored[fld] = true
												}
											}
										}
									}
								}
							}
						}
					}
				}
			}
			var esc []string
			for _, f := range order {
				if !restored[f] && !restored["*"] {
					esc = append(esc, f)
				}
			}
			construct := "flags via *Context parameter " + prm.Name()
			pos := w.pos(fn.Pos())
			if len(order) == 0 {
				r.holds("PAIR-ctx", fnKey(fn), construct, "no flag is set through the pointer", pos)
				continue
			}
			if len(esc) == 0 {
				r.holds("PAIR-ctx", fnKey(fn), construct, "every flag set through the pointer ("+strings.Join(order, ",")+") has a deferred reset in the same function", pos)
				continue
			}
			fs := map[string]bool{}
			for _, f := range esc {
				fs[f] = true
			}
			escapes = append(escapes, escape{fn, pi, fs})
		}
	}
	// escaping flags: every caller must pass the address of its own by-value context
	cg := w.CallGraph()
	for _, es := range escapes {
		construct := "flags via *Context parameter " + es.fn.Params[es.param].Name()
		pos := w.pos(es.fn.Pos())
		n := cg.Nodes[es.fn]
		okAll := true
		var why []string
		callers := 0
		if n != nil {
			for _, in := range n.In {
				callers++
				args := in.Site.Common().Args
				if es.param >= len(args) {
					okAll = false
					why = append(why, "call at "+w.pos(in.Site.Pos())+": argument not found")
					continue
				}
				a := args[es.param]
				if al, ok := a.(*ssa.Alloc); ok && isNamed(al.Type(), modulePath+"/context", "Context") {
					why = append(why, fmt.Sprintf("%s passes the address of its own by-value context", fnKey(in.Caller.Func)))
					continue
				}
				okAll = false
				why = append(why, fmt.Sprintf("%s passes a context it does not own (%s) at %s", fnKey(in.Caller.Func), a.Name(), w.pos(in.Site.Pos())))
			}
		}
		sort.Strings(why)
		if callers == 0 {
			okAll = false
			why = append(why, "no caller found")
		}
		det := "sets " + strings.Join(sortedKeys(es.fields), ",") + " without a deferred reset; " + strings.Join(why, "; ")
		if okAll {
			r.holds("PAIR-ctx", fnKey(es.fn), construct, det, pos)
		} else {
			r.violated("PAIR-ctx", fnKey(es.fn), construct, det, pos)
		}
	}
	r.Stats["functions_with_context_pointer_param"] = nFuncs
	r.floor("functions_with_context_pointer_param", 1)
}
