package main

import (
	"fmt"
	"sort"
	"strings"
	"go/constant"
	"go/token"
	"go/types"

	"golang.org/x/tools/go/ssa"
)

// ORD-own (C18): what is reported belongs to the file being analysed.
//
//  (a) own-file hints: a function of package main that ranges over a package-level log of
//      records and collects output lines into the target parser must compare the file the
//      record was made for with the target parser's file before it collects the record
//      (records made while a preloaded file was analysed stay in the log).
//  (b) target row: every call of the analysis loop with the load flag true passes a parser
//      whose requested-row field has been cleared after the flags were applied — the
//      requested row names a row of the target file.
func ordOwn(w *World, r *EngineResult) {
	isParserPtr := func(t types.Type) bool { return isPtrToNamed(t, modulePath+"/parser", "Parser") }
	fileNameOf := func(v ssa.Value) (root ssa.Value, ok bool) {
		// load of a field named FileName; root = the object it ultimately hangs on
		u, isU := v.(*ssa.UnOp)
		var fa *ssa.FieldAddr
		if isU {
			fa, _ = u.X.(*ssa.FieldAddr)
		}
		if fa == nil {
			if f, isF := v.(*ssa.Field); isF && fieldNameOf(f) == "FileName" {
				return rootObject(f.X), true
			}
			return nil, false
		}
		if fieldNameOf(fa) != "FileName" {
			return nil, false
		}
		return rootObject(fa.X), true
	}
	nA := 0
	for _, fn := range w.Funcs {
		if pkgShort(fn) != "main" || fn.Parent() != nil {
			continue
		}
		var target *ssa.Parameter
		for _, p := range fn.Params {
			if isParserPtr(p.Type()) {
				target = p
			}
		}
		if target == nil {
			continue
		}
		for _, l := range findLoops(fn) {
			if !isRangeLoop(l) {
				continue
			}
			// ranges over a package-level slice?
			overGlobal := false
			for b := range l.body {
				for _, ins := range b.Instrs {
					if ia, ok := ins.(*ssa.IndexAddr); ok {
						if g := rootGlobal(ia.X); g != nil {
							if _, isSl := g.Type().(*types.Pointer).Elem().Underlying().(*types.Slice); isSl {
								overGlobal = true
							}
						}
					}
				}
			}
			if !overGlobal {
				continue
			}
			// collects into a field of the target parser?
			for b := range l.body {
				for _, ins := range b.Instrs {
					st, ok := ins.(*ssa.Store)
					if !ok {
						continue
					}
					fa, ok := st.Addr.(*ssa.FieldAddr)
					if !ok || fa.X != ssa.Value(target) {
						continue
					}
					call, ok := st.Val.(*ssa.Call)
					if !ok {
						continue
					}
					if bi, ok := call.Call.Value.(*ssa.Builtin); !ok || bi.Name() != "append" {
						continue
					}
					nA++
					construct := "records collected into " + fieldNameOf(fa) + " of the target parser"
					pos := w.pos(instrPos(st))
					// dominated by an equality edge between a record file name and the target's
					guarded := false
					for cur := b; cur != nil && cur.Idom() != nil; cur = cur.Idom() {
						d := cur.Idom()
						iff, ok := d.Instrs[len(d.Instrs)-1].(*ssa.If)
						if !ok || len(cur.Preds) != 1 || !l.body[d] {
							continue
						}
						// the comparison may live in a predicate that receives the target
						{
							cond, neg := iff.Cond, false
							if u, ok := cond.(*ssa.UnOp); ok && u.Op == token.NOT {
								cond, neg = u.X, true
							}
							if pc, ok := cond.(*ssa.Call); ok {
								if cal := pc.Call.StaticCallee(); cal != nil && cal.Pkg != nil && inModule(cal.Pkg.Pkg.Path()) && sameFilePredicate(cal, pc, target, fileNameOf) {
									if (!neg && d.Succs[0] == cur) || (neg && d.Succs[1] == cur) {
										guarded = true
									}
								}
							}
						}
						bo, ok := iff.Cond.(*ssa.BinOp)
						if !ok || (bo.Op != token.EQL && bo.Op != token.NEQ) {
							continue
						}
						rx, okx := fileNameOf(bo.X)
						ry, oky := fileNameOf(bo.Y)
						if !okx || !oky {
							continue
						}
						if (rx == ssa.Value(target)) == (ry == ssa.Value(target)) {
							continue // both or neither hang on the target parser
						}
						if (bo.Op == token.EQL && d.Succs[0] == cur) || (bo.Op == token.NEQ && d.Succs[1] == cur) {
							guarded = true
						}
					}
					if guarded {
						r.holds("ORD-own", fnKey(fn), construct, "only records whose file is the target parser's file are collected", pos)
					} else {
						r.violated("ORD-own", fnKey(fn), construct, "every record of the process-wide log is collected, also those made while a preloaded file was analysed: the output names a preloaded file", pos)
					}
				}
			}
		}
	}
	r.Stats["own_file_collections"] = nA
	r.floor("own_file_collections", 1)

	// (b) the requested row on preload parsers
	var loop *ssa.Function
	var flagIdx int
	cg := w.CallGraph()
	for _, fn := range w.Funcs {
		if pkgShort(fn) != "main" || fn.Parent() != nil {
			continue
		}
		for pi, p := range fn.Params {
			if b, ok := p.Type().Underlying().(*types.Basic); !ok || b.Kind() != types.Bool {
				continue
			}
			sawT, sawF := false, false
			if n := cg.Nodes[fn]; n != nil {
				for _, in := range n.In {
					if k, ok := in.Site.Common().Args[pi].(*ssa.Const); ok && k.Value != nil && k.Value.Kind() == constant.Bool {
						if cBool(k.Value) {
							sawT = true
						} else {
							sawF = true
						}
					}
				}
			}
			if sawT && sawF {
				loop, flagIdx = fn, pi
			}
		}
	}
	if loop == nil {
		r.undecided("ORD-own", "main", "analysis loop", "unresolved anchor: function of main with a load flag passed as true and false", "-")
		return
	}
	nB := 0
	if n := cg.Nodes[loop]; n != nil {
		for _, in := range n.In {
			k, ok := in.Site.Common().Args[flagIdx].(*ssa.Const)
			if !ok || k.Value == nil || !cBool(k.Value) {
				continue
			}
			nB++
			caller := in.Caller.Func
			site := in.Site.(ssa.Instruction)
			construct := "requested row of the parser handed to the analysis loop for a preloaded file"
			pos := w.pos(instrPos(site))
			// the parser argument: a load of a local parser variable
			var cell *ssa.Alloc
			for _, a := range in.Site.Common().Args {
				if isNamed(a.Type(), modulePath+"/parser", "Parser") {
					if ld, ok := a.(*ssa.UnOp); ok {
						cell, _ = ld.X.(*ssa.Alloc)
					}
				}
			}
			if cell == nil {
				r.undecided("ORD-own", fnKey(caller), construct, "the parser argument is not a local variable", pos)
				continue
			}
			// last write of the requested-row field before the call, in the call's block or a dominator:
			// a store of constant 0 with no later call that takes the parser's address
			cleared := false
			blk := site.Block()
			for _, ins := range blk.Instrs {
				if ins == site {
					break
				}
				switch x := ins.(type) {
				case *ssa.Store:
					if fa, ok := x.Addr.(*ssa.FieldAddr); ok && fa.X == ssa.Value(cell) && fieldNameOf(fa) == "LspTargetRow" {
						kk, isC := x.Val.(*ssa.Const)
						cleared = isC && kk.Value != nil && kk.Int64() == 0
					}
				case *ssa.Call:
					for _, a := range x.Call.Args {
						if a == ssa.Value(cell) {
							cleared = false // the callee may set the field again
						}
					}
				}
			}
			if cleared {
				r.holds("ORD-own", fnKey(caller), construct, "cleared after the flags were applied: the requested row names a row of the target file only", pos)
			} else {
				r.violated("ORD-own", fnKey(caller), construct, "the parser of a preloaded file keeps the requested row: --hover / --suggest / --define capture their target on that row of the preloaded file", pos)
			}
		}
	}
	r.Stats["preload_loop_calls"] = nB
	r.floor("preload_loop_calls", 1)

	// (c) every round runs on the preloaded files as on the target: in the function that
	// iterates over the rounds, neither the call that analyses the preloaded files nor the call
	// that analyses the target is conditioned on the round at hand. The call points, define
	// infos and signatures of a file are recorded in the reporting round only: skipping that
	// round for preloaded files loses every call site located in them.
	analyses := map[*ssa.Function]bool{loop: true}
	if n := cg.Nodes[loop]; n != nil {
		for _, in := range n.In {
			if c := in.Caller.Func; c != nil && pkgShort(c) == "main" {
				// a wrapper that runs the loop for every preloaded file
				analyses[c] = true
			}
		}
	}
	nC := 0
	for _, fn := range w.Funcs {
		if pkgShort(fn) != "main" {
			continue
		}
		for _, l := range findLoops(fn) {
			if !isRangeLoop(l) {
				continue
			}
			// the loop variable: element of the slice returned by a function of package context
			overRounds := false
			var elems []ssa.Value
			for b := range l.body {
				for _, ins := range b.Instrs {
					if ia, ok := ins.(*ssa.IndexAddr); ok {
						if c, ok := ia.X.(*ssa.Call); ok {
							if cal := c.Call.StaticCallee(); cal != nil && pkgShort(cal) == "context" {
								overRounds = true
								for _, ref := range *ia.Referrers() {
									if ld, ok := ref.(*ssa.UnOp); ok {
										elems = append(elems, ld)
									}
								}
							}
						}
					}
				}
			}
			if !overRounds {
				continue
			}
			isRoundTest := func(cond ssa.Value) bool {
				bo, ok := cond.(*ssa.BinOp)
				if !ok {
					return false
				}
				for _, e := range elems {
					if bo.X == e || bo.Y == e {
						return true
					}
				}
				return false
			}
			for b := range l.body {
				for _, ins := range b.Instrs {
					c, ok := ins.(*ssa.Call)
					if !ok {
						continue
					}
					cal := c.Call.StaticCallee()
					if cal == nil || !analyses[cal] || cal == fn {
						continue
					}
					nC++
					construct := "call of " + cal.Name() + " in the round loop"
					pos := w.pos(instrPos(c))
					cond := ""
					for cur := b; cur != nil && cur.Idom() != nil && l.body[cur.Idom()]; cur = cur.Idom() {
						d := cur.Idom()
						if iff, ok := d.Instrs[len(d.Instrs)-1].(*ssa.If); ok && len(cur.Preds) == 1 && isRoundTest(iff.Cond) {
							cond = w.pos(instrPos(iff))
						}
					}
					if cond == "" {
						r.holds("ORD-own", fnKey(fn), construct, "runs in every round", pos)
					} else {
						r.violated("ORD-own", fnKey(fn), construct, "the call depends on a test of the round at "+cond+": a round is skipped for these files, and what that round records for them (call points, signatures) is missing", pos)
					}
				}
			}
		}
	}
	r.Stats["round_loop_analysis_calls"] = nC
	r.floor("round_loop_analysis_calls", 2)

	// (d) the preloaded files and the target are analysed back to back: between the call
	// that analyses the preloaded files and the call that analyses the target, in one round,
	// nothing else changes the analysis tables (package-level maps and variables of base and
	// eval). Whatever runs in between — a sweep that deletes placeholder entries, a reset —
	// sees the declarations of the preloaded files and not those of the target, so the pair
	// no longer behaves like the concatenation of the files.
	eff := w.Effects()
	nD := 0
	for _, fn := range w.Funcs {
		if pkgShort(fn) != "main" {
			continue
		}
		var calls []*ssa.Call
		for _, b := range fn.Blocks {
			for _, ins := range b.Instrs {
				if c, ok := ins.(*ssa.Call); ok {
					if cal := c.Call.StaticCallee(); cal != nil && analyses[cal] && cal != fn {
						calls = append(calls, c)
					}
				}
			}
		}
		for _, c1 := range calls {
			for _, c2 := range calls {
				if c1 == c2 || c1.Call.StaticCallee() == c2.Call.StaticCallee() || c2.Call.StaticCallee() != loop {
					continue // from the wrapper (preloaded files) to the loop itself (target)
				}
				between, ok := instrsBetween(c1, c2)
				if !ok {
					continue
				}
				nD++
				construct := "between " + c1.Call.StaticCallee().Name() + " and " + c2.Call.StaticCallee().Name()
				bad := ""
				for _, ins := range between {
					x, ok := ins.(*ssa.Call)
					if !ok {
						continue
					}
					cal := x.Call.StaticCallee()
					if cal == nil || cal.Pkg == nil || !inModule(cal.Pkg.Pkg.Path()) {
						continue
					}
					e := eff.Of(cal)
					var touched []string
					for _, m := range []map[string]bool{e.mapDeletes, e.mapUpdates, e.globalStores} {
						for k := range m {
							if strings.HasPrefix(k, "base.") || strings.HasPrefix(k, "eval.") {
								touched = append(touched, k)
							}
						}
					}
					if len(touched) > 0 {
						sort.Strings(touched)
						bad = fmt.Sprintf("%s at %s changes %s", fnKey(cal), w.pos(instrPos(x)), strings.Join(dedupe(touched), ","))
					}
				}
				if bad == "" {
					r.holds("ORD-own", fnKey(fn), construct, "the target is analysed directly after the preloaded files: nothing in between touches the analysis tables", w.pos(instrPos(c2)))
				} else {
					r.violated("ORD-own", fnKey(fn), construct, "the analysis tables are changed between the preloaded files and the target ("+bad+"): what runs there sees the declarations of the preloaded files but not yet those of the target, so preloading P and analysing M differs from analysing P followed by M", w.pos(instrPos(c2)))
				}
			}
		}
	}
	r.Stats["preload_to_target_spans"] = nD
	r.floor("preload_to_target_spans", 1)
	_ = fmt.Sprint
}

// rootObject: the value a chain of field addresses / loads hangs on.
func rootObject(v ssa.Value) ssa.Value {
	for i := 0; i < 8; i++ {
		switch x := v.(type) {
		case *ssa.FieldAddr:
			v = x.X
		case *ssa.Field:
			v = x.X
		case *ssa.UnOp:
			v = x.X
		case *ssa.IndexAddr:
			v = x.X
		default:
			return v
		}
	}
	return v
}


// instrsBetween: the instructions that can run after a and before b when a's block
// dominates b's (ok=false otherwise).
func instrsBetween(a, b ssa.Instruction) ([]ssa.Instruction, bool) {
	ab, bb := a.Block(), b.Block()
	var out []ssa.Instruction
	if ab == bb {
		seenA := false
		for _, ins := range ab.Instrs {
			if ins == b {
				return out, seenA
			}
			if seenA {
				out = append(out, ins)
			}
			if ins == a {
				seenA = true
			}
		}
		return nil, false
	}
	if !ab.Dominates(bb) {
		return nil, false
	}
	fwd := map[*ssa.BasicBlock]bool{}
	var f func(x *ssa.BasicBlock)
	f = func(x *ssa.BasicBlock) {
		if fwd[x] || x == bb {
			return
		}
		fwd[x] = true
		for _, s := range x.Succs {
			f(s)
		}
	}
	for _, s := range ab.Succs {
		f(s)
	}
	bwd := map[*ssa.BasicBlock]bool{}
	var g func(x *ssa.BasicBlock)
	g = func(x *ssa.BasicBlock) {
		if bwd[x] || x == ab {
			return
		}
		bwd[x] = true
		for _, p := range x.Preds {
			g(p)
		}
	}
	for _, p := range bb.Preds {
		g(p)
	}
	seenA := false
	for _, ins := range ab.Instrs {
		if seenA {
			out = append(out, ins)
		}
		if ins == a {
			seenA = true
		}
	}
	for x := range fwd {
		if bwd[x] {
			out = append(out, x.Instrs...)
		}
	}
	for _, ins := range bb.Instrs {
		if ins == b {
			break
		}
		out = append(out, ins)
	}
	return out, true
}


// sameFilePredicate: cal returns, on every return, the equality of two file names of which
// exactly one hangs on the parameter that receives target at the call pc.
func sameFilePredicate(cal *ssa.Function, pc *ssa.Call, target ssa.Value, fileNameOf func(ssa.Value) (ssa.Value, bool)) bool {
	if len(cal.Blocks) == 0 || cal.Signature.Results().Len() != 1 {
		return false
	}
	ti := -1
	for i, a := range pc.Call.Args {
		if a == target {
			ti = i
		}
	}
	if ti < 0 || ti >= len(cal.Params) {
		return false
	}
	tp := ssa.Value(cal.Params[ti])
	n := 0
	for _, b := range cal.Blocks {
		rt, ok := b.Instrs[len(b.Instrs)-1].(*ssa.Return)
		if !ok {
			continue
		}
		n++
		bo, ok := rt.Results[0].(*ssa.BinOp)
		if !ok || bo.Op != token.EQL {
			return false
		}
		rx, okx := fileNameOf(bo.X)
		ry, oky := fileNameOf(bo.Y)
		if !okx || !oky || (rx == tp) == (ry == tp) {
			return false
		}
	}
	return n > 0
}
