#!/bin/sh
# Build the analyser from files on disk only (offline).
set -e
cd "$(dirname "$0")/checker"
unset GOWORK
export GOFLAGS=-mod=mod GOPROXY=off GOTOOLCHAIN=local
export PATH=/opt/veriftools/go1.26.8/bin:$PATH
mkdir -p ../bin
go build -o ../bin/tiverif .
