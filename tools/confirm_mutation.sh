#!/bin/sh
# Development helper: confirm a sub-agent mutation in its scratch worktree.
# usage: confirm_mutation.sh /tmp/mut/C10
# 1. with the change applied: build, golden suite must pass, demo must FAIL
# 2. with the change reverted: build, demo must PASS
D=$1
cd "$D" || exit 2
P=_mutation/patch.diff
[ -f "$P" ] || { echo "no patch"; exit 2; }
echo "== patch touches:"; grep '^+++ ' $P
# ensure applied state
git apply -R --check $P 2>/dev/null || { echo "patch not currently applied; applying"; git apply $P || exit 2; }
go build -o ti . || { echo "BUILD FAILED with change"; exit 1; }
echo "== golden suite with change:"; (cd test && go test ./... -count=1 -parallel=4 2>&1 | tail -2)
echo "== demo with change (expect non-zero):"; bash _mutation/demo/run.sh >/tmp/demo_with.log 2>&1; echo "rc=$?"; tail -5 /tmp/demo_with.log
git apply -R $P || exit 2
go build -o ti . || { echo "BUILD FAILED without change"; exit 1; }
echo "== demo without change (expect 0):"; bash _mutation/demo/run.sh >/tmp/demo_without.log 2>&1; echo "rc=$?"; tail -3 /tmp/demo_without.log
git apply $P
