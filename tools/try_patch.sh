#!/bin/bash
# Development helper: apply a patch to a scratch copy of /repo and run every registered quick check on it.
# usage: try_patch.sh <patch.diff>   — prints the properties whose check reports a violation
P=$1; D=/tmp/rf; rm -rf $D /tmp/rf_ev; mkdir -p $D /tmp/rf_ev
rsync -a --exclude .git /repo/ $D/
( cd $D && patch -p1 -s --no-backup-if-mismatch < "$P" ) || { echo "PATCH FAILED"; exit 2; }
( cd $D && go build ./... ) || { echo "BUILD FAILED"; exit 2; }
for i in $(jq -r '.checks[].property_id' /verif/MANIFEST.json); do
  out=$(VERIF_REPO=$D VERIF_EVIDENCE_DIR=/tmp/rf_ev VERIF_NO_SELFTEST=1 /verif/bin/tiverif check -property $i 2>&1); rc=$?
  if [ $rc -ne 0 ]; then echo "== $i rc=$rc"; echo "$out" | grep -A2 "^VIOLATED\|^UNDECIDED\|FLOOR" | head -30; fi
done
rm -rf $D /tmp/rf_ev
