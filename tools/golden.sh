#!/bin/sh
# Development helper (NOT a registered check): builds ti from /repo's working tree in a scratch
# copy and runs the real golden suite (585 programs). Used to validate `fix:` commits.
set -e
D=${1:-/tmp/rtfix}
mkdir -p "$D"
rsync -a --delete --exclude .git /repo/ "$D"/
cd "$D" && go build -o ti . && cd test && go test ./... -count=1 -parallel=4 2>&1 | tail -3
