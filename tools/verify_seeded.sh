#!/bin/sh
# Development helper: check a seeded variant against /repo's CURRENT tree.
#   1. scratch copy of /repo: demo must pass (exit 0)
#   2. apply seeded/<id>/patch.diff: must build; demo must fail (non-zero)
# usage: verify_seeded.sh <id> [golden]   (with "golden": also run the golden suite on the patched copy)
id=$1
S=/verif/seeded/$id
D=/tmp/vs/$id
rm -rf "$D"; mkdir -p "$D"
rsync -a --exclude .git /repo/ "$D"/
mkdir -p "$D/_mutation"; cp -r "$S/demo" "$D/_mutation/demo"
cd "$D" || exit 2
go build -o ti . || { echo "BUILD FAILED (clean)"; exit 1; }
bash _mutation/demo/run.sh > /tmp/vs/$id.clean.log 2>&1; rc1=$?
patch -p1 -s --no-backup-if-mismatch -i "$S/patch.diff" || { echo "PATCH FAILED"; exit 1; }
go build -o ti . || { echo "BUILD FAILED (patched)"; exit 1; }
bash _mutation/demo/run.sh > /tmp/vs/$id.patched.log 2>&1; rc2=$?
g=""
if [ "$2" = golden ]; then g=$(cd test && go test ./... -count=1 -parallel=4 2>&1 | tail -1); fi
echo "$id clean_rc=$rc1 patched_rc=$rc2 $g"
cd /; rm -rf "$D"
